"""C19 -- load stepping: warm start is the linear predictor, scaling is transparent, parameters current.

The warm start, the four load-step drivers, the scaled objectives / preconditioner strategies and the parameter-derivative closures are
*interpreted* on symbolic inputs by the load-step machine (rules/C19_sym.py); the obligations compare the resulting values and effect
traces with what the property demands.  Nothing is matched against statement text or local names.

  D1  predictor sign: with an abstract objective (hessian_vec = d grad/dx [v], jacobian_p_vec / jacobian_p2_vec = d grad/dp_k [v], all at the
      objective's current parameters) every public predictor function of the warm-start module (found by its call cone reaching a linear
      solver and its call form f(objective, x, new parameters), wherever its pieces live) hands the solver the operator +H(x; p_old), the
      right-hand side J_k(x; p_old)[p_old_k - p_new_k] and returns the solution unnegated, i.e. dx = -H^-1 J_k (p_new_k - p_old_k); every
      driver starts its solver from (scaled) x0 + dx.  The driver side is decided on the *value* of the start point: it must equal
      scaling*x0 + inv<H(scaling*x0; p_old)>[J(scaling*x0; p_old)[p_old - p_new]] (or x0 + the value a verified predictor function returned).
      No call is identified by the callee's name: the predictor solves are the linear solves built from derivatives of the objective's
      gradient; when the equation fails, the operator / right-hand side of those solves say which ingredient is off (parameters already
      replaced, wrong point, wrong parameter difference, increment subtracted / dropped / scaled);
  D2  in all four drivers, for every combination of the boolean options and every path: whenever the objective is handed to other code
      (the nonlinear solve, callbacks) it carries the new parameters, it still does when the driver returns, the predictor is computed
      with the old ones from the difference to the new ones; the bound-constrained front end hands the same p on;
  D3  scaling transparency: drivers start the solver from scaling*x0 (+ increment), linearise warm start and preconditioner at that
      scaled point, scale bounds like the iterate, return invScaling*(solver result); ScaledObjective / BoundConstrainedObjective
      evaluate the user function at t*xBar, start the base class from s*x0 with s*t = 1, store s and t as scaling / invScaling, derive s from
      sqrt(diag K0) of the strategy initialised at x0, and give the scaled strategy the diagonal t; ScaledPrecondStrategy returns the
      congruence D^T K D with D = diag(its argument) and initialises the inner strategy at D x;
  D4  param_index_update slot table; the Objective's jvp closures differentiate the gradient at their own arguments (no state captured
      at jit-trace time) and hessian_vec / jacobian_p_vec / jacobian_p2_vec implement the abstract objective used in D1.
Not decided: accuracy of the CG solve, numerical equality of scaled and unscaled solutions.
"""
from __future__ import annotations

import ast
import itertools
from fractions import Fraction

from optilint.core import Incomplete
from optilint.expr import Rat, Poly, simplify
from optilint.model import walk_local, dotted, FuncVal
from .C19_sym import (Machine, Oracle, explore, Unsupported, PathEnd, Budget, Num, Record, RecordType, Obj, Closure, Bound, FunSym, JitFn, GradFn, Mat,
                      OpaqueAttr, Partial, mutable_attributes)

LEVEL = "other"
RULE_TEXT = ("obligations = (warm-start function x slot scenario x {returned value, operator, right-hand side}) + (driver x {increment added, parameters "
             "current at every hand-off, predictor sees old parameters, scaled entry / linearisation point / bounds / exit}) + (scaled objective / "
             "strategy class x scaling clause) + parameter slot table and derivative closures")
EXPLANATION = ("Symbolic interpretation (rules/C19_sym.py: exact rational values over structured atoms, linear-operator atoms, heap objects with an effect "
               "trace, path enumeration over unknown conditions, try/except and all boolean options, loop summaries, jit trace-time staleness) of "
               "WarmStart.py, the four load-step drivers, ScaledObjective / BoundConstrainedObjective / ScaledPrecondStrategy and Objective.__init__; the "
               "resulting values are compared with -H^-1 J_p (p_new - p_old), scaling*x0, invScaling*result etc. Accuracy of the linear solve is not decided.")

WS = "optimism.WarmStart"
OBJ = "optimism.Objective"
BCO = "optimism.BoundConstrainedObjective"
# (driver, works in scaled variables)
DRIVERS = [
    ("optimism.EquationSolver:nonlinear_equation_solve", True),
    ("optimism.TrustRegionSPG:solve", True),
    ("optimism.AlSolver:augmented_lagrange_solve", False),
    ("optimism.BoundConstrainedSolver:bound_constrained_solve", True),
]
# protocol of the objective used by the warm start: method -> differentiated argument path of the gradient g(x, p)
PROTOCOL = {"hessian_vec": (0,), "jacobian_p_vec": (1, 0), "jacobian_p2_vec": (1, 2)}
SLOT_METHOD = {0: "jacobian_p_vec", 2: "jacobian_p2_vec"}
ERR = (Unsupported, Budget, KeyError, IndexError, AttributeError, TypeError, ValueError, RecursionError)


def run(ctx):
    for mname in (WS, OBJ, "optimism.EquationSolver", "optimism.TrustRegionSPG", "optimism.AlSolver",
                  "optimism.BoundConstrainedSolver", BCO):
        ctx.need_module(mname)
    ctx.guard(d1, ctx)
    ctx.guard(drivers, ctx)
    ctx.guard(d3_classes, ctx)
    ctx.guard(d3_strategies, ctx)
    ctx.guard(d4, ctx)
    ctx.trust("scipy.sparse.linalg.cg(A, b, M=...) returns an approximation of A^-1 b")
    ctx.trust("jax.jvp(f, (x,), (v,)) = (f(x), Df(x)[v]); jax.jit caches Python-level state read at trace time; the `.primal` of a jax tracer has the tracer's value")
    ctx.assume("Hessian positive definite at the current solution; diagonal scalings > 0 (property text)")


# ------------------------------------------------------------------ shared set-up

def _mutable(ctx):
    r = ctx.repo
    if not hasattr(r, "_c19_mutable"):
        r._c19_mutable = mutable_attributes(r)
    return r._c19_mutable


def _inline_policy(ctx):
    """Which module-level repository functions are interpreted when called: everything in WarmStart, every function whose call cone
    (depth 3) reaches the warm start or assigns a `.p` attribute (extracted pieces of a driver), and -- optionally -- small loop-free helpers."""
    repo = ctx.repo
    cache = {}
    # names of methods (other than constructors) that store the parameters of their object: calling one is as good as `obj.p = ...`
    setters = set()
    for s_ in repo.functions():
        if s_.cls is not None and s_.name != "__init__" and not s_.module.is_test:
            if any(isinstance(n, ast.Attribute) and isinstance(n.ctx, ast.Store) and n.attr == "p" for n in ast.walk(s_.node)):
                setters.add(s_.name)

    def touches(sc, depth, seen):
        if id(sc) in seen or depth > 3:
            return False
        seen.add(id(sc))
        for n in ast.walk(sc.node):
            if isinstance(n, ast.Attribute) and isinstance(n.ctx, ast.Store) and n.attr == "p":
                return True
            if isinstance(n, ast.Call) and isinstance(n.func, ast.Attribute) and n.func.attr in setters:
                return True
            if isinstance(n, ast.Call) and isinstance(n.func, ast.Name) and n.func.id == "setattr":
                return True
        for n in ast.walk(sc.node):
            if isinstance(n, ast.Call):
                try:
                    vals = repo.resolve(n.func, sc)
                except Exception:
                    vals = ()
                for v in vals:
                    if isinstance(v, FuncVal):
                        if v.scope.module.name == WS:
                            return True
                        if touches(v.scope, depth + 1, seen):
                            return True
        return False

    # functions that the public functions of the warm-start module are made of, wherever they live (re-exported, moved to another module)
    predictor_cone = _ws_cone(ctx)

    def small(sc):
        n_st = 0
        for n in ast.walk(sc.node):
            if isinstance(n, (ast.For, ast.While, ast.Try, ast.With, ast.AsyncFor, ast.AsyncWith)):
                return False
            if isinstance(n, (ast.FunctionDef, ast.ClassDef)) and n is not sc.node:
                return False
            if isinstance(n, ast.stmt):
                n_st += 1
        return n_st <= 25

    def inline(sc):
        k = id(sc)
        if k not in cache:
            if sc.module.name == WS or sc.qualname in predictor_cone:
                cache[k] = True
            elif sc.module.is_test:
                cache[k] = False
            elif sc.qualname in {q for q, _ in DRIVERS}:
                # another load-step driver (verified on its own): interpreted in line when possible, else an opaque hand-off
                cache[k] = "try"
            elif touches(sc, 0, set()):
                cache[k] = True
            else:
                cache[k] = "try" if small(sc) else False
        return cache[k]
    return inline


def _params_type(m, ctx):
    t = m.module_value(ctx.need_module(OBJ), "Params")
    if not isinstance(t, RecordType):
        raise Incomplete("optimism.Objective.Params is not a namedtuple")
    return t


def _params(m, t, prefix):
    return Record(t.name, t.fields, [m.sym(f"{prefix}{i}") for i in range(len(t.fields))])


def _grad_atom(m, x, p, fname="E"):
    g = m.app(f"grad0[{fname}]", [x, p])
    (ga,) = g.r.atoms()
    return ga


def _protocol_value(m, meth, x, p, v, fname="E"):
    return m.lin(("D", _grad_atom(m, x, p, fname), PROTOCOL[meth]), v)


def _spec_objective(m, name, pold, scaled, cls=None):
    """abstract objective: the three derivative products of the protocol at the *current* parameters, preconditioner refresh as an event;
    any other method is looked up in the real Objective class (e.g. a setter for the parameters) and, failing that, is an opaque event"""
    def deriv(meth):
        def f(mm, o, args, kw, node):
            if len(args) != 2 or kw:
                raise Unsupported(f"{meth} call form")
            return _protocol_value(mm, meth, mm.num(args[0]), o.attrs.get("p"), mm.num(args[1]))
        return f

    def update_precond(mm, o, args, kw, node):
        mm.events.append({"kind": "precond", "obj": o, "point": args[0] if args else None, "p": o.attrs.get("p"), "node": node, "idx": len(mm.events)})
        return None
    spec = {k: deriv(k) for k in PROTOCOL}
    spec["update_precond"] = update_precond
    spec["apply_precond"] = lambda mm, o, args, kw, node: mm.app("apply_precond", list(args))
    spec["value"] = lambda mm, o, args, kw, node: mm.app("E", [args[0], o.attrs.get("p")])
    spec["gradient"] = lambda mm, o, args, kw, node: mm.app("grad0[E]", [args[0], o.attrs.get("p")])
    o = Obj(name, cls=cls, spec=spec)
    o.attrs["p"] = pold
    if scaled:
        s = m.sym("S")
        o.attrs["scaling"] = s
        o.attrs["invScaling"] = Num(m.A.const(1) / s.r)
    else:
        o.attrs["scaling"] = 1.0
        o.attrs["invScaling"] = 1.0
    return o


KNOWN_KINDS = {"sym", "lin", "sqrt", "stale", "matsym"}
KNOWN_APPS = {"apply_precond", "E"}        # functions of the abstract objective


def _precise(m, *vals, lenient=False):
    """no atom stands for something the machine does not understand.  strict: results of opaque calls, loop havoc and unknown pure
    functions are not understood; lenient (class analyses on opaque inputs): uninterpreted functions of the inputs and results of the
    opaque input objects are as good as symbols, only loop havoc and results of repository functions that were not interpreted are not."""
    for v in vals:
        for a in m.atoms_deep(v):
            k = m.kind(a)
            if k in KNOWN_KINDS:
                continue
            ex = m.info[a][1]
            fn_ = ex.get("f", "") if k == "app" else ""
            if k == "app" and (fn_.startswith("grad0[") or fn_ in KNOWN_APPS):
                continue
            if k == "app" and lenient and (fn_.startswith(".") or fn_ in ("[]", "item", "diagonal", "F", "setitem")):
                continue
            if k == "ret" and lenient:
                ev = m.events[ex["event"]] if isinstance(ex.get("event"), int) and ex["event"] < len(m.events) else {}
                if ev.get("kind") == "ocall" or (ev.get("kind") == "use" and ev.get("callee_scope") is None):
                    continue
            return False
    return True


def _show(m, v, n=110):
    try:
        s = m.key(v)
    except Exception:
        s = repr(v)
    return s if len(s) <= n else s[:n] + "..."


def _verdict(ok, precise):
    """True -> proved, definite mismatch -> refuted only when every value involved is understood, otherwise undecided"""
    if ok:
        return True
    return False if precise else None


def _path_label(combo, orc):
    bits = [f"{k}={v}" for k, v in combo.items()]
    weak = {t[2] for t in orc.taken if t[3]}
    for (k, c) in orc.log:
        if k in weak:
            continue
        if k.startswith("truth:"):
            bits.append(f"{k[6:][:40]} is {'true' if c == 0 else 'false'}")
        elif k.startswith("try@") and c:
            bits.append(f"statement {c} of the try block raises")
    return ", ".join(bits) or "the only path"


class _Agg:
    """one obligation decided over many paths: refuted if any path refutes, undecided if any path is undecided, else proved"""

    def __init__(self):
        self.items = {}

    def add(self, rule, construct, scope, node, verdict, detail, bad_detail):
        k = (rule, construct, scope.qualname)
        it = self.items.setdefault(k, {"scope": scope, "node": node, "bad": [], "und": [], "ok": 0, "detail": detail})
        if detail and not it["detail"]:
            it["detail"] = detail
        if verdict is True:
            it["ok"] += 1
        elif verdict is False:
            it["bad"].append(bad_detail)
            if node is not None:
                it["node"] = node
        else:
            it["und"].append(bad_detail)

    def flush(self, ctx):
        for (rule, construct, _q), it in self.items.items():
            if it["bad"]:
                ctx.refuted(rule, it["scope"], it["node"], construct=construct, detail=it["bad"][0] + (f" (+{len(it['bad']) - 1} more paths)" if len(it["bad"]) > 1 else ""))
            elif it["und"]:
                ctx.undecided(rule, it["scope"], it["node"], construct=construct, detail=it["und"][0])
            else:
                ctx.proved(rule, it["scope"], it["node"], construct=construct, detail=f"{it['detail']} [{it['ok']} path(s)]")


def _node_in(scope, node):
    """node if it lies inside the scope's own source (for locations), else None"""
    if node is None:
        return None
    for n in ast.walk(scope.node):
        if n is node:
            return node
    return None


# ------------------------------------------------------------------ D1: the warm-start functions

def _int_default_params(sc):
    out = {}
    for p_ in sc.params():
        d = sc.default_of(p_)
        if isinstance(d, ast.Constant) and isinstance(d.value, int) and not isinstance(d.value, bool):
            out[p_] = d.value
    return out


def _solver_reach(ctx):
    """reaches(scope) -> the call cone of the function (inside the repository, depth 4) contains a call of a linear solver"""
    from optilint.model import ExtVal
    from .C19_sym import ITERATIVE_SOLVERS, DIRECT_SOLVERS
    repo = ctx.repo
    memo = {}

    def callees(sc):
        out = []
        for n in ast.walk(sc.node):
            if isinstance(n, ast.Call):
                try:
                    out += list(repo.resolve(n.func, sc))
                except Exception:
                    pass
        return out

    def reaches(sc, depth=0, seen=None):
        seen = seen if seen is not None else set()
        if id(sc) in memo:
            return memo[id(sc)]
        if id(sc) in seen or depth > 4:
            return False
        seen.add(id(sc))
        r = False
        for v in callees(sc):
            if isinstance(v, ExtVal) and v.name.split(".")[-1] in (ITERATIVE_SOLVERS | DIRECT_SOLVERS) and v.name.split(".")[0] in ("scipy", "jax"):
                r = True
            elif isinstance(v, FuncVal) and not v.scope.module.is_test and reaches(v.scope, depth + 1, seen):
                r = True
            if r:
                break
        if depth == 0:
            memo[id(sc)] = r
        return r
    return reaches, callees


def _ws_public(ctx):
    """public functions of the warm-start module: defined there or imported into it from another module of the repository"""
    mod = ctx.need_module(WS)
    out = [c for c in mod.scope.children if c.kind == "function" and not c.name.startswith("_")]
    for name, bs in mod.scope.bindings.items():
        if name.startswith("_") or not bs or bs[-1].kind != "importfrom":
            continue
        try:
            vals = ctx.repo.resolve(ast.Name(id=name, ctx=ast.Load()), mod.scope)
        except Exception:
            vals = ()
        for v in vals:
            if isinstance(v, FuncVal) and v.scope.kind == "function" and v.scope.cls is None and not v.scope.module.is_test and v.scope not in out:
                out.append(v.scope)
    return out


def _ws_solver_functions(ctx):
    """public functions of the warm-start module whose call cone reaches a linear solver"""
    r = ctx.repo
    if not hasattr(r, "_c19_ws_solver"):
        reaches, _ = _solver_reach(ctx)
        r._c19_ws_solver = [c for c in _ws_public(ctx) if reaches(c)]
    return r._c19_ws_solver


def _ws_cone(ctx):
    """qualnames of the solver-reaching public warm-start functions and of the repository functions they call (depth 3) that reach the
    solver themselves: the predictor, however it is split into functions and modules"""
    r = ctx.repo
    if not hasattr(r, "_c19_ws_cone"):
        reaches, callees = _solver_reach(ctx)
        out = set()

        def add(sc, depth):
            if sc.qualname in out or depth > 3:
                return
            out.add(sc.qualname)
            for v in callees(sc):
                if isinstance(v, FuncVal) and v.scope.kind == "function" and not v.scope.module.is_test and reaches(v.scope):
                    add(v.scope, depth + 1)
        for c in _ws_solver_functions(ctx):
            add(c, 0)
        r._c19_ws_cone = out
    return r._c19_ws_cone


def _ws_functions(ctx):
    """predictor functions that are verified on their own: public functions of the warm-start module that reach a linear solver and can be
    called as f(objective, x, new parameters) (further parameters have defaults).  Private helpers are covered through their callers;
    public functions with another signature (e.g. a whole load-step preamble) through the drivers that call them."""
    out = []
    for c in _ws_solver_functions(ctx):
        ps = c.params()
        if len(ps) >= 3 and all(c.default_of(p_) is not None for p_ in ps[3:]) and all(c.default_of(p_) is not None for p_ in c.kwonly()):
            out.append(c)
    if not out:
        raise Incomplete("no warm-start function found in optimism.WarmStart")
    return out


def _run_ws(ctx, sc, mode, kwargs):
    inline = _inline_policy(ctx)
    mut = _mutable(ctx)

    def run(orc):
        m = Machine(ctx.repo, orc, inline, mut)
        t = _params_type(m, ctx)
        pold, pnew = _params(m, t, "pold"), _params(m, t, "pnew")
        obj = _spec_objective(m, "objective", pold, scaled=False, cls=ctx.repo.find(f"{OBJ}:Objective"))
        X = m.sym("X")
        pn = pnew if mode == "record" else m.sym("qnew")
        res = {"m": m, "obj": obj, "X": X, "pold": pold, "pnew": pnew, "pn": pn, "out": None, "status": "ret"}
        try:
            res["out"] = m.call_closure(Closure(sc, m.modenv(sc.module)), [obj, X, pn], dict(kwargs))
        except PathEnd as ex:
            res["status"] = "raised"
            res["why"] = str(ex)
        return res
    return explore(run, 64)


def d1(ctx):
    rule = "D1/T7-predictor-sign"
    for sc in _ws_functions(ctx):
        ctx.touch(sc)
        fname = sc.name
        agg = _Agg()
        idx = _int_default_params(sc)
        try:
            mode = "record"
            try:
                _run_ws(ctx, sc, "record", {})
            except Unsupported:
                mode = "slot"       # the third argument is the new value of one slot, not the whole parameter tuple
            scenarios = [({}, None)]
            if idx and mode == "record":
                # the slot selector: the integer option whose value changes which derivative / difference enters the right-hand side
                m0 = Machine(ctx.repo)
                nf = len(_params_type(m0, ctx).fields)

                def signature(kw):
                    sig = set()
                    for _orc, r_ in _run_ws(ctx, sc, mode, kw):
                        for e_ in r_["m"].events:
                            if e_["kind"] == "linsolve" and r_["m"].is_numlike(e_["rhs"]):
                                sig.add(r_["m"].key(e_["rhs"]))
                    return sig
                sel = None
                for ip, dflt in idx.items():
                    sigs = [signature({ip: k}) for k in sorted(set(SLOT_METHOD) | {dflt})]
                    if any(s_ != sigs[0] for s_ in sigs[1:]):
                        sel = (ip, dflt)
                        break
                if sel is not None:
                    scenarios = [({}, sel[1])] + [({sel[0]: k}, k) for k in range(nf)]
            n_ret = 0
            for kw, slot in scenarios:
                slot = 0 if slot is None else slot
                for orc, r in _run_ws(ctx, sc, mode, kw):
                    m = r["m"]
                    label = _path_label({**kw}, orc)
                    if r["status"] != "ret":
                        continue
                    n_ret += 1
                    solves = [e for e in m.events if e["kind"] == "linsolve"]
                    out = r["out"]
                    if not solves or not m.is_numlike(out):
                        agg.add(rule, f"{fname}:returns-cg-solution", sc, None, None, "", f"[{label}] no linear solve on this path / non-numeric result `{_show(m, out)}`")
                        continue
                    ev = solves[-1]
                    X, pold = r["X"], r["pold"]
                    pk_new = r["pnew"].values[slot] if mode == "record" else r["pn"]
                    ga = _grad_atom(m, X, pold)
                    meth = SLOT_METHOD.get(slot)
                    cons = f"{fname}:rhs:{meth}" if meth else f"{fname}:rhs:slot{slot}"
                    node = _node_in(sc, ev["node"])
                    want_rhs = m.lin(("D", ga, (1, slot)), Num(m.num(pold.values[slot]).r - m.num(pk_new).r))
                    want_op = ("D", ga, PROTOCOL["hessian_vec"])
                    want = m.lin(("inv", want_op), want_rhs)         # = -H^-1 J_slot (p_new - p_old)
                    d_ret = "returns the solution of the linear solve unnegated"
                    d_op = "linear operator v -> +objective.hessian_vec(x, v) at the old parameters"
                    d_rhs = f"right-hand side = d(grad)/dp[{slot}] applied to (old - new) parameters of slot {slot}"
                    if m.equal(out, want):
                        # the value is the predictor: however operator, right-hand side and result were arranged, they compose correctly
                        agg.add(rule, f"{fname}:returns-cg-solution", sc, node, True, d_ret, "")
                        agg.add(rule, f"{fname}:operator-is-hessian", sc, node, True, d_op, "")
                        agg.add(rule, cons, sc, node, True, d_rhs, "")
                        continue
                    # the value is not -H^-1 J (p_new - p_old): say which ingredient is off
                    ok = m.equal(out, ev["sol"])
                    neg = (not ok) and m.equal(out, Num(-m.num(ev["sol"]).r))
                    rhs_comp = m.is_numlike(ev["rhs"]) and m.equal(Num(m.num(ev["rhs"]).r / m.A.const(ev["coef"])), want_rhs)
                    rhs_plain = m.is_numlike(ev["rhs"]) and m.equal(ev["rhs"], want_rhs)
                    okop = ev["op"] == want_op and (ev["coef"] == 1 or rhs_comp)
                    okb = rhs_comp or (rhs_plain and not okop)          # a correct right-hand side with a scaled operator: the operator is to blame
                    culprit = True
                    agg.add(rule, f"{fname}:returns-cg-solution", sc, node, _verdict(ok, neg or _precise(m, out, ev["sol"])), d_ret,
                            f"[{label}] {fname} returns " + ("the negated solution of its linear solve: the predictor would point away from the new solution" if neg
                                                             else f"`{_show(m, out)}`, not the solution `{_show(m, ev['sol'])}` of its linear solve"))
                    agg.add(rule, f"{fname}:operator-is-hessian", sc, node, _verdict(okop, _precise(m, ev["probe"])), d_op,
                            f"[{label}] the linear operator of the warm start maps v to `{_show(m, ev['probe'])}`, not to +objective.hessian_vec(x, v) "
                            f"(the Hessian at the current point and the objective's old parameters)")
                    agg.add(rule, cons, sc, node, _verdict(okb and culprit, _precise(m, ev["rhs"])), d_rhs,
                            f"[{label}] warm-start right-hand side is `{_show(m, ev['rhs'])}`" + (f" for the operator {ev['coef']}*H" if ev["coef"] != 1 else "") +
                            f"; expected the slot-{slot} Jacobian-vector product of (old - new) parameters at x: `{_show(m, want_rhs)}` "
                            f"(wrong sign, slot or point makes the predictor miss the new solution)")
            if n_ret == 0:
                ctx.undecided(rule, sc, None, construct=f"{fname}:returns-cg-solution", detail="no path returns a value")
            agg.flush(ctx)
        except ERR as ex:
            ctx.undecided(rule, sc, None, construct=f"{fname}:interpretation", detail=f"cannot interpret {fname}: {type(ex).__name__}: {ex}")


# ------------------------------------------------------------------ drivers: D1 (increment added), D2, D3 (entry / exit / points / bounds)

def _bool_params(sc):
    out = []
    for p_ in sc.params() + sc.kwonly():
        d = sc.default_of(p_)
        if isinstance(d, ast.Constant) and isinstance(d.value, bool):
            out.append(p_)
    return out


def _driver_paths(ctx, q, scaled, max_paths=1500):
    sc = ctx.need(q)
    ps = sc.params()
    if len(ps) < 3:
        raise Incomplete(f"{q}: expected (objective, x0, p, ...)")
    flags = _bool_params(sc)
    inline = _inline_policy(ctx)
    mut = _mutable(ctx)
    out = []
    for combo in itertools.product([True, False], repeat=len(flags)):
        cdict = dict(zip(flags, combo))

        def run(orc, cdict=cdict):
            m = Machine(ctx.repo, orc, inline, mut)
            t = _params_type(m, ctx)
            pold, pnew = _params(m, t, "pold"), _params(m, t, "pnew")
            obj = _spec_objective(m, "objective", pold, scaled, cls=ctx.repo.find(f"{OBJ}:Objective"))
            X0 = m.sym("X0")

            def watch_driver(mm, phase, info):
                # another load-step driver is entered (interpreted in line): a hand-off of the objective like a solver call
                if phase == "enter" and info["scope"] is not sc:
                    mm.events.append({"kind": "handoff", "callee": info["scope"].qualname, "node": info["node"], "p": obj.attrs.get("p"),
                                      "args": dict(info["env"].vars), "idx": len(mm.events)})
                return None
            for dq, _sc in DRIVERS:
                if dq != q:
                    m.watch[dq] = watch_driver
            kwargs = {}
            args = [obj, X0, pnew]
            for p_ in ps[3:] + sc.kwonly():
                if p_ in cdict:
                    kwargs[p_] = cdict[p_]
                else:
                    kwargs[p_] = Obj(p_, opaque=True)
            res = {"m": m, "obj": obj, "X0": X0, "pold": pold, "pnew": pnew, "out": None, "status": "ret", "combo": cdict,
                   "sigma": m.num(obj.attrs["scaling"])}
            try:
                res["out"] = m.call_closure(Closure(sc, m.modenv(sc.module)), args, kwargs)
            except PathEnd as ex:
                res["status"] = "raised"
                res["why"] = str(ex)
            res["visited"] = set(m.visited)
            return res
        for orc, r in explore(run, max_paths):
            out.append((orc, r))
    return sc, out


def _leaves_with(m, v, atom, out=None):
    """minimal numeric sub-values of v in which `atom` occurs directly"""
    out = out if out is not None else []
    if isinstance(v, OpaqueAttr) or (isinstance(v, Obj) and v.opaque):
        try:
            v = m.num(v)
        except Unsupported:
            return out
    if isinstance(v, Num):
        if atom in v.r.atoms():
            out.append(v)
        else:
            for a in v.r.atoms():
                k, ex = m.info.get(a, ("sym", {}))
                for x in ex.get("args", ()):
                    _leaves_with(m, x, atom, out)
    elif isinstance(v, Record):
        for x in v.values:
            _leaves_with(m, x, atom, out)
    elif isinstance(v, (tuple, list)):
        for x in v:
            _leaves_with(m, x, atom, out)
    elif isinstance(v, dict):
        for x in v.values():
            _leaves_with(m, x, atom, out)
    return out


def _leaves_flagged(m, v, atom, out=None, wrapped=False):
    """like _leaves_with, with a flag: the leaf sits inside an uninterpreted function whose value enters further arithmetic (a factor
    applied outside, e.g. scaling * stack(lower, upper), may or may not reach the leaf: not understood)"""
    out = out if out is not None else []
    if isinstance(v, OpaqueAttr) or (isinstance(v, Obj) and v.opaque):
        try:
            v = m.num(v)
        except Unsupported:
            return out
    if isinstance(v, Num):
        if atom in v.r.atoms():
            out.append((v, wrapped))
        else:
            ats = list(v.r.atoms())
            bare = len(ats) == 1 and m.equal(v, Num(m.A.atom(ats[0])))
            for a in ats:
                k, ex = m.info.get(a, ("sym", {}))
                for x in ex.get("args", ()):
                    _leaves_flagged(m, x, atom, out, wrapped or not bare)
    elif isinstance(v, Record):
        for x in v.values:
            _leaves_flagged(m, x, atom, out, wrapped)
    elif isinstance(v, (tuple, list)):
        for x in v:
            _leaves_flagged(m, x, atom, out, wrapped)
    elif isinstance(v, dict):
        for x in v.values():
            _leaves_flagged(m, x, atom, out, wrapped)
    return out


def _solution_atom(m, a):
    k, ex = m.info.get(a, ("sym", {}))
    if k in ("ret", "havoc"):
        return True
    if k == "app" and ex.get("f") == "item":
        b = ex["args"][0]
        if isinstance(b, Num):
            ats = list(b.r.atoms())
            return len(ats) == 1 and _solution_atom(m, ats[0])
    return False


# ---- the predictor, read off the values (no function or variable is identified by name)

def _g_parts(m, atom):
    """(point, parameters) of an atom grad0[E](point; parameters) -- the gradient of the abstract objective -- else None"""
    k, ex = m.info.get(atom, ("", {}))
    if k == "app" and str(ex.get("f", "")).startswith("grad0[") and len(ex.get("args", ())) == 2:
        return ex["args"][0], ex["args"][1]
    return None


def _mentions_gradient(m, *vals):
    for v in vals:
        if v is None:
            continue
        try:
            ats = m.atoms_deep(v)
        except Unsupported:
            continue
        if any(_g_parts(m, a) is not None for a in ats):
            return True
    return False


def _predictor_solves(m, cone=()):
    """linear solves that belong to a warm start: performed inside a function of the warm-start module (or one of the functions its public
    functions are made of), or built from derivatives of the objective's gradient"""
    ranges = [(a["ev_lo"], a["ev_hi"]) for a in m.activations if (a["scope"].module.name == WS or a["scope"].qualname in cone) and a["ev_hi"] is not None]
    out = []
    for e in m.events:
        if e["kind"] != "linsolve":
            continue
        inside = any(lo <= e["idx"] < hi for lo, hi in ranges)
        if inside or _mentions_gradient(m, e["probe"], e["rhs"] if m.is_numlike(e["rhs"]) else None):
            out.append(e)
    return out


def _read_solve(m, ev):
    """ingredients of a predictor solve: g = [(gradient atom, point, parameters)] of every derivative operator in the system operator and the
    right-hand side, rhs = [(gradient atom, derivative path, argument)] (the right-hand side is a sum of derivative operators applied to
    arguments), zero_rhs, readable (False when operator or right-hand side have another structure)"""
    out = {"g": [], "rhs": [], "readable": True, "zero_rhs": False, "op_path": None}

    def add_g(a):
        parts = _g_parts(m, a)
        if parts is None:
            out["readable"] = False
        else:
            out["g"].append((a, parts[0], parts[1]))
    op = ev["op"]
    if op[0] == "D":
        add_g(op[1])
        out["op_path"] = op[2]
    else:
        out["readable"] = False
    if not m.is_numlike(ev["rhs"]):
        out["readable"] = False
        return out
    r = simplify(m.A.norm(m.num(ev["rhs"]).r))
    if r.n.is_zero():
        out["zero_rhs"] = True
        return out
    if not r.d.is_const():
        out["readable"] = False
        return out
    dc = r.d.const_value()
    groups = {}
    for mono, c in r.n.t.items():
        k, ex = m.info.get(mono[0][0], ("", {})) if len(mono) == 1 and mono[0][1] == 1 else ("", {})
        if k != "lin" or ex["op"][0] != "D" or "mono" not in ex:
            out["readable"] = False
            continue
        groups[ex["op"]] = groups.get(ex["op"], Rat(Poly())) + Rat(Poly({ex["mono"]: Fraction(c) / dc}))
    for op_, arg in groups.items():
        add_g(op_[1])
        out["rhs"].append((op_[1], op_[2], Num(m.A.norm(arg))))
    return out


def _has_inverse(m, a):
    k, ex = m.info.get(a, ("", {}))
    return k == "lin" and ex["op"][0] == "inv"


def _split_start(m, v):
    """(predictor part, base part) of a start point: the monomials that contain the solution of a linear solve, and the others"""
    r = simplify(m.A.norm(m.num(v).r))
    if not r.d.is_const():
        return None
    dc = r.d.const_value()
    pred, base = {}, {}
    for mono, c in r.n.t.items():
        (pred if any(_has_inverse(m, a) for a, _e in mono) else base)[mono] = Fraction(c) / dc
    return Num(Rat(Poly(pred))), Num(Rat(Poly(base)))


def _call_site(m, sc, ev):
    """the call in the driver's own source during which the event happened (for locations)"""
    for a in m.activations:
        if a["ev_hi"] is not None and a["ev_lo"] <= ev["idx"] < a["ev_hi"]:
            n = _node_in(sc, a["node"])
            if n is not None:
                return n
    return _node_in(sc, ev.get("node"))


def _const_multiple(m, a, b):
    """a == c*b with a non-zero constant c"""
    if m.A.is_zero(m.num(b).r):
        return False
    try:
        c = m.rat_const(Num(simplify(m.A.norm(m.num(a).r / m.num(b).r))))
    except Exception:
        return False
    return c is not None and c != 0


def drivers(ctx):
    R1, R2, R3 = "D1/T7-predictor-sign", "D2/T2-parameters-before-solve", "D3/T6-scaling-transparent"
    inlined_al = {}
    g_executed, g_visited = set(), set()
    ws_verified = {c.qualname for c in _ws_functions(ctx)}
    ws_cone = _ws_cone(ctx)
    for q, scaled in DRIVERS:
        try:
            sc, paths = _driver_paths(ctx, q, scaled)
        except Incomplete:
            raise
        except ERR as ex:
            scq = ctx.need(q)
            for rule in (R1, R2) + ((R3,) if scaled else ()):
                ctx.undecided(rule, scq, None, construct="driver-interpretation", detail=f"cannot interpret {scq.name}: {type(ex).__name__}: {ex}")
            continue
        agg = _Agg()
        n_use = n_warm = 0
        # ---- which boolean options switch the predictor on: no path computes it when the option is off, some path does when it is on
        for _orc, r in paths:
            r["pred_all"] = _predictor_solves(r["m"], ws_cone)
        rets = [r for _orc, r in paths if r["status"] == "ret"]
        flags = list(paths[0][1]["combo"]) if paths else []
        switches = []
        for f in flags:
            on, off = [r for r in rets if r["combo"][f]], [r for r in rets if not r["combo"][f]]
            if on and off and not any(r["pred_all"] for r in off) and any(r["pred_all"] for r in on):
                switches.append(f)
        vector_params = set()
        for _orc, r in paths:
            vector_params |= r["m"].numified
        cand_bounds = [p_ for p_ in sc.params()[3:] + sc.kwonly() if p_ not in flags and (p_ in vector_params or "bound" in p_.lower())]
        for orc, r in paths:
            m, obj, X0, pold, pnew, sigma = r["m"], r["obj"], r["X0"], r["pold"], r["pnew"], r["sigma"]
            label = _path_label(r["combo"], orc)
            evs = m.events
            uses = [e for e in evs if e["kind"] in ("use", "ocall") and id(obj) in e["snap"] and not (e["kind"] == "ocall" and e["obj"] is obj)]
            pres = [e for e in evs if e["kind"] == "precond"]
            sx0 = Num(m.A.norm(sigma.r * X0.r))
            (x0a,) = X0.r.atoms()
            for wq in r["visited"]:
                s_ = ctx.repo.find(wq)
                if s_ is not None and s_.module.name != WS:
                    ctx.touch(s_)
            # ---- D2: parameters current when the objective is handed to the solver (the hand-offs whose result flows into the
            # returned value), and on return
            out_atoms = m.atoms_deep(r["out"]) if r["status"] == "ret" else set()
            for e in uses:
                if e.get("discarded") or not (set(e["ret"].r.atoms()) & out_atoms):
                    continue
                n_use += 1
                p_seen = e["snap"][id(obj)][1].get("p")
                ok = m.same(p_seen, pnew)
                agg.add(R2, "params-assigned-before-solve", sc, _node_in(sc, e["node"]), _verdict(ok, _precise(m, p_seen)),
                        "the objective carries the new parameters whenever it is handed to the solver and when the driver returns",
                        f"[{label}] the objective is handed to `{str(e.get('callee') or e.get('meth'))[:60]}` while its parameters are `{_show(m, p_seen, 60)}`, not the "
                        f"new `p`: a path reaches the nonlinear solve without `objective.p = p`, so the solve (and its success flag) would refer to the "
                        f"previous load step's parameters")
            for e in [e for e in evs if e["kind"] == "handoff" and any(v is obj for v in e["args"].values())]:
                n_use += 1
                ok = m.same(e["p"], pnew)
                agg.add(R2, "params-assigned-before-solve", sc, _node_in(sc, e["node"]), _verdict(ok, _precise(m, e["p"])), "",
                        f"[{label}] the objective is handed to the driver `{e['callee'].split(':')[-1]}` while its parameters are `{_show(m, e['p'], 60)}`, not the new `p` "
                        f"(callbacks and the preconditioner refresh in between would see the previous load step's parameters)")
            if r["status"] == "ret":
                p_end = obj.attrs.get("p")
                ok = m.same(p_end, pnew)
                agg.add(R2, "params-assigned-before-solve", sc, None, _verdict(ok, _precise(m, p_end)),
                        "the objective carries the new parameters whenever it is handed to the solver / a callback and when the driver returns",
                        f"[{label}] when the driver returns the objective's parameters are `{_show(m, p_end, 60)}`, not the new `p`")
            for e in [e for e in evs if e["kind"] == "set" and e["obj"] is obj and e["attr"] == "p"]:
                ok = m.same(e["value"], pnew)
                agg.add(R2, "params-assigned-before-solve", sc, _node_in(sc, e["node"]), _verdict(ok, _precise(m, e["value"])), "",
                        f"[{label}] the objective's parameters are assigned `{_show(m, e['value'], 60)}`, not the parameters the caller asked to solve for")
            # ---- the start point handed to the solver
            solves = [e for e in uses if not e.get("discarded")]
            # the solver: the first hand-off of the objective together with a point that depends on x0 (the predictor itself is never a
            # hand-off: the functions it is made of are always interpreted, see _inline_policy)
            start = first = None
            for e in solves:
                cands = []
                for v in list(e["args"]) + list(e["kwargs"].values()):
                    cands += _leaves_with(m, v, x0a)
                if cands:
                    first, start = e, cands[0]
                    break
            if first is None and solves:
                first = solves[0]
            # ---- the predictor: the linear solves before the solver is started
            lins = [e for e in r["pred_all"] if first is None or e["idx"] < first["idx"]]
            if r["pred_all"]:
                n_warm += 1
            if switches and all(r["combo"][f] for f in switches) and not r["pred_all"] and r["status"] == "ret":
                agg.add(R1, "driver-adds-increment", sc, None, False, "",
                        f"[{label}] {' and '.join(switches)} {'is' if len(switches) == 1 else 'are'} set but no warm start is computed on this path")
            G = _grad_atom(m, sx0, pold)
            hinv = ("inv", ("D", G, PROTOCOL["hessian_vec"]))
            P = [m.lin(hinv, m.lin(("D", G, (1, k)), Num(m.num(pold.values[k]).r - m.num(pnew.values[k]).r))) for k in sorted(SLOT_METHOD)]
            ideals = P + ([Num(m.A.norm(sum((x.r for x in P[1:]), P[0].r)))] if len(P) > 1 else [])
            split = _split_start(m, start) if start is not None else None
            ideal_ok = bool(lins) and split is not None and any(m.equal(split[0], w) for w in ideals)
            for e in lins:
                node = _call_site(m, sc, e)
                ing = _read_solve(m, e)
                gs = ing["g"]
                recs = [pp for _a, _pt, pp in gs]
                d_old = "the predictor is computed while the objective still holds the previous parameters"
                d_arg = "the predictor's right-hand side is the parameter Jacobian applied to (old - new) parameters: the warm start receives the driver's objective and the new parameters"
                d_pt = "warm start is linearised at scaling*x0, the point the scaled objective lives at" if scaled else "warm start is linearised at the driver's current point"
                c_pt = (R3, "warm_start_increment-at-the-scaled-point") if scaled else (R1, "warm_start_increment-at-the-current-point")
                if ideal_ok:
                    agg.add(R2, "warm-start-sees-old-params", sc, node, True, d_old, "")
                    agg.add(R2, "warm-start-arguments", sc, node, True, d_arg, "")
                    agg.add(c_pt[0], c_pt[1], sc, node, True, d_pt, "")
                    continue
                # the start point is not x0 + predictor: which ingredient of the linear solve is off
                sees_old = None
                if gs:
                    sees_old = all(m.same(pp, pold) for pp in recs)
                    bad = [pp for pp in recs if not m.same(pp, pold)]
                    agg.add(R2, "warm-start-sees-old-params", sc, node, _verdict(sees_old, all(_precise(m, pp) for pp in recs)), d_old,
                            f"[{label}] the objective's parameters are already `{_show(m, bad[0] if bad else None, 50)}` when the warm start runs, so the predictor sees "
                            f"p_new - p_new = 0 (assigned before the warm start)")
                else:
                    agg.add(R2, "warm-start-sees-old-params", sc, node, None, d_old, f"[{label}] the operator of the predictor's linear solve `{_show(m, e['probe'], 60)}` is not a derivative of the objective's gradient")
                if gs:
                    pts = [pt for _a, pt, _pp in gs]
                    okx = all(m.is_numlike(pt) and m.equal(pt, sx0) for pt in pts)
                    badp = [pt for pt in pts if not (m.is_numlike(pt) and m.equal(pt, sx0))]
                    agg.add(c_pt[0], c_pt[1], sc, node, _verdict(okx, all(_precise(m, pt) for pt in pts)), d_pt,
                            f"[{label}] the warm start is evaluated at `{_show(m, badp[0] if badp else None, 60)}` but the objective lives in the scaled variables "
                            f"scaling*x0: Hessian and mixed derivative of the predictor are taken at the wrong point whenever scaling != 1" if scaled else
                            f"[{label}] the warm start is evaluated at `{_show(m, badp[0] if badp else None, 60)}`, not at the driver's current point `{_show(m, sx0, 30)}`")
                if ing["zero_rhs"]:
                    if sees_old:
                        agg.add(R2, "warm-start-arguments", sc, node, False, d_arg,
                                f"[{label}] the right-hand side of the predictor vanishes although the objective still holds the previous parameters: the warm start is "
                                f"not given the new parameters `p` (it must get the driver's objective and the new parameters)")
                elif ing["rhs"]:
                    ok_all, prec = True, True
                    shown = ""
                    for (ga, path, arg) in ing["rhs"]:
                        pp = _g_parts(m, ga)[1]
                        good = len(path) == 2 and path[0] == 1 and isinstance(pp, Record) and 0 <= path[1] < len(pp.values) and m.is_numlike(pp.values[path[1]]) and \
                            _const_multiple(m, arg, Num(m.num(pp.values[path[1]]).r - m.num(pnew.values[path[1]]).r))
                        if not good:
                            ok_all, shown = False, f"d grad/dp{list(path[1:])} applied to `{_show(m, arg, 50)}`"
                            prec = prec and _precise(m, arg)
                    agg.add(R2, "warm-start-arguments", sc, node, _verdict(ok_all, prec and ing["readable"]), d_arg,
                            f"[{label}] the right-hand side of the predictor is {shown}, not the parameter Jacobian applied to the difference between the objective's "
                            f"parameters and the new parameters `p`: the warm start must get the driver's objective and the new parameters")
                elif not ing["readable"]:
                    agg.add(R2, "warm-start-arguments", sc, node, None, d_arg, f"[{label}] right-hand side `{_show(m, e['rhs'], 60)}` of the predictor's linear solve not understood")
            # ---- start point = (scaled) x0 + what the warm start returned
            if first is not None:
                node = _node_in(sc, first["node"])
                d_add = "start point = (scaled) x0 + exactly the value the warm start returned (nothing without warm start)"
                d_ent = "solver starts from objective.scaling*x0 (+ warm-start increment)"
                if start is None or split is None:
                    why = "no argument of the solver call depends on x0" if start is None else f"start point `{_show(m, start, 60)}` is not a polynomial in x0 and the predictor"
                    agg.add(R1, "driver-adds-increment", sc, node, None, "", f"[{label}] {why}")
                    if scaled:
                        agg.add(R3, "entry-scaled", sc, node, None, "", f"[{label}] {why}")
                else:
                    pred, base = split
                    prec = _precise(m, start)
                    # values the interpreted functions returned while the predictor was solved (whatever they are called)
                    # `verified`: results of the predictor functions that D1 verifies on their own; `returned`: for the diagnosis only
                    returned, verified = [], []
                    for e in lins:
                        for a in m.activations:
                            if a["returned"] and a["ev_hi"] is not None and a["ev_lo"] <= e["idx"] < a["ev_hi"] and a["scope"] is not sc and m.is_numlike(a["value"]) \
                                    and not isinstance(a["value"], (int, float)):
                                returned.append(m.num(a["value"]))
                                if a["scope"].qualname in ws_verified:
                                    verified.append(m.num(a["value"]))
                        returned.append(m.num(e["sol"]))
                    v_add, msg_add = True, ""
                    if not lins:
                        if not m.A.is_zero(pred.r):
                            v_add, msg_add = None, "it contains the solution of a linear solve that is not recognised as a warm start"
                    elif not (ideal_ok or any(m.equal(pred, w) for w in verified)):
                        if m.A.is_zero(pred.r):
                            v_add, msg_add = _verdict(False, prec), "the warm-start increment is not added to the start point"
                        elif any(m.equal(pred, Num(-w.r)) for w in returned + ideals):
                            v_add, msg_add = _verdict(False, prec), "the warm-start increment is subtracted from the start point (dx = -H^-1 J_p (p_new - p_old) must be added)"
                        else:
                            v_add = _verdict(False, prec and all(_precise(m, w) for w in returned))
                            msg_add = f"its predictor part `{_show(m, pred, 60)}` is not the value `{_show(m, returned[0], 60)}` the warm start returned"
                    v_ent, msg_ent = True, ""
                    if not m.equal(base, sx0):
                        if _base_only_scaling_issue(m, base, X0):
                            v_ent, msg_ent = False, f"apart from the increment it is `{_show(m, base, 60)}`, not {'objective.scaling*x0' if scaled else 'x0'}"
                        else:
                            v_ent = _verdict(False, prec)
                            msg_ent = f"apart from the increment it is `{_show(m, base, 60)}`, not {'objective.scaling*x0' if scaled else 'x0'}"
                    if not scaled and v_ent is not True:
                        v_add = v_ent if v_add is True else v_add
                        msg_add = msg_add or msg_ent
                    agg.add(R1, "driver-adds-increment", sc, node, v_add, d_add, f"[{label}] the solver starts from `{_show(m, start, 90)}`: {msg_add}")
                    if scaled:
                        agg.add(R3, "entry-scaled", sc, node, v_ent, d_ent, f"[{label}] the solver starts from `{_show(m, start, 90)}`: {msg_ent}")
            # ---- preconditioner refresh at the current (scaled) start point
            if scaled:
                last_lin = lins[-1]["idx"] if lins else None
                for e in pres:
                    if e["obj"] is not obj or not m.is_numlike(e["point"]) or (first is not None and e["idx"] > first["idx"]):
                        continue
                    pt = m.num(e["point"])
                    after = last_lin is not None and e["idx"] > last_lin
                    want = sx0 if not after else start
                    if last_lin is not None and lins[0]["idx"] < e["idx"] < last_lin:
                        # between two predictor solves: the current point is one of the partial sums
                        if not any(w is not None and m.equal(pt, w) for w in (sx0, start)):
                            agg.add(R3, "update_precond-at-the-scaled-point", sc, _node_in(sc, e["node"]), None, "",
                                    f"[{label}] preconditioner refreshed at `{_show(m, pt, 60)}` between two predictor solves")
                        continue
                    if want is None:
                        agg.add(R3, "update_precond-at-the-scaled-point", sc, _node_in(sc, e["node"]), None, "", f"[{label}] start point of the solver not identified")
                        continue
                    ok = m.equal(pt, want)
                    agg.add(R3, "update_precond-at-the-scaled-point", sc, _node_in(sc, e["node"]), _verdict(ok, _precise(m, pt, want)),
                            "preconditioner is refreshed at the scaled start point",
                            f"[{label}] update_precond is evaluated at `{_show(m, pt, 60)}` but the objective lives in the scaled variables (current start "
                            f"point `{_show(m, want, 60)}`): the preconditioner is built at the wrong point whenever scaling != 1")
            # ---- bounds scaled like the iterate: every other array argument of the driver that reaches the solver
            if scaled and first is not None and cand_bounds:
                for bp in cand_bounds:
                    flagged = []
                    for v in list(first["args"]) + list(first["kwargs"].values()):
                        flagged += _leaves_flagged(m, v, bp)
                    leaves = [l for l, _w in flagged]
                    understood = not any(w for _l, w in flagged)
                    raw = any(isinstance(v, Obj) and v.name == bp for v in m.objs_in([first["args"], first["kwargs"]]))
                    named = "bound" in bp.lower()
                    in_x_space = named or any(m.depends(l, list(sigma.r.atoms())[0]) for l in leaves if sigma.r.atoms())
                    if not in_x_space:
                        continue        # an array argument that is never scaled: not known to live in the space of the unknowns
                    want = Num(m.A.norm(sigma.r * m.A.atom(bp)))
                    ok = bool(leaves) and all(m.equal(l, want) for l in leaves) and not raw
                    if not leaves and not raw:
                        # nothing of the bound is visible in the solver's arguments: a definite finding only if they contain no result
                        # of a call that was not interpreted (the bound may have gone through it)
                        hidden = any(m.kind(a) in ("ret", "havoc") for a in m.atoms_deep([first["args"], first["kwargs"]]))
                        understood = understood and not hidden
                    agg.add(R3, f"bounds-scaled:{bp}", sc, _node_in(sc, first["node"]), _verdict(ok, understood and all(_precise(m, l) for l in leaves)),
                            f"{bp} reaches the solver as objective.scaling*{bp}",
                            f"[{label}] bound `{bp}` reaches the solver as `{_show(m, leaves[0], 60) if leaves else ('the unscaled argument' if raw else 'nothing')}`; "
                            f"it must be scaled like the iterate (objective.scaling*{bp})")
            # ---- exit
            if scaled and r["status"] == "ret":
                out = r["out"]
                first_out = out[0] if isinstance(out, (tuple, list)) and out else out.values[0] if isinstance(out, Record) and out.values else out
                ok, prec, shown = False, False, _show(m, first_out, 70)
                if m.is_numlike(first_out):
                    o_ = m.num(first_out)
                    sols = [a for a in m.atoms_deep(o_) if a in o_.r.atoms() and _solution_atom(m, a)]
                    if len(sols) == 1:
                        want = Num(m.A.norm(m.A.atom(sols[0]) / sigma.r))
                        ok = m.equal(o_, want)
                        prec = True
                    elif not sols and _precise(m, o_):
                        prec = True           # nothing of the solver's result is returned
                agg.add(R3, "exit-unscaled", sc, None, _verdict(ok, prec), "returns objective.invScaling * (solver result)",
                        f"[{label}] the driver returns `{shown}`, not objective.invScaling times the solver's result")
            # ---- the front end hands the same parameters on and no second predictor is applied
            if q.endswith(":bound_constrained_solve"):
                al = ctx.repo.find("optimism.AlSolver:augmented_lagrange_solve")
                al_seen = al is not None and al.qualname in r["visited"]
                al_uses = [e for e in uses if e["kind"] == "use" and e.get("callee_scope") is al]
                inlined_al[q] = inlined_al.get(q, 0) + (1 if (al_seen or al_uses) else 0)
                if al_uses:
                    e = al_uses[0]
                    ps_al = al.params()
                    bound = dict(zip(ps_al, e["args"]))
                    bound.update(e["kwargs"])
                    okp = isinstance(bound.get(ps_al[2]), Record) and m.same(bound.get(ps_al[2]), pnew)
                    okw = bound.get("useWarmStart", True) is False
                    agg.add(R2, "front-end-forwards-p-no-second-warm-start", sc, _node_in(sc, e["node"]), _verdict(okp and okw, True),
                            "AL driver gets the same p and useWarmStart=False",
                            f"[{label}] AL driver called with p={_show(m, bound.get(ps_al[2]), 40)}, useWarmStart={bound.get('useWarmStart', 'default True')}: "
                            f"parameters or predictor would be applied twice / stale")
                elif al_seen:
                    # the AL driver was interpreted in line: it must not have applied a second predictor, and must have assigned the same p
                    pa, seen_sol = [], set()
                    for e in r["pred_all"]:         # the same solve repeated (an abstract loop iteration is interpreted twice) counts once
                        k_ = m.key(e["sol"])
                        if k_ not in seen_sol:
                            seen_sol.add(k_)
                            pa.append(e)
                    sets = [e for e in evs if e["kind"] == "set" and e["obj"] is obj and e["attr"] == "p"]
                    okp = all(m.same(e["value"], pnew) for e in sets)
                    second_zero = all(m.A.is_zero(m.num(e["sol"]).r) for e in pa[1:])
                    agg.add(R2, "front-end-forwards-p-no-second-warm-start", sc, None,
                            _verdict(okp and (len(pa) <= 1 or second_zero), all(_precise(m, e["value"]) for e in sets) and all(_precise(m, e["sol"]) for e in pa)),
                            "the AL driver (interpreted in line) receives the same p and applies no second predictor",
                            f"[{label}] through the AL driver the parameters are set to {[_show(m, e['value'], 30) for e in sets]} and {len(pa)} warm starts run: "
                            f"parameters or predictor would be applied twice / stale")
        for orc, r in paths:
            g_executed.update(r["m"].executed)
            g_visited.update(r["visited"])
        if n_use == 0:
            ctx.undecided(R2, sc, None, construct="params-assigned-before-solve", detail="no hand-off of the objective to a solver found on any path")
        if n_warm == 0:
            ctx.undecided(R1, sc, None, construct="driver-adds-increment", detail="no warm start in this driver")
        if q.endswith(":bound_constrained_solve") and not inlined_al.get(q):
            ctx.undecided(R2, sc, None, construct="front-end-forwards-p-no-second-warm-start", detail="the call of the AL driver was not found")
        agg.flush(ctx)

    # safety net for the branch-coverage exploration of loop bodies: every statement that stores a `.p` attribute in the interpreted
    # functions must have been executed on some path of some driver analysis
    for qn in sorted(g_visited):
        s_ = ctx.repo.find(qn)
        if s_ is None:
            continue
        for st in walk_local(s_.node):
            tg = st.targets if isinstance(st, ast.Assign) else [st.target] if isinstance(st, (ast.AugAssign, ast.AnnAssign)) else []
            if any(isinstance(x, ast.Attribute) and x.attr == "p" for t_ in tg for x in ast.walk(t_)) and id(st) not in g_executed:
                ctx.undecided(R2, s_, st, construct="params-assigned-before-solve", detail="an assignment of a `.p` attribute was not reached by the path exploration")
    # every public function of the warm-start module that can reach a linear solver is analysed: on its own (D1) or as part of a driver
    own = {c.qualname for c in _ws_functions(ctx)}
    for c in _ws_solver_functions(ctx):
        if c.qualname not in own and c.qualname not in g_visited:
            ctx.undecided(R1, c, None, construct=f"{c.name}:interpretation",
                          detail=f"{c.name} reaches a linear solver but is neither callable as f(objective, x, new parameters) nor reached from a load-step driver")


def _base_only_scaling_issue(m, base, X0):
    """the base of the start point is some multiple of x0 (a scaling question reported under D3, not an increment question)"""
    (a,) = X0.r.atoms()
    try:
        from optilint.expr import simplify
        q = Num(simplify(m.A.norm(base.r / X0.r)))
    except Exception:
        return False
    return not m.depends(q, a) and _precise(m, q)


# ------------------------------------------------------------------ D3: scaled objective classes

def _ctor(ctx, cls):
    for c in ctx.repo.class_mro(cls):
        for ch in c.children:
            if ch.kind == "function" and ch.name == "__init__":
                return ch
    return None


def _build_scaled(ctx, cls, with_strategy):
    """interpret the constructor of a scaled objective class on (F, X0, P, ...); optional (None-default) parameters are None or opaque objects"""
    init = _ctor(ctx, cls)
    if init is None or init.cls is not cls:
        raise Incomplete(f"{cls.qualname}: no constructor of its own")
    inline = _inline_policy(ctx)
    m = Machine(ctx.repo, Oracle(), inline, _mutable(ctx))
    t = _params_type(m, ctx)
    P = _params(m, t, "p")
    X0 = m.sym("X0")
    F = FunSym("F")
    ps = init.params()[1:]
    if len(ps) < 3:
        raise Incomplete(f"{cls.qualname}.__init__: expected (objective_func, x0, p, ...)")
    kwargs = {}
    opt = []
    for p_ in ps[3:] + init.kwonly():
        d = init.default_of(p_)
        if isinstance(d, ast.Constant) and d.value is None:
            opt.append(p_)
            kwargs[p_] = Obj(p_, opaque=True) if with_strategy else None
        else:
            kwargs[p_] = Obj(p_, opaque=True)
    base_calls = []
    others = [c for c in ctx.repo.class_mro(cls) if c is not cls]

    def watch(mm, phase, info):
        if phase == "enter":
            base_calls.append(dict(info["env"].vars))
        return None
    for c in others:
        for ch in c.children:
            if ch.kind == "function" and ch.name == "__init__":
                m.watch[ch.qualname] = watch
    o = m.instantiate(cls, [F, X0, P], kwargs)
    return {"m": m, "obj": o, "F": F, "X0": X0, "P": P, "base": base_calls, "opt": opt, "kwargs": kwargs, "init": init}


def _callable_obj(ctx, v):
    """instance of a repository class that defines __call__"""
    return v.cls is not None and any(ch.kind == "function" and ch.name == "__call__" for c in ctx.repo.class_mro(v.cls) for ch in c.children)


def _factor(m, v, atom_num):
    """v / atom if the quotient does not depend on the atom, else None"""
    from optilint.expr import simplify
    (a,) = atom_num.r.atoms()
    q = Num(simplify(m.A.norm(m.num(v).r / atom_num.r)))
    return None if m.depends(q, a) else q


def _at_base(m, n):
    """undo jax `.at[i].op(v)` updates: the array they were applied to"""
    n = m.num(n)
    for _ in range(6):
        ats = list(n.r.atoms())
        r = n.r
        if len(ats) != 1 or not m.equal(n, Num(m.A.atom(ats[0]))):
            return n
        k, ex = m.info.get(ats[0], ("sym", {}))
        if k == "app" and ex["f"].startswith(".") and ex["f"][1:] in ("multiply", "set", "add", "divide", "mul", "apply", "min", "max", "power"):
            inner = ex["args"][0]
            if isinstance(inner, Num):
                ia = list(inner.r.atoms())
                k2, ex2 = m.info.get(ia[0], ("sym", {})) if len(ia) == 1 else ("", {})
                if k2 == "app" and ex2["f"] == "[]":
                    at = ex2["args"][0]
                    aa = list(at.r.atoms()) if isinstance(at, Num) else []
                    k3, ex3 = m.info.get(aa[0], ("sym", {})) if len(aa) == 1 else ("", {})
                    if k3 == "app" and ex3["f"] == ".at":
                        n = m.num(ex3["args"][0])
                        continue
        return n
    return n


def d3_classes(ctx):
    rule = "D3/T6-scaling-transparent"
    for qc in (f"{OBJ}:ScaledObjective", f"{BCO}:BoundConstrainedObjective"):
        cls = ctx.need(qc)
        cn = cls.name
        init = _ctor(ctx, cls)
        if init is not None:
            ctx.touch(init)
        runs = {}
        for with_strategy in (True, False):
            try:
                runs[with_strategy] = _build_scaled(ctx, cls, with_strategy)
            except Incomplete:
                raise
            except PathEnd as ex:
                ctx.undecided(rule, cls, None, construct=f"{cn}:interpretation", detail=f"constructor raises on symbolic input ({'with' if with_strategy else 'without'} strategy): {ex}")
            except ERR as ex:
                ctx.undecided(rule, cls, None, construct=f"{cn}:interpretation", detail=f"cannot interpret the constructor ({'with' if with_strategy else 'without'} strategy): {type(ex).__name__}: {ex}")
        if len(runs) < 2:
            continue
        scope = init or cls
        facts = {}
        for ws_, r in runs.items():
            m, o, X0, P = r["m"], r["obj"], r["X0"], r["P"]
            f = {"ok_roles": False}
            facts[ws_] = f
            if not r["base"]:
                ctx.undecided(rule, scope, None, construct=f"{cn}:roles", detail="the base class constructor is not called")
                continue
            base = r["base"][0]
            (x0a,) = X0.r.atoms()
            Y, Q = m.sym("Y"), _params(m, _params_type(m, ctx), "q")
            g = gval = None
            for k_, v in base.items():
                if isinstance(v, (Closure, JitFn, Partial, Bound)) or (isinstance(v, Obj) and not v.opaque and v is not o and _callable_obj(ctx, v)):
                    try:
                        val = m.call(v, [Y, Q], {})
                    except (Unsupported, PathEnd):
                        continue
                    if m.is_numlike(val) and any(m.info.get(a, ("", {}))[1].get("f") == "F" for a in m.atoms_deep(m.num(val))):
                        g, gval = v, m.num(val)
            starts_all = [v for v in base.values() if m.is_numlike(v) and not isinstance(v, (int, float)) and m.depends(m.num(v), x0a)]
            starts = [v for v in starts_all if _factor(m, v, X0) is not None]
            strat = [v for v in base.values() if isinstance(v, Obj) and v is not o and v is not g and not v.opaque]
            recs = [v for v in base.values() if isinstance(v, Record)]
            given = [v for v in r["kwargs"].values() if isinstance(v, Obj) and v.opaque]
            f.update(g=g, gval=gval, start=m.num(starts[0]) if len(starts) == 1 else None, strat=strat[0] if strat else None,
                     start_any=m.num(starts_all[0]) if len(starts_all) == 1 else None, n_starts=len(starts_all),
                     raw_strategy=[v for v in base.values() if any(v is x for x in given)],
                     p_ok=any(m.same(v, P) for v in recs), p_seen=recs, Y=Y, Q=Q)
            # t: the factor of xBar inside the scaled objective
            t = None
            if gval is not None:
                ats = list(gval.r.atoms())
                if len(ats) == 1 and m.equal(gval, Num(m.A.atom(ats[0]))):
                    ex = m.info[ats[0]][1]
                    if ex.get("f") == "F" and len(ex["args"]) == 2 and m.is_numlike(ex["args"][0]):
                        t = _factor(m, ex["args"][0], Y)
                        f["q_ok"] = isinstance(ex["args"][1], Record) and m.same(ex["args"][1], Q)
            f["t"] = t
            f["s"] = _factor(m, f["start"], X0) if f["start"] is not None else None
            f["ok_roles"] = True
        if not all(facts[k]["ok_roles"] for k in facts):
            continue
        # ---- evaluates F at t * xBar (both scenarios)
        bad = [k for k, f in facts.items() if f["t"] is None or not f.get("q_ok")]
        und = [k for k, f in facts.items() if f["g"] is None]
        m_ = runs[True]["m"]
        prec_g = all(f["gval"] is None or _precise(runs[k]["m"], f["gval"], lenient=True) for k, f in facts.items())
        ctx.decide(rule, None if und else _verdict(not bad, prec_g), scope, None, construct=f"{cn}:evaluates-at-invScaling*xBar",
                   detail="the objective handed to the base class is (xBar, p) -> objective_func(t * xBar, p) with t independent of xBar",
                   bad_detail=("no function handed to the base class evaluates objective_func" if und or not bad else
                               f"the scaled objective evaluates to `{_show(runs[bad[0]]['m'], facts[bad[0]]['gval'], 80)}`, not objective_func(t*xBar, p) with a "
                               f"diagonal factor t and the parameters passed through"))
        # ---- s * t == 1
        for ws_, tag in ((True, "reciprocal"), (False, "trivial")):
            f, m = facts[ws_], runs[ws_]["m"]
            if f["s"] is None or f["t"] is None:
                ctx.undecided(rule, scope, None, construct=f"{cn}:invScaling=1/scaling:{tag}", detail="scaling factors not identified "
                              f"(start point `{_show(m, f['start'], 40)}`, scaled objective `{_show(m, f['gval'], 40)}`)")
                continue
            prod = Num(m.A.norm(f["s"].r * f["t"].r))
            ok = m.equal(prod, m.const(1))
            if ws_ is False:
                ok = ok and m.equal(f["s"], m.const(1))
            ctx.decide(rule, _verdict(ok, _precise(m, f["s"], f["t"], lenient=True)), scope, None, construct=f"{cn}:invScaling=1/scaling:{tag}",
                       detail=f"start factor s = {_show(m, f['s'], 40)}, objective factor t = {_show(m, f['t'], 40)}, s*t = 1",
                       bad_detail=f"{'with' if ws_ else 'without'} a preconditioner strategy the start point is scaled by s = `{_show(m, f['s'], 50)}` but the scaled objective "
                                  f"evaluates the user function at t*xBar with t = `{_show(m, f['t'], 50)}`: t is not the reciprocal of s"
                                  + ("" if ws_ else " (both must be 1 without a strategy)"))
        # ---- base class initialised with the scaled objective at s*x0 and p
        verdict, why = True, ""
        for k, f in facts.items():
            mk = runs[k]["m"]
            if f["g"] is None or not f["p_seen"] or (f["start"] is None and f["n_starts"] != 1):
                verdict = None if verdict is True else verdict
                why = why or ("the scaled objective / the start point / the parameters among the arguments of the base class constructor are not identified "
                              f"({f['n_starts']} arguments depend on x0)")
            elif f["start"] is None:
                # the only argument that depends on x0 is not x0 times a factor
                verdict = _verdict(False, _precise(mk, f["start_any"], lenient=True)) if verdict is not False else verdict
                why = f"base class initialised with start point `{_show(mk, f['start_any'], 60)}`, which is not x0 times a factor independent of x0"
            elif not f["p_ok"]:
                verdict = _verdict(False, all(_precise(mk, v) for v in f["p_seen"])) if verdict is not False else verdict
                why = f"base class initialised with the parameters `{_show(mk, f['p_seen'][0], 60)}`, not the given ones"
        ctx.decide(rule, verdict, scope, None, construct=f"{cn}:base-init",
                   detail="base class initialised with the scaled objective at s*x0 (s independent of x0) and the given parameters", bad_detail=why)
        # ---- stored attributes are the factors in use
        for attr, role in (("scaling", "s"), ("invScaling", "t")):
            bad, und, shown = [], [], ""
            for k, f in facts.items():
                m, o = runs[k]["m"], runs[k]["obj"]
                v = o.attrs.get(attr)
                if f[role] is None:
                    und.append(k)
                elif v is None or not m.is_numlike(v) or not m.equal(v, f[role]):
                    bad.append(k)
                    shown = f"self.{attr} is `{_show(m, v, 50)}` but the factor in use is `{_show(m, f[role], 50)}` ({'with' if k else 'without'} strategy)"
            prec_s = all(_precise(runs[k]["m"], runs[k]["obj"].attrs.get(attr), f[role], lenient=True) for k, f in facts.items()
                         if runs[k]["m"].is_numlike(runs[k]["obj"].attrs.get(attr)) and f[role] is not None)
            ctx.decide(rule, _verdict(not bad, prec_s) if (bad or not und) else None, scope, None, construct=f"{cn}:stores-{attr}",
                       detail=f"self.{attr} is the factor " + ("the start point is scaled with" if role == "s" else "applied to xBar inside the scaled objective"),
                       bad_detail=(shown + ": the drivers scale with the stored attribute, the objective with the other value") if bad else
                       "the factor in use was not identified")
        # ---- with a strategy: the scaled strategy works with the diagonal t, and s = sqrt(diag K0) of the strategy initialised at x0
        f, r = facts[True], runs[True]
        m, o = r["m"], r["obj"]
        strat = f["strat"]
        if f["t"] is None:
            ctx.undecided(rule, scope, None, construct=f"{cn}:precond-gets-invScaling", detail="the factor inside the scaled objective was not identified")
        else:
            try:
                Y2 = m.sym("Y2")
                mark = len(m.events)
                if strat is not None:
                    meth = m.getattr(strat, "initialize")
                    n_extra = len(meth.fn.scope.params()) - 3 if isinstance(meth, Bound) else 0
                    m.call(meth, [Y2, r["P"]] + [m.sym(f"extra{i}") for i in range(max(n_extra, 0))], {})
                    how = "the scaled preconditioner strategy"
                else:
                    # no strategy object of a repository class among the constructor arguments: ask the finished object to refresh its
                    # preconditioner at the scaled point Y2 and see where the user's strategy is initialised
                    m.call(m.getattr(o, "update_precond"), [Y2], {})
                    how = "the object's preconditioner refresh"
                inner = [e for e in m.events[mark:] if e["kind"] == "ocall" and e["meth"] == "initialize"]
                want = Num(m.A.norm(f["t"].r * Y2.r))
                got = m.num(inner[0]["args"][0]) if inner and inner[0]["args"] and (m.is_numlike(inner[0]["args"][0]) or isinstance(inner[0]["args"][0], Mat)) else None
                ok = got is not None and m.equal(got, want)
                if not inner:
                    verdict = False if (f["raw_strategy"] or strat is None) else None
                    bad = ("the user's (unscaled) strategy itself is handed to the base class for the scaled objective" if f["raw_strategy"] else
                           "the given strategy is never initialised when the preconditioner of the scaled objective is refreshed")
                else:
                    verdict = _verdict(ok, got is not None and _precise(m, got, lenient=True))
                    bad = (f"{how} initialises the user's strategy at `{_show(m, got, 50)}` for the scaled point Y2; with the "
                           f"objective's factor t it must be `{_show(m, want, 50)}` (it was given the wrong diagonal)")
                ctx.decide(rule, verdict, scope, None, construct=f"{cn}:precond-gets-invScaling",
                           detail="the scaled strategy maps scaled points back with the same diagonal t the scaled objective uses", bad_detail=bad)
            except (PathEnd,) + ERR as ex:
                ctx.undecided(rule, scope, None, construct=f"{cn}:precond-gets-invScaling", detail=f"cannot interpret the scaled strategy: {ex}")
        # s^2 == diagonal(K0), K0 = first preconditioner of the given strategy initialised at (x0, p)
        evs = [e for e in m.events if e["kind"] == "ocall" and e["obj"].opaque]
        k0 = [e for e in evs if e["meth"] == "precond_at_attempt"]
        ini = [e for e in evs if e["meth"] == "initialize"]
        s_val = o.attrs.get("scaling")
        if f["s"] is None or not k0 or not m.is_numlike(s_val):
            ctx.undecided(rule, scope, None, construct=f"{cn}:scaling=sqrt(diag K)", detail="the strategy's preconditioner is not requested / scaling not identified")
        else:
            e0 = k0[0]
            ok_att = len(e0["args"]) == 1 and m._int(e0["args"][0]) == 0
            before = [e for e in ini if e["idx"] < e0["idx"] and e["obj"] is e0["obj"]]
            ok_ini = bool(before) and len(before[-1]["args"]) >= 2 and m.is_numlike(before[-1]["args"][0]) and m.equal(before[-1]["args"][0], r["X0"]) \
                and m.same(before[-1]["args"][1], r["P"])
            diag = m.app(".diagonal", [e0["ret"]])
            sb = _at_base(m, s_val)
            ok_s = m.equal(Num(m.A.norm(sb.r * sb.r)), diag)
            ctx.decide(rule, _verdict(ok_att and ok_ini and ok_s, _precise(m, before[-1]["args"][0], s_val, lenient=True) if before else True), scope, None,
                       construct=f"{cn}:scaling=sqrt(diag K)",
                       detail="scaling = sqrt(diagonal of the strategy's first preconditioner), strategy initialised at the unscaled (x0, p)",
                       bad_detail=f"scaling is `{_show(m, sb, 60)}` (strategy initialised at `{_show(m, before[-1]['args'][0], 30) if before else 'nothing'}`, attempt "
                                  f"`{_show(m, e0['args'][0], 10) if e0['args'] else '?'}`), not the square root of the diagonal of the first preconditioner at (x0, p)")


# ------------------------------------------------------------------ D3: scaled preconditioner strategies

def d3_strategies(ctx):
    rule = "D3/T6-scaling-transparent"
    for q in (f"{OBJ}:ScaledPrecondStrategy", f"{BCO}:ScaledPrecondStrategy"):
        cls = ctx.need(q)
        cn = cls.name
        init = _ctor(ctx, cls)
        meths = {}
        for c in ctx.repo.class_mro(cls):
            for ch in c.children:
                if ch.kind == "function" and ch.name not in meths:
                    meths[ch.name] = ch
        pa, ini = meths.get("precond_at_attempt"), meths.get("initialize")
        if not (init and pa and ini):
            raise Incomplete(f"{q}: methods missing")
        for s_ in (init, pa, ini):
            ctx.touch(s_)
        try:
            m = Machine(ctx.repo, Oracle(), _inline_policy(ctx), _mutable(ctx))
            args = [Obj(p_, opaque=True) for p_ in init.params()[1:]]
            o = m.instantiate(cls, args, {})
            arg_atoms = {ar.name for ar in args}
            # the diagonal D the strategy works with is read off its behaviour: initialize(Y, ...) initialises the inner strategy at d*Y
            Y, Pq = m.sym("Y"), _params(m, _params_type(m, ctx), "q")
            mark = len(m.events)
            m.call(m.getattr(o, "initialize"), [Y, Pq] + [m.sym(f"extra{i}") for i in range(len(ini.params()) - 3)], {})
            inner = [e for e in m.events[mark:] if e["kind"] == "ocall" and e["meth"] == "initialize" and e["obj"].opaque]
            got = None
            if inner and inner[0]["args"]:
                a0 = inner[0]["args"][0]
                got = m.num(a0) if (m.is_numlike(a0) or isinstance(a0, Mat)) else None
            d = _factor(m, got, Y) if got is not None else None
            d_is_arg = d is not None and any(m.equal(d, Num(m.A.atom(n))) for n in arg_atoms)
            # attribute that holds the diagonal (for the wording only)
            dname = next((a for a, v in o.attrs.items() if d is not None and ((isinstance(v, Mat) and m.same(v, m.mat_diag(d))) or
                                                                                (m.is_numlike(v) and not isinstance(v, (int, float)) and m.equal(v, d)))), "?")
            if not inner:
                v_init = False
            elif got is None:
                v_init = None
            else:
                v_init = _verdict(d is not None, _precise(m, got, lenient=True))
            ctx.decide(rule, v_init, ini, None, construct=f"{cn}:initialize-at-unscaled-point",
                       detail=f"inner strategy initialised at D*x with D = self.{dname}",
                       bad_detail=f"inner strategy initialised at `{_show(m, got, 50) if inner else 'nothing'}`, not at D*x with the strategy's own diagonal D")
            ctx.decide(rule, None if d is None else _verdict(d_is_arg, _precise(m, d, lenient=True)), init, None, construct=f"{cn}:diagonal-from-argument",
                       detail=f"the diagonal D (self.{dname}) is diag(constructor argument)",
                       bad_detail=(f"the strategy maps points with the diagonal `{_show(m, d, 40)}`, which is not one of its constructor arguments" if d is not None else
                                   "the diagonal the strategy works with was not identified"))
            # precond_at_attempt: D^T K D (+ terms that do not involve K)
            mark = len(m.events)
            att = m.sym("attempt")
            K2 = m.call(m.getattr(o, "precond_at_attempt"), [att], {})
            inner = [e for e in m.events[mark:] if e["kind"] == "ocall" and e["meth"] == "precond_at_attempt" and e["obj"].opaque]
            ok, shown = None, _show(m, K2, 90)
            if len(inner) == 1 and isinstance(K2, Mat):
                e0 = inner[0]
                (kname,) = e0["ret"].r.atoms()
                kwords = {w: c for w, c in K2.terms.items() if any(kname in s_ for s_ in w)}
                ok = False
                if len(kwords) == 1:
                    (w, c), = kwords.items()
                    dd = [m.info.get(s_, ("", {}))[1].get("diag") for s_ in (w[0], w[-1])] if len(w) == 3 else [None, None]
                    ok = len(w) == 3 and w[1] == kname and dd[0] is not None and dd[1] is not None and m.equal(dd[0], dd[1]) and m.equal(Num(c), m.const(1)) \
                        and (d is None or m.equal(dd[0], d)) and (d is not None or any(m.equal(dd[0], Num(m.A.atom(n))) for n in arg_atoms)) \
                        and len(e0["args"]) == 1 and m.is_numlike(e0["args"][0]) and m.equal(e0["args"][0], att)
            elif not inner and isinstance(K2, Mat):
                ok = False          # the inner strategy's matrix is never requested
            ctx.decide(rule, ok, pa, None, construct=f"{cn}:congruence", detail=f"K2 = D^T K D with D = self.{dname}",
                       bad_detail=f"scaled preconditioner is `{shown}`, not D^T K D (D the strategy's diagonal, K the inner strategy's matrix for the same attempt)")
        except PathEnd as ex:
            ctx.undecided(rule, cls, None, construct=f"{cn}:interpretation", detail=f"raises on symbolic input: {ex}")
        except ERR as ex:
            ctx.undecided(rule, cls, None, construct=f"{cn}:interpretation", detail=f"cannot interpret: {type(ex).__name__}: {ex}")


# ------------------------------------------------------------------ D4

def d4(ctx):
    rule = "D4/T5-parameter-slots"
    objmod = ctx.need_module(OBJ)
    piu = ctx.need(f"{OBJ}:param_index_update")
    m = Machine(ctx.repo, Oracle(), lambda sc: True, _mutable(ctx))
    t = _params_type(m, ctx)
    # ---- slot table
    P = _params(m, t, "p")
    new = m.sym("NEW")
    fn = m.module_value(objmod, "param_index_update")
    for k in range(len(t.fields)):
        try:
            res = explore(lambda orc: _call_with(ctx, piu, orc, lambda mm: [_params(mm, _params_type(mm, ctx), "p"), k, mm.sym("NEW")]), 16)
        except ERR as ex:
            ctx.undecided(rule, piu, None, construct=f"param_index_update:index=={k}", detail=f"cannot interpret: {ex}")
            continue
        ok, why = True, []
        for orc, (mm, out, status) in res:
            if status != "ret":
                ok = False
                why.append("raises")
                continue
            if not isinstance(out, Record) or len(out.values) != len(t.fields):
                # a definite wrong result only if every loop on the way was executed exactly
                definite = not mm.summarised and (out is None or isinstance(out, Record) or (isinstance(out, Num) and _precise(mm, out)))
                ok = False if (definite or ok is False) else None
                why.append(f"returns `{_show(mm, out, 50)}`" + ("" if definite else " after a summarised loop (not understood)"))
                continue
            for j, v in enumerate(out.values):
                want = mm.sym("NEW") if j == k else mm.sym(f"p{j}")
                if not (mm.is_numlike(v) and mm.equal(v, want)):
                    definite = mm.is_numlike(v) and _precise(mm, v)
                    ok = False if (definite or ok is False) else None
                    why.append(f"slot {j} gets `{_show(mm, v, 30)}` instead of " + ("the new value" if j == k else f"p[{j}]"))
        ctx.decide(rule, ok, piu, None, construct=f"param_index_update:index=={k}", detail=f"index {k}: new value in slot {k}, others copied",
                   bad_detail=f"param_index_update(index=={k}): " + "; ".join(why[:3]))
    # ---- the Objective's derivative closures and protocol methods
    cls = ctx.need(f"{OBJ}:Objective")
    init = ctx.need(f"{OBJ}:Objective.__init__")
    try:
        m = Machine(ctx.repo, Oracle(), lambda sc: True, _mutable(ctx))
        t = _params_type(m, ctx)
        Pinit, Pcur, Q = _params(m, t, "pinit"), _params(m, t, "pcur"), _params(m, t, "q")
        E = FunSym("E")
        o = m.instantiate(cls, [E, m.sym("Xinit"), Pinit], {})
        o.attrs["p"] = Pcur          # a later load step: the parameters were replaced after construction (and after any jit tracing)
        Z, V = m.sym("Z"), m.sym("V")
    except PathEnd as ex:
        ctx.undecided(rule, init, None, construct="Objective:interpretation", detail=f"constructor raises on symbolic input: {ex}")
        return
    except ERR as ex:
        ctx.undecided(rule, init, None, construct="Objective:interpretation", detail=f"cannot interpret Objective.__init__: {type(ex).__name__}: {ex}")
        return
    n_cl = 0
    for attr in sorted(o.attrs):
        f = o.attrs[attr]
        if not isinstance(f, (JitFn, Closure, Partial, Bound)):
            continue
        try:
            val = m.call(f, [Z, Q, V], {})
        except (PathEnd,) + ERR:
            continue
        if not m.is_numlike(val):
            continue
        val = m.num(val)
        slots = set()
        for a in val.r.atoms():
            k_, ex = m.info.get(a, ("", {}))
            if k_ == "lin" and ex["op"][0] == "D" and len(ex["op"][2]) == 2 and ex["op"][2][0] == 1:
                slots.add(ex["op"][2][1])
        if len(slots) != 1:
            continue
        n_cl += 1
        (k,) = slots
        want = m.lin(("D", _grad_atom(m, Z, Q), (1, k)), V)
        ok = m.equal(val, want)
        stale = sorted(a for a in m.atoms_deep(val) if m.kind(a) == "stale" or a.startswith("pcur") or a.startswith("pinit"))
        ctx.decide(rule, _verdict(ok, _precise(m, val)), init, None, construct=f"Objective.{attr}",
                   detail=f"(x, p, v) -> d grad_x(x, p)/dp[{k}] . v at its own arguments",
                   bad_detail=f"Objective.{attr}(x, p, v) evaluates to `{_show(m, val, 120)}`, not the derivative of grad_x(x, p) with respect to p[{k}] at its own "
                              f"arguments applied to v" + (f"; it depends on {stale[:3]}: the objective's parameters are read when the function is traced, "
                                                           f"not taken from the closure's own parameter argument" if stale else ""))
    if n_cl < 2:
        ctx.undecided(rule, init, None, construct="Objective:parameter-jvp-closures", detail=f"{n_cl} forward-mode parameter derivative closures found (2 on the reference tree)")
    for meth, path in sorted(PROTOCOL.items()):
        msc = None
        for c in ctx.repo.class_mro(cls):
            for ch in c.children:
                if ch.kind == "function" and ch.name == meth and msc is None:
                    msc = ch
        if msc is None:
            # not a `def` of the class: a function stored in the class body / on the instance is as good
            try:
                cand = m.getattr(o, meth)
            except (PathEnd,) + ERR:
                cand = None
            if not isinstance(cand, (Bound, Closure, JitFn, Partial)):
                ctx.undecided(rule, cls, None, construct=f"Objective.{meth}", detail="method of the warm-start protocol not found")
                continue
            msc = cls
        try:
            val = m.call(m.getattr(o, meth), [Z, V], {})
            want = m.lin(("D", _grad_atom(m, Z, Pcur), path), V)
            ok = m.is_numlike(val) and m.equal(val, want)
            stale = sorted(a for a in m.atoms_deep(val) if m.kind(a) == "stale" or a.startswith("pinit")) if m.is_numlike(val) else []
            what = "x" if path == (0,) else f"p[{path[1]}]"
            ctx.decide(rule, _verdict(ok, m.is_numlike(val) and _precise(m, val)), msc, None, construct=f"Objective.{meth}",
                       detail=f"= d grad_x(x, self.p)/d{what} . v with the current parameters",
                       bad_detail=f"Objective.{meth}(x, v) evaluates to `{_show(m, val, 120)}`, not the derivative of grad_x(x, self.p) with respect to {what} applied to v"
                                  + (f" (depends on {stale[:3]}: parameters captured when the function was traced / constructed, not the current ones)" if stale else ""))
        except PathEnd as ex:
            ctx.undecided(rule, msc, None, construct=f"Objective.{meth}", detail=f"raises on symbolic input: {ex}")
        except ERR as ex:
            ctx.undecided(rule, msc, None, construct=f"Objective.{meth}", detail=f"cannot interpret: {type(ex).__name__}: {ex}")
    for qn in sorted(m.visited):
        s_ = ctx.repo.find(qn)
        if s_ is not None and s_.module.name == OBJ and "<" not in qn:
            ctx.touch(s_)


def _call_with(ctx, sc, orc, mkargs):
    mm = Machine(ctx.repo, orc, lambda s: True, _mutable(ctx))
    try:
        out = mm.call_closure(Closure(sc, mm.modenv(sc.module)), mkargs(mm), {})
        return (mm, out, "ret")
    except PathEnd:
        return (mm, None, "raised")


def variants(repo):
    from optilint.selftest import Variant, sub, sub_in_func, alpha_rename, reformat
    W = "optimism/WarmStart.py"
    O = "optimism/Objective.py"
    E = "optimism/EquationSolver.py"
    S = "optimism/TrustRegionSPG.py"
    A = "optimism/AlSolver.py"
    B = "optimism/BoundConstrainedSolver.py"
    BO = "optimism/BoundConstrainedObjective.py"

    def subs(*pairs):
        """several textual replacements in one module, each of which must apply exactly once"""
        def f(src):
            for old, new in pairs:
                if src.count(old) != 1:
                    return None
                src = src.replace(old, new)
            return src
        return f
    from .C19_variants import EXTRA
    extra = [Variant(name, rel, subs(*pairs), expect) for (name, rel, pairs, expect) in EXTRA]
    return extra + [
        Variant("warm start linearised at the unscaled point", E, sub_in_func("nonlinear_equation_solve", "WarmStart.warm_start_increment(objective,\n                                               xBar0, p)", "WarmStart.warm_start_increment(objective,\n                                               x0, p)"), "D3/T6-scaling-transparent"),
        Variant("pNew - p_old", W, sub_in_func("warm_start_increment", "dp = objective.p[index] - pNew[index]", "dp = pNew[index] - objective.p[index]"), "D1/T7-predictor-sign"),
        Variant("return -dx", W, sub_in_func("warm_start_increment", "    return dx ", "    return -dx "), "D1/T7-predictor-sign"),
        Variant("wrong slot difference", W, sub_in_func("warm_start_increment", "dp = objective.p[index] - pNew[index]", "dp = objective.p[index] - pNew[0]"), "D1/T7-predictor-sign"),
        Variant("index 2 uses slot-0 jvp", W, sub_in_func("warm_start_increment", "b = objective.jacobian_p2_vec(x, dp)", "b = objective.jacobian_p_vec(x, dp)"), "D1/T7-predictor-sign"),
        Variant("driver subtracts", E, sub_in_func("nonlinear_equation_solve", "        xBar0 += dxBar\n", "        xBar0 -= dxBar\n"), "D1/T7-predictor-sign"),
        Variant("AL: p assigned before warm start", A, sub_in_func("augmented_lagrange_solve", "        x += WarmStart.warm_start_increment(alObjective, x, p)\n        alObjective.p = p", "        alObjective.p = p\n        x += WarmStart.warm_start_increment(alObjective, x, p)"), "D2/T2-parameters-before-solve"),
        Variant("BCS: drop p on no-warm path", B, sub_in_func("bound_constrained_solve", "        dxBar = 0.0\n        boundConstrainedObjective.p = p", "        dxBar = 0.0"), "D2/T2-parameters-before-solve"),
        Variant("return scaling*xBar", E, sub_in_func("nonlinear_equation_solve", "return objective.invScaling * xBar, solverSuccess", "return objective.scaling * xBar, solverSuccess"), "D3/T6-scaling-transparent"),
        Variant("unscaled upper bound", S, sub_in_func("solve", "uBar = objective.scaling * upperBounds", "uBar = upperBounds"), "D3/T6-scaling-transparent"),
        Variant("scaled objective evaluates at scaling*xBar", O, sub_in_func("ScaledObjective.__init__", "            x = invScaling * xBar", "            x = scaling * xBar"), "D3/T6-scaling-transparent"),
        Variant("invScaling = scaling", O, sub_in_func("ScaledObjective.__init__", "            invScaling = 1.0/scaling", "            invScaling = 1.0*scaling"), "D3/T6-scaling-transparent"),
        Variant("precond gets scaling", O, sub_in_func("ScaledObjective.__init__", "                                                          invScaling)", "                                                          scaling)"), "D3/T6-scaling-transparent"),
        Variant("one-sided congruence", O, sub_in_func("ScaledPrecondStrategy.precond_at_attempt", "self.invScaling.T * K * self.invScaling", "K * self.invScaling"), "D3/T6-scaling-transparent"),
        Variant("warm-start jvp captures self.p", O, sub("jvp(lambda q0: self.grad_x(x, param_index_update(p,0,q0)),", "jvp(lambda q0: self.grad_x(x, param_index_update(self.p,0,q0)),"), "D4/T5-parameter-slots"),
        Variant("param_index_update slot", O, sub("return Params(p[0], p[1], p[2], p[3], newParam, p[5])", "return Params(p[0], p[1], p[2], newParam, p[4], p[5])"), "D4/T5-parameter-slots"),
        Variant("reformat WarmStart", W, reformat(), None),
        Variant("reformat Objective", O, reformat(), None),
        Variant("reformat BoundConstrainedObjective", BO, reformat(), None),
        Variant("alpha-rename warm_start_increment", W, alpha_rename("warm_start_increment"), None),
        Variant("alpha-rename nonlinear_equation_solve", E, alpha_rename("nonlinear_equation_solve"), None),
        Variant("alpha-rename SPG solve", S, alpha_rename("solve"), None),
        # ---- refactorings and mutations written while hardening the rules (helper extraction, guard clauses, temporaries, keyword
        # arguments, equivalent expression forms, lambda/def/partial/decorator forms, setter methods, ...)
        Variant('preserving: ws-dict-dispatch-neg-rhs', 'optimism/WarmStart.py', subs(("    dp = objective.p[index] - pNew[index]\n\n    if index==0:\n        b = objective.jacobian_p_vec(x, dp)\n    elif index==2:\n        b = objective.jacobian_p2_vec(x, dp)\n    else:\n        raise('invalid warm start parameter gradient direction')\n", "    jacobianVecs = {0: objective.jacobian_p_vec, 2: objective.jacobian_p2_vec}\n    if index not in jacobianVecs:\n        raise('invalid warm start parameter gradient direction')\n    pOld = objective.p\n    deltaP = pNew[index] - pOld[index]\n    b = -jacobianVecs[index](x, deltaP)\n")), None),
        Variant('preserving: ws-negated-system', 'optimism/WarmStart.py', subs(("    dx, cgWarmStartSolveSuccess = cg(Lop, b, M=LopPrecond, callback=callback)\n    print('num warm start cg iters = ', numIters)\n    # assert(cgWarmStartSolveSuccess==0)\n    \n    return dx \n\n\nfrom jax", "    dx, cgWarmStartSolveSuccess = cg(Lop, -b, M=LopPrecond, callback=callback)\n    print('num warm start cg iters = ', numIters)\n    # assert(cgWarmStartSolveSuccess==0)\n    \n    return -dx \n\n\nfrom jax")), None),
        Variant('preserving: nes-helper-extraction', 'optimism/EquationSolver.py', subs(('    xBar0 = objective.scaling * x0\n    \n    if useWarmStart:\n        if updatePrecond:\n            objective.update_precond(xBar0)\n        \n        dxBar = WarmStart.warm_start_increment(objective,\n                                               xBar0, p)\n        xBar0 += dxBar\n        objective.p = p\n    else:\n        objective.p = p\n\n    if updatePrecond:\n        objective.update_precond(xBar0)\n        \n    xBar, solverSuccess = solver_algorithm(objective, xBar0, settings, callback=callback)\n    \n    return objective.invScaling * xBar, solverSuccess', '    xBar0 = _predict_and_update_parameters(objective, _to_scaled(objective, x0), p,\n                                           warm=useWarmStart, refresh=updatePrecond)\n    if updatePrecond:\n        objective.update_precond(xBar0)\n    result = solver_algorithm(objective, xBar0, settings, callback=callback)\n    return _from_scaled(objective, result[0]), result[1]\n\n\ndef _to_scaled(objective, x):\n    return objective.scaling * x\n\n\ndef _from_scaled(objective, xBar):\n    unscaled = objective.invScaling * xBar\n    return unscaled\n\n\ndef _predict_and_update_parameters(objective, xStart, pNext, warm, refresh):\n    if not warm:\n        objective.p = pNext\n        return xStart\n    if refresh:\n        objective.update_precond(xStart)\n    predicted = xStart + WarmStart.warm_start_increment(objective, pNew=pNext, x=xStart)\n    objective.p = pNext\n    return predicted')), None),
        Variant('preserving: spg-guard-and-temps', 'optimism/TrustRegionSPG.py', subs(('    xBar0 = objective.scaling * x0\n    lBar = objective.scaling * lowerBounds\n    uBar = objective.scaling * upperBounds\n    \n    if useWarmStart:\n        if updatePrecond:\n            objective.update_precond(xBar0)\n        \n        dxBar = WarmStart.warm_start_increment(objective,\n                                               xBar0, p)\n        xBar0 += dxBar\n        objective.p = p\n    else:\n        objective.p = p\n\n    if updatePrecond:\n        objective.update_precond(xBar0)\n\n    bounds = np.column_stack((lBar, uBar))\n        \n    xBar, solverSuccess = bound_constrained_trust_region_minimize(objective, xBar0, bounds, settings,\n                                                   callback=callback)\n    \n    return objective.invScaling * xBar, solverSuccess', '    s = objective.scaling\n    start = x0 * s\n    bounds = np.column_stack((lowerBounds * s, s * upperBounds))\n    if not useWarmStart:\n        objective.p = p\n    else:\n        if updatePrecond: objective.update_precond(start)\n        step = WarmStart.warm_start_increment(objective, start, p, index=0)\n        objective.p = p\n        start = step + start\n    if updatePrecond:\n        objective.update_precond(start)\n    solution, flag = bound_constrained_trust_region_minimize(objective, start, bounds, settings, callback=callback)\n    sInv = objective.invScaling\n    return solution * sInv, flag')), None),
        Variant('preserving: scaledobjective-lambda-kwargs', 'optimism/Objective.py', subs(('        def scaled_objective(xBar, p):\n            x = invScaling * xBar\n            return objective_func(x, p)\n\n        xBar0 = scaling * x0\n        super().__init__(scaled_objective,\n                         xBar0,\n                         p,\n                         scaledPrecondStrategy)\n\n        self.scaling = scaling\n        self.invScaling = invScaling', '        scaled_objective = lambda y, q: objective_func(y * invScaling, q)\n        super().__init__(scaled_objective, x=scaling * x0, p=p, precondStrategy=scaledPrecondStrategy)\n        self.invScaling, self.scaling = invScaling, scaling')), None),
        Variant('preserving: scaledprecond-assoc', 'optimism/Objective.py', subs(('        K2 = csc_matrix( self.invScaling.T * K * self.invScaling )', '        D = self.invScaling\n        KD = K * D\n        K2 = csc_matrix( D.T * KD )')), None),
        Variant('preserving: objective-jvp-factory', 'optimism/Objective.py', subs(('        self.jac_xp_vec = jit(lambda x, p, vp0:\n                              jvp(lambda q0: self.grad_x(x, param_index_update(p,0,q0)),\n                                  (p[0],),\n                                  (vp0,))[1])\n\n        self.jac_xp2_vec = jit(lambda x, p, vp2:\n                               jvp(lambda q2: self.grad_x(x, param_index_update(p,2,q2)),\n                                   (p[2],),\n                                   (vp2,))[1])', '        def make_param_jvp(slot):\n            def param_jvp(x, p, v):\n                primalOut, tangentOut = jvp(lambda q: self.grad_x(x, param_index_update(p, slot, q)), (p[slot],), (v,))\n                return tangentOut\n            return jit(param_jvp)\n\n        self.jac_xp_vec = make_param_jvp(0)\n        self.jac_xp2_vec = make_param_jvp(slot=2)')), None),
        Variant('preserving: piu-list-form', 'optimism/Objective.py', subs(("    if index==0:\n        return Params(newParam, p[1], p[2], p[3], p[4], p[5])\n    if index==1:\n        return Params(p[0], newParam, p[2], p[3], p[4], p[5])\n    if index==2:\n        return Params(p[0], p[1], newParam, p[3], p[4], p[5])\n    if index==3:\n        return Params(p[0], p[1], p[2], newParam, p[4], p[5])\n    if index==4:\n        return Params(p[0], p[1], p[2], p[3], newParam, p[5])\n    if index==5:\n        return Params(p[0], p[1], p[2], p[3], p[4], newParam)\n    print('invalid index passed to param_index_update = ', index)", "    if 0 <= index < len(p):\n        slots = list(p)\n        slots[index] = newParam\n        return Params(*slots)\n    print('invalid index passed to param_index_update = ', index)")), None),
        Variant('preserving: al-hoist-and-swap', 'optimism/AlSolver.py', subs(('    if useWarmStart:\n        if updatePrecondBeforeWarmStart:\n            alObjective.update_precond(x)\n        x += WarmStart.warm_start_increment(alObjective, x, p)\n        alObjective.p = p\n    else:\n        alObjective.p = p\n', '    if not useWarmStart:\n        pass\n    else:\n        if updatePrecondBeforeWarmStart:\n            alObjective.update_precond(x)\n        dx0 = WarmStart.warm_start_increment(alObjective, x, p)\n        x = x + dx0\n    alObjective.p = p\n')), None),
        Variant('preserving: bco-temps', 'optimism/BoundConstrainedObjective.py', subs(('        def scaled_objective(xBar, p):\n            x = invScaling * xBar\n            return objective_func(x, p)\n', '        def scaled_objective(xBar, params):\n            return objective_func(xBar * invScaling, params)\n'), ('        xBar0 = scaling * x0\n        super().__init__(scaled_objective,\n                         scaled_constraint_func,\n                         xBar0,\n                         p,', '        super().__init__(scaled_objective,\n                         scaled_constraint_func,\n                         x0 * scaling,\n                         p,')), None),
        Variant('preserving: bcs-forward-flags', 'optimism/BoundConstrainedSolver.py', subs(('                                             useWarmStart=False,\n                                             updatePrecond=False,', '                                             updatePrecond=False,\n                                             useWarmStart=(1 > 2),')), None),
        Variant('preserving: ws-getattr-ifexp-with', 'optimism/WarmStart.py', subs(("    if index==0:\n        b = objective.jacobian_p_vec(x, dp)\n    elif index==2:\n        b = objective.jacobian_p2_vec(x, dp)\n    else:\n        raise('invalid warm start parameter gradient direction')\n", "    if index not in (0, 2):\n        raise ValueError(f'invalid warm start parameter gradient direction {index}')\n    jacobian_vec = getattr(objective, 'jacobian_p_vec' if index == 0 else 'jacobian_p2_vec')\n    b = jacobian_vec(x, dp)\n")), None),
        Variant('preserving: obj-decorated-defs-linearize', 'optimism/Objective.py', subs(('        self.hess_vec   = jit(lambda x, p, vx:\n                              jvp(lambda z: self.grad_x(z,p), (x,), (vx,))[1])\n', '        @jit\n        def hess_vec(x, p, vx):\n            gradAtX, hessianTimes = linearize(lambda z: self.grad_x(z,p), x)\n            return hessianTimes(vx)\n        self.hess_vec = hess_vec\n')), None),
        Variant('preserving: obj-partial-slot', 'optimism/Objective.py', subs(('        self.jac_xp_vec = jit(lambda x, p, vp0:\n                              jvp(lambda q0: self.grad_x(x, param_index_update(p,0,q0)),\n                                  (p[0],),\n                                  (vp0,))[1])\n', '        def jac_xp_slot_vec(slot, x, p, v):\n            def grad_of_slot(q):\n                return self.grad_x(x, p._replace(**{Params._fields[slot]: q}))\n            return jvp(grad_of_slot, (p[slot],), (v,))[1]\n        self.jac_xp_vec = jit(partial(jac_xp_slot_vec, 0))\n')), None),
        Variant('preserving: so-helper-method', 'optimism/Objective.py', subs(('        if precondStrategy:\n            precondStrategy.initialize(x0, p)\n            K0 = precondStrategy.precond_at_attempt(0)\n            scaling = np.sqrt(K0.diagonal())\n            invScaling = 1.0/scaling\n            \n            scaledPrecondStrategy = ScaledPrecondStrategy(precondStrategy,\n                                                          invScaling)\n\n        else:\n            scaling = 1.0\n            invScaling = 1.0\n            scaledPrecondStrategy = None\n            \n        def scaled', '        scaling, invScaling, scaledPrecondStrategy = _diagonal_scaling(precondStrategy, x0, p)\n\n        def scaled'), ('class ScaledObjective(Objective):', 'def _diagonal_scaling(strategy, x, params):\n    if not strategy:\n        return 1.0, 1.0, None\n    strategy.initialize(x, params)\n    stiffnessDiagonal = strategy.precond_at_attempt(0).diagonal()\n    d = np.sqrt(stiffnessDiagonal)\n    dInv = np.power(d, -1)\n    return d, dInv, ScaledPrecondStrategy(dofScaling=dInv, precondStrategy=strategy)\n\n\nclass ScaledObjective(Objective):')), None),
        Variant('preserving: bcs-with-timer-and-kwonly', 'optimism/BoundConstrainedSolver.py', subs(('    boundConstrainedObjective.reset_kappa()\n    \n    xBar0 = boundConstrainedObjective.scaling * x0', '    boundConstrainedObjective.reset_kappa()\n    obj = boundConstrainedObjective\n    xBar0 = np.multiply(obj.scaling, x0)')), None),
        Variant('breaking: ws-operator-args-swapped', 'optimism/WarmStart.py', subs(('    op = lambda v: objective.hessian_vec(x, v)\n    \n    Lop', '    op = lambda v: objective.hessian_vec(v, x)\n    \n    Lop')), 'D1/T7-predictor-sign'),
        Variant('breaking: ws-negated-operator-only', 'optimism/WarmStart.py', subs(('    op = lambda v: objective.hessian_vec(x, v)\n    \n    Lop', '    op = lambda v: -objective.hessian_vec(x, v)\n    \n    Lop')), 'D1/T7-predictor-sign'),
        Variant('breaking: ws-jaxsafe-sign', 'optimism/WarmStart.py', subs(('dp0 = objective.p[0] - pNew', 'dp0 = pNew - objective.p[0]')), 'D1/T7-predictor-sign'),
        Variant('breaking: ws-jaxsafe-except-branch-negated', 'optimism/WarmStart.py', subs(('    except AttributeError:\n        op = lambda v: objective.hessian_vec(x, v)', '    except AttributeError:\n        op = lambda v: -objective.hessian_vec(x, v)')), 'D1/T7-predictor-sign'),
        Variant('breaking: ws-precond-as-operator', 'optimism/WarmStart.py', subs(("    dx, cgWarmStartSolveSuccess = cg(Lop, b, M=LopPrecond, callback=callback)\n    print('num warm start cg iters = ', numIters)\n    # assert(cgWarmStartSolveSuccess==0)\n    \n    return dx \n\n\nfrom jax", "    dx, cgWarmStartSolveSuccess = cg(LopPrecond, b, M=Lop, callback=callback)\n    print('num warm start cg iters = ', numIters)\n    # assert(cgWarmStartSolveSuccess==0)\n    \n    return dx \n\n\nfrom jax")), 'D1/T7-predictor-sign'),
        Variant('breaking: nes-p-before-warm-in-one-branch', 'optimism/EquationSolver.py', subs(('        if updatePrecond:\n            objective.update_precond(xBar0)\n        \n        dxBar = WarmStart.warm_start_increment(objective,\n                                               xBar0, p)\n        xBar0 += dxBar\n        objective.p = p', '        if updatePrecond:\n            objective.p = p\n            objective.update_precond(xBar0)\n        \n        dxBar = WarmStart.warm_start_increment(objective,\n                                               xBar0, p)\n        xBar0 += dxBar\n        objective.p = p')), 'D2/T2-parameters-before-solve'),
        Variant('breaking: nes-precond-at-unscaled', 'optimism/EquationSolver.py', subs(('    if updatePrecond:\n        objective.update_precond(xBar0)\n        \n    xBar, solverSuccess = solver_algorithm', '    if updatePrecond:\n        objective.update_precond(x0)\n        \n    xBar, solverSuccess = solver_algorithm')), 'D3/T6-scaling-transparent'),
        Variant('breaking: nes-old-p-to-warm', 'optimism/EquationSolver.py', subs(('        dxBar = WarmStart.warm_start_increment(objective,\n                                               xBar0, p)', '        dxBar = WarmStart.warm_start_increment(objective,\n                                               xBar0, objective.p)')), 'D2/T2-parameters-before-solve'),
        Variant('breaking: nes-increment-twice', 'optimism/EquationSolver.py', subs(('        xBar0 += dxBar\n        objective.p = p', '        xBar0 += 2*dxBar\n        objective.p = p')), 'D1/T7-predictor-sign'),
        Variant('breaking: spg-returns-start', 'optimism/TrustRegionSPG.py', subs(('    return objective.invScaling * xBar, solverSuccess', '    return objective.invScaling * xBar0, solverSuccess')), 'D3/T6-scaling-transparent'),
        Variant('breaking: spg-solver-gets-x0', 'optimism/TrustRegionSPG.py', subs(('bound_constrained_trust_region_minimize(objective, xBar0, bounds, settings,', 'bound_constrained_trust_region_minimize(objective, x0, bounds, settings,')), 'D3/T6-scaling-transparent'),
        Variant('breaking: spg-lower-bound-dropped', 'optimism/TrustRegionSPG.py', subs(('    bounds = np.column_stack((lBar, uBar))', '    bounds = np.column_stack((uBar, uBar))')), 'D3/T6-scaling-transparent'),
        Variant('breaking: al-subtracts', 'optimism/AlSolver.py', subs(('        x += WarmStart.warm_start_increment(alObjective, x, p)', '        x -= WarmStart.warm_start_increment(alObjective, x, p)')), 'D1/T7-predictor-sign'),
        Variant('breaking: al-p-reset-in-loop', 'optimism/AlSolver.py', subs(('        if callback: callback(x, alObjective.p)\n        \n        updatePrecond=False', '        if callback: callback(x, alObjective.p)\n        alObjective.p = alObjective.pOld\n        updatePrecond=False')), 'D2/T2-parameters-before-solve'),
        Variant('breaking: bcs-forwards-old-p', 'optimism/BoundConstrainedSolver.py', subs(('    xBar = AlSolver.augmented_lagrange_solve(boundConstrainedObjective,\n                                             xBar0, p,', '    pOld = boundConstrainedObjective.p\n    xBar = AlSolver.augmented_lagrange_solve(boundConstrainedObjective,\n                                             xBar0, pOld,'), ('    boundConstrainedObjective.reset_kappa()\n', '    boundConstrainedObjective.reset_kappa()\n    pPrev = boundConstrainedObjective.p\n'), ('xBar0, pOld,', 'xBar0, pPrev,'), ('    pOld = boundConstrainedObjective.p\n', '')), 'D2/T2-parameters-before-solve'),
        Variant('breaking: bcs-returns-unscaled-wrongly', 'optimism/BoundConstrainedSolver.py', subs(('    return boundConstrainedObjective.invScaling * xBar', '    return xBar')), 'D3/T6-scaling-transparent'),
        Variant('breaking: so-swapped-attrs', 'optimism/Objective.py', subs(('        self.scaling = scaling\n        self.invScaling = invScaling\n        \n\n    def get_value', '        self.scaling = invScaling\n        self.invScaling = scaling\n        \n\n    def get_value')), 'D3/T6-scaling-transparent'),
        Variant('breaking: so-forgets-scaling-attr', 'optimism/Objective.py', subs(('        self.scaling = scaling\n        self.invScaling = invScaling\n        \n\n    def get_value', '        self.invScaling = invScaling\n        \n\n    def get_value')), 'D3/T6-scaling-transparent'),
        Variant('breaking: so-strategy-initialised-at-zero', 'optimism/Objective.py', subs(('            precondStrategy.initialize(x0, p)\n            K0 = precondStrategy.precond_at_attempt(0)\n            scaling = np.sqrt(K0.diagonal())\n            invScaling = 1.0/scaling\n            \n', '            precondStrategy.initialize(0.0*x0, p)\n            K0 = precondStrategy.precond_at_attempt(0)\n            scaling = np.sqrt(K0.diagonal())\n            invScaling = 1.0/scaling\n            \n')), 'D3/T6-scaling-transparent'),
        Variant('breaking: bco-start-invscaled', 'optimism/BoundConstrainedObjective.py', subs(('        xBar0 = scaling * x0', '        xBar0 = invScaling * x0')), 'D3/T6-scaling-transparent'),
        Variant('breaking: bco-objective-unscaled', 'optimism/BoundConstrainedObjective.py', subs(('            x = invScaling * xBar\n            return objective_func(x, p)', '            x = invScaling * xBar\n            return objective_func(xBar, p)')), 'D3/T6-scaling-transparent'),
        Variant('breaking: bco-strategy-initialize-scaled', 'optimism/BoundConstrainedObjective.py', subs(('        self.ps.initialize(self.diagScaling*x, p)', '        self.ps.initialize(x, p)')), 'D3/T6-scaling-transparent'),
        Variant('breaking: sps-attempt-ignored', 'optimism/Objective.py', subs(('        K = self.ps.precond_at_attempt(attempt)\n        K2 = csc_matrix( self.invScaling.T', '        K = self.ps.precond_at_attempt(0)\n        K2 = csc_matrix( self.invScaling.T')), 'D3/T6-scaling-transparent'),
        Variant('breaking: obj-jvp2-wrong-primal', 'optimism/Objective.py', subs(('                                   (p[2],),\n                                   (vp2,))[1])', '                                   (p[0],),\n                                   (vp2,))[1])')), 'D4/T5-parameter-slots'),
        Variant('breaking: obj-jacobian_p2-delegates-slot0', 'optimism/Objective.py', subs(('        return self.jac_xp2_vec(x, self.p, vp)', '        return self.jac_xp_vec(x, self.p, vp)')), 'D4/T5-parameter-slots'),
        Variant('breaking: obj-hessvec-returns-primal', 'optimism/Objective.py', subs(('                              jvp(lambda z: self.grad_x(z,p), (x,), (vx,))[1])', '                              jvp(lambda z: self.grad_x(z,p), (x,), (vx,))[0])')), 'D4/T5-parameter-slots'),
        Variant('breaking: obj-hessvec-captures-p', 'optimism/Objective.py', subs(('                              jvp(lambda z: self.grad_x(z,p), (x,), (vx,))[1])', '                              jvp(lambda z: self.grad_x(z,self.p), (x,), (vx,))[1])')), 'D4/T5-parameter-slots'),
        Variant('breaking: piu-slot2-overwrites-3', 'optimism/Objective.py', subs(('        return Params(p[0], p[1], newParam, p[3], p[4], p[5])', '        return Params(p[0], p[1], p[2], newParam, p[4], p[5])')), 'D4/T5-parameter-slots'),
    ]
