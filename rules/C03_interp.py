"""Concrete-shape / symbolic-value interpreter for the mesh and function-space code (C03, C13).

`MeshInterp` extends optilint.tensoreval.Interp (exact rational / symbolic arrays of explicit shape) with the NumPy / JAX /
Python vocabulary that index bookkeeping and element kernels use: numpy indexing semantics (basic + advanced + boolean),
broadcasting, stacking, set operations, sorting, `vmap` with in_axes, `functools.partial`, namedtuple `_replace`, list / dict
methods, loops with break / continue, varargs.  Index data (connectivity, node numbers, face tables) is concrete; coordinates,
nodal values, shape-function values and weights are symbols, so every result is an exact polynomial / rational identity in them.

Nothing of the analysed library is imported or executed: its *source* is interpreted through the optilint model.
An operation that is not modelled raises EvalError (=> the obligation that needed the value is UNDECIDED, never REFUTED).
"""
from __future__ import annotations

import ast
import itertools
import math
from fractions import Fraction

from optilint.tensoreval import (Interp, Dual, Arr, EvalError, Raised, Unknown, Record, Closure, Ext, PyFunc, Env, ReturnSignal,
                                 AtProxy, AtIndexed, Vmapped, _A, rat_const, rat_is_zero, rat_sign, d_fun, sum_d, R)
from optilint.model import NamedTupleVal, norm_src


class BreakSignal(Exception):
    pass


class ContinueSignal(Exception):
    pass


class Partial:
    def __init__(self, fn, args, kwargs):
        self.fn, self.args, self.kwargs = fn, list(args), dict(kwargs)

    def __repr__(self):
        return f"<partial {self.fn!r}>"


class VmapFn:
    def __init__(self, fn, in_axes=0, out_axes=0):
        self.fn, self.in_axes, self.out_axes = fn, in_axes, out_axes

    def __repr__(self):
        return f"<vmap {self.fn!r}>"


class Instance:
    """an object of a class defined in the analysed source (attributes set by its __init__ / methods)"""
    def __init__(self, cls):
        self.cls, self.attrs = cls, {}

    def __repr__(self):
        return f"<{self.cls.name} object>"


class Opaque:
    """A value the analysis treats as a black box (e.g. internal state handed through to a user kernel)."""
    def __init__(self, name):
        self.name = name

    def __repr__(self):
        return f"<opaque {self.name}>"


# ----------------------------------------------------------------------------- small helpers on Arr

def D(x):
    return x if isinstance(x, Dual) else Dual.of(x)


def const_of(x):
    """exact rational value of a number-like, or None"""
    if isinstance(x, bool):
        return Fraction(int(x))
    if isinstance(x, int):
        return Fraction(x)
    if isinstance(x, Fraction):
        return x
    if isinstance(x, float):
        return Fraction(repr(x))
    if isinstance(x, Dual):
        if not rat_is_zero(x.b):
            return None
        return rat_const(x.a)
    return None


def ints_of(a):
    out = []
    for x in (a.data if isinstance(a, Arr) else a):
        c = const_of(x)
        if c is None or c.denominator != 1:
            raise EvalError("integer constants expected")
        out.append(int(c))
    return out


def int_arr(values, shape=None):
    values = list(values)
    return Arr([Dual(v) for v in values], shape if shape is not None else (len(values),))


def bool_arr(values, shape=None):
    values = list(values)
    return Arr([Dual(1 if v else 0) for v in values], shape if shape is not None else (len(values),), isbool=True)


def prod(shape):
    n = 1
    for s in shape:
        n *= s
    return n


def bshape(s1, s2):
    out = []
    for a, b in itertools.zip_longest(reversed(s1), reversed(s2), fillvalue=1):
        if a == b or b == 1:
            out.append(a)
        elif a == 1:
            out.append(b)
        else:
            raise EvalError(f"shapes {tuple(s1)} and {tuple(s2)} do not broadcast")
    return tuple(reversed(out))


def broadcast_to(a, shape):
    shape = tuple(shape)
    if not isinstance(a, Arr):
        return Arr([D(a)] * prod(shape), shape, isbool=isinstance(a, bool))
    if a.shape == shape:
        return a
    if bshape(a.shape, shape) != shape:
        raise EvalError(f"cannot broadcast {a.shape} to {shape}")
    pad = (1,) * (len(shape) - a.ndim) + tuple(a.shape)
    strides = []
    st = 1
    for s in reversed(pad):
        strides.append(st)
        st *= s
    strides = list(reversed(strides))
    out = []
    for ix in itertools.product(*[range(s) for s in shape]):
        off = sum((i if p != 1 else 0) * stp for i, p, stp in zip(ix, pad, strides))
        out.append(a.data[off])
    return Arr(out, shape, isbool=a.isbool)


def bc(a, b, f, isbool=False):
    """elementwise f with numpy broadcasting; scalars stay scalars"""
    if not isinstance(a, Arr) and not isinstance(b, Arr):
        return f(a, b)
    sa = a.shape if isinstance(a, Arr) else ()
    sb = b.shape if isinstance(b, Arr) else ()
    shp = bshape(sa, sb)
    A_, B_ = broadcast_to(a, shp), broadcast_to(b, shp)
    return Arr([f(x, y) for x, y in zip(A_.data, B_.data)], shp, isbool=isbool)


def rows_of(a):
    """iteration over the leading axis"""
    if a.ndim == 0:
        raise EvalError("iteration over a 0-d array")
    k = a.shape[0]
    if a.ndim == 1:
        return list(a.data)
    sub = prod(a.shape[1:])
    return [Arr(a.data[i * sub:(i + 1) * sub], a.shape[1:], isbool=a.isbool) for i in range(k)]


def stack_rows(rows, isbool=False):
    """inverse of rows_of: list of equal-shape Arr / scalars -> Arr with a new leading axis"""
    if not rows:
        return Arr([], (0,))
    if all(not isinstance(r, Arr) for r in rows):
        return Arr([D(r) for r in rows], (len(rows),), isbool=isbool)
    rows = [r if isinstance(r, Arr) else Arr([D(r)], ()) for r in rows]
    shp = rows[0].shape
    if any(r.shape != shp for r in rows):
        raise EvalError("stacking arrays of different shapes")
    return Arr([x for r in rows for x in r.data], (len(rows),) + tuple(shp), isbool=isbool or all(r.isbool for r in rows))


def moveaxis_to_front(a, axis):
    if axis < 0:
        axis += a.ndim
    if not 0 <= axis < a.ndim:
        raise EvalError("axis out of range")
    if axis == 0:
        return a
    perm = [axis] + [i for i in range(a.ndim) if i != axis]
    return transpose(a, perm)


def transpose(a, perm):
    shp = tuple(a.shape[p] for p in perm)
    out = []
    for ix in itertools.product(*[range(s) for s in shp]):
        src = [0] * a.ndim
        for k, p in enumerate(perm):
            src[p] = ix[k]
        out.append(a.get(tuple(src)))
    return Arr(out, shp, isbool=a.isbool)


def move_front_to(a, axis):
    """inverse of moveaxis_to_front"""
    if axis < 0:
        axis += a.ndim
    if axis == 0:
        return a
    perm = list(range(1, axis + 1)) + [0] + list(range(axis + 1, a.ndim))
    return transpose(a, perm)


def concat(parts, axis=0):
    parts = [p if isinstance(p, Arr) else Arr([D(p)], ()) for p in parts]
    if not parts:
        raise EvalError("concatenate of nothing")
    if any(p.ndim == 0 for p in parts):
        raise EvalError("concatenate of 0-d arrays")
    nd = parts[0].ndim
    if any(p.ndim != nd for p in parts):
        raise EvalError("concatenate: different ranks")
    if axis < 0:
        axis += nd
    fr = [moveaxis_to_front(p, axis) for p in parts]
    rest = None
    for p in fr:
        if p.shape[0] == 0:
            continue
        if rest is None:
            rest = p.shape[1:]
        elif p.shape[1:] != rest:
            raise EvalError("concatenate: shape mismatch")
    if rest is None:
        rest = fr[0].shape[1:]
    data = [x for p in fr for x in p.data]
    n = sum(p.shape[0] for p in fr)
    return move_front_to(Arr(data, (n,) + tuple(rest), isbool=all(p.isbool for p in parts)), axis)


def nd_index(shape, key):
    """numpy indexing semantics.  key: tuple of int / slice / None / Arr (int or bool).  Returns (outshape, [source index tuples])."""
    if not isinstance(key, tuple):
        key = (key,)
    # boolean masks -> integer arrays (one axis per mask dimension; only 1-d masks)
    k2 = []
    for k in key:
        if isinstance(k, Arr) and k.isbool:
            if k.ndim != 1:
                raise EvalError("multi-dimensional boolean mask")
            k2.append(int_arr([i for i, x in enumerate(k.data) if const_of(x) == 1]))
        elif isinstance(k, list):
            k2.append(int_arr(ints_of(k)))
        elif isinstance(k, tuple):
            k2.append(int_arr(ints_of(list(k))))
        elif k is Ellipsis:
            n_given = sum(1 for q in key if q is not None and q is not Ellipsis)
            k2 += [slice(None)] * (len(shape) - n_given)
        else:
            k2.append(k)
    key = tuple(k2)
    n_real = sum(1 for k in key if k is not None)
    if n_real > len(shape):
        raise EvalError("too many indices")
    key = key + (slice(None),) * (len(shape) - n_real)
    has_arr = any(isinstance(k, Arr) for k in key)
    entries = []        # ('s', [range]) | ('a', values, shape) | ('n',)
    dim = 0
    for k in key:
        if k is None:
            entries.append(("n",))
            continue
        s = shape[dim]
        dim += 1
        if isinstance(k, slice):
            entries.append(("s", list(range(*k.indices(s)))))
        elif isinstance(k, Arr):
            vals = []
            for v in ints_of(k):
                if v < 0:
                    v += s
                if not 0 <= v < s:
                    raise EvalError(f"index {v} out of range for axis of length {s}")
                vals.append(v)
            entries.append(("a", vals, tuple(k.shape)))
        else:
            c = const_of(k)
            if c is None or c.denominator != 1:
                raise EvalError(f"unsupported index {k!r}")
            v = int(c)
            if v < 0:
                v += s
            if not 0 <= v < s:
                raise EvalError(f"index {int(c)} out of range for axis of length {s}")
            entries.append(("a", [v], ()) if has_arr else ("i", v))
    adv = [i for i, e in enumerate(entries) if e[0] == "a"]
    if not adv:
        outshape = []
        ranges = []
        for e in entries:
            if e[0] == "s":
                outshape.append(len(e[1]))
                ranges.append(e[1])
            elif e[0] == "i":
                ranges.append([e[1]])
            else:
                outshape.append(1)
        return tuple(outshape), [tuple(ix) for ix in itertools.product(*ranges)]
    B = ()
    for i in adv:
        B = bshape(B, entries[i][2])
    nB = prod(B)
    advvals = {}
    for i in adv:
        a = broadcast_to(Arr([Dual(v) for v in entries[i][1]], entries[i][2]), B)
        advvals[i] = ints_of(a)
    adjacent = adv == list(range(adv[0], adv[-1] + 1))
    pre = [e for e in entries[:adv[0]]] if adjacent else []
    post = [e for e in entries[adv[-1] + 1:]] if adjacent else []
    mid_slices = [] if adjacent else [e for i, e in enumerate(entries) if e[0] != "a"]

    def dims_of(es):
        return [len(e[1]) if e[0] == "s" else 1 for e in es]
    if adjacent:
        outshape = tuple(dims_of(pre)) + tuple(B) + tuple(dims_of(post))
        out = []
        pre_r = [e[1] if e[0] == "s" else [None] for e in pre]
        post_r = [e[1] if e[0] == "s" else [None] for e in post]
        for p in itertools.product(*pre_r):
            for b in range(nB):
                for q in itertools.product(*post_r):
                    ix = [x for x in p if x is not None] + [advvals[i][b] for i in adv] + [x for x in q if x is not None]
                    out.append(tuple(ix))
        return outshape, out
    outshape = tuple(B) + tuple(dims_of(mid_slices))
    out = []
    sl_r = [e[1] if e[0] == "s" else [None] for e in mid_slices]
    for b in range(nB):
        for q in itertools.product(*sl_r):
            qi = iter(q)
            ix = []
            for i, e in enumerate(entries):
                if e[0] == "a":
                    ix.append(advvals[i][b])
                else:
                    v = next(qi)
                    if v is not None:
                        ix.append(v)
            out.append(tuple(ix))
    return outshape, out


def _offset(shape, ix):
    off, stride = 0, 1
    for i, s in zip(reversed(ix), reversed(shape)):
        off += i * stride
        stride *= s
    return off


def arr_get(a, key):
    outshape, idxs = nd_index(a.shape, key)
    vals = [a.data[_offset(a.shape, ix)] for ix in idxs]
    if outshape == ():
        return vals[0]
    return Arr(vals, outshape, isbool=a.isbool)


def arr_set(a, key, val, add=False):
    """functional update; returns the new array"""
    outshape, idxs = nd_index(a.shape, key)
    if isinstance(val, (list, tuple)):
        val = Arr.from_nested(val)
    if isinstance(val, bool):
        val = Dual(1 if val else 0)
    v = broadcast_to(val, outshape) if (isinstance(val, Arr) or outshape != ()) else Arr([D(val)], ())
    if len(v.data) != len(idxs):
        raise EvalError("indexed store: value shape mismatch")
    data = list(a.data)
    for ix, x in zip(idxs, v.data):
        o = _offset(a.shape, ix)
        data[o] = (data[o] + x) if add else x
    return Arr(data, a.shape, isbool=a.isbool)


class Singular(EvalError):
    """a linear solve whose matrix is identically singular in the symbols (a derived fact, not an un-modelled operation)"""


def solve_linear(Am, Bm):
    """Exact solution of A X = B by Gaussian elimination over rational functions (pivot = first entry not identically zero)."""
    if Am.ndim != 2 or Am.shape[0] != Am.shape[1]:
        raise EvalError("solve: square matrix expected")
    n = Am.shape[0]
    vec = Bm.ndim == 1
    Bc = Bm.reshape((n, 1)) if vec else Bm
    if Bc.shape[0] != n:
        raise EvalError("solve: shape mismatch")
    m = Bc.shape[1]
    if n == 2:
        a, b, c, d = Am.data
        det = a * d - b * c
        if det.is_zero():
            raise Singular("solve: the matrix is singular for generic inputs")
        inv = Dual(1) / det
        out = []
        for j in range(m):
            out.append((d * Bc.data[j] - b * Bc.data[m + j]) * inv)
        for j in range(m):
            out.append((a * Bc.data[m + j] - c * Bc.data[j]) * inv)
        return Arr(out, (n,) if vec else (n, m))
    M = [[Am.data[i * n + j] for j in range(n)] + [Bc.data[i * m + j] for j in range(m)] for i in range(n)]
    for c in range(n):
        piv = None
        for r in range(c, n):
            if not M[r][c].is_zero():
                piv = r
                break
        if piv is None:
            raise Singular("solve: the matrix is singular for generic inputs")
        M[c], M[piv] = M[piv], M[c]
        pv = M[c][c]
        M[c] = [x / pv for x in M[c]]
        for r in range(n):
            if r != c and not M[r][c].is_zero():
                f = M[r][c]
                M[r] = [x - f * y for x, y in zip(M[r], M[c])]
    out = [M[i][n + j] for i in range(n) for j in range(m)]
    return Arr(out, (n,) if vec else (n, m))


# ----------------------------------------------------------------------------- the interpreter

_NAME = lambda s: ast.Name(id=s, ctx=ast.Load())


class MeshInterp(Interp):
    def __init__(self, repo, **kw):
        super().__init__(repo, **kw)
        self.tolerant = True
        self.max_depth = 60
        self.steps = 0
        self.max_steps = 400000
        self.swallowed = []      # tolerant mode: the un-modelled operations whose statements were skipped
        self.singular = []       # descriptions of linear solves / inversions of identically singular matrices

    # ---- numbers
    def num(self, v):
        if isinstance(v, Ext):
            last = v.name.split(".")[-1]
            if last == "pi":
                return Dual(_A.atom("pi"))
            if last == "newaxis":
                raise EvalError("newaxis as a number")
        if isinstance(v, bool):
            return Dual(1 if v else 0)
        if isinstance(v, (list, tuple)) and v and all(isinstance(x, (int, float, Fraction, Dual, Arr, list, tuple)) and not isinstance(x, bool) for x in v):
            return Arr.from_nested(list(v))
        if isinstance(v, Unknown):
            raise EvalError(f"unknown value ({v.why[:80]})")
        return super().num(v)

    def as_int(self, v):
        if isinstance(v, Arr) and v.size() == 1:
            v = v.data[0]
        if isinstance(v, float) and v == int(v):
            return int(v)
        return super().as_int(v)

    def is_numberlike(self, v):
        return isinstance(v, (int, float, Fraction, Dual, Arr)) and not isinstance(v, bool)

    # ---- expressions
    def eval(self, e, env):
        self.steps += 1
        if self.steps > self.max_steps:
            raise EvalError("interpretation budget exhausted")
        return super().eval(e, env)

    def e_Tuple(self, e, env):
        out = []
        for x in e.elts:
            if isinstance(x, ast.Starred):
                out += list(self.iterate(self.eval(x.value, env)))
            else:
                out.append(self.eval(x, env))
        return tuple(out)

    def e_List(self, e, env):
        return list(self.e_Tuple(e, env))

    def e_Set(self, e, env):
        return set(self.e_Tuple(e, env))

    def e_Dict(self, e, env):
        out = {}
        for k, v in zip(e.keys, e.values):
            if k is None:
                out.update(self.eval(v, env))
            else:
                out[self.hashable(self.eval(k, env))] = self.eval(v, env)
        return out

    def e_DictComp(self, e, env):
        out = {}

        def make(en):
            out[self.hashable(self.eval(e.key, en))] = self.eval(e.value, en)
        fake = ast.ListComp(elt=ast.Constant(value=None), generators=e.generators)
        self._comp(fake, env, make)
        return out

    def e_SetComp(self, e, env):
        return set(self.hashable(x) for x in self._comp(e, env, lambda en: self.eval(e.elt, en)))

    def e_Starred(self, e, env):
        raise EvalError("starred expression")

    def e_Slice(self, e, env):
        return self.eval_index(e, env)

    def hashable(self, v):
        if isinstance(v, Dual):
            c = const_of(v)
            if c is None:
                raise EvalError("symbolic dictionary key")
            return int(c) if c.denominator == 1 else c
        if isinstance(v, Arr):
            return tuple(self.hashable(x) for x in (v.data if v.ndim <= 1 else rows_of(v)))
        if isinstance(v, (list, tuple)):
            return tuple(self.hashable(x) for x in v)
        if isinstance(v, Fraction) and v.denominator == 1:
            return int(v)
        return v

    def iterate(self, it):
        if isinstance(it, Arr):
            rs = rows_of(it)
            for r in rs:
                if isinstance(r, Arr):
                    r._view = True
            return rs
        if isinstance(it, dict):
            return list(it.keys())
        if isinstance(it, Record):
            sc = it.cls
            if sc is not None:
                for c in sc.children:
                    if c.kind == "function" and c.name == "__iter__":
                        ys = [st.value.value for st in c.node.body if isinstance(st, ast.Expr) and isinstance(st.value, ast.Yield)]
                        if len(ys) == len([st for st in c.node.body if not (isinstance(st, ast.Expr) and isinstance(st.value, ast.Constant))]):
                            env = Env(c, self.module_env(c.module))
                            env.vars[c.params()[0]] = it
                            return [self.eval(y, env) for y in ys]
                        raise EvalError("__iter__ is not a plain sequence of yields")
            return list(it.values)
        if isinstance(it, (list, tuple, set, range)):
            return list(it)
        if isinstance(it, bytes):
            return [bytes([c]) for c in it]
        if hasattr(it, "optilint_iter"):
            return it.optilint_iter(self)
        if isinstance(it, (Unknown,)):
            raise EvalError(f"iteration over an unknown value ({it.why[:60]})")
        raise EvalError(f"iteration over {it!r}")

    def _comp(self, e, env, make):
        out = []

        def rec(k, env_k):
            if k == len(e.generators):
                out.append(make(env_k))
                return
            g = e.generators[k]
            for x in self.iterate(self.eval(g.iter, env_k)):
                e2 = Env(env_k.scope, env_k)
                self.assign(g.target, x, e2)
                if all(self.truth(self.eval(c, e2)) for c in g.ifs):
                    rec(k + 1, e2)
        rec(0, env)
        return out

    def e_UnaryOp(self, e, env):
        v = self.eval(e.operand, env)
        if isinstance(e.op, ast.Invert) and isinstance(v, Arr) and v.isbool:
            return Arr([Dual(1) - x for x in v.data], v.shape, isbool=True)
        if isinstance(e.op, ast.Not) and isinstance(v, Arr):
            return not self.truth(v)
        if isinstance(e.op, ast.USub) and isinstance(v, (list, tuple)):
            v = self.num(v)
        if isinstance(e.op, ast.USub):
            return self.neg(v)
        if isinstance(e.op, ast.UAdd):
            return v
        if isinstance(e.op, ast.Not):
            return not self.truth(v)
        if isinstance(e.op, ast.Invert) and isinstance(v, bool):
            return not v
        raise EvalError("unary op")

    def e_BoolOp(self, e, env):
        # Python semantics: the value of the deciding operand, not a bool
        v = None
        for sub in e.values:
            v = self.eval(sub, env)
            t = self.truth(v)
            if isinstance(e.op, ast.And) and not t:
                return v
            if isinstance(e.op, ast.Or) and t:
                return v
        return v

    def truth(self, v):
        if isinstance(v, Arr):
            if v.size() != 1:
                raise EvalError("truth value of an array")
            v = v.data[0]
        if isinstance(v, (set, Record)):
            return True if isinstance(v, Record) else bool(v)
        if isinstance(v, Unknown):
            raise EvalError(f"truth value of an unknown ({v.why[:60]})")
        return super().truth(v)

    def e_BinOp(self, e, env):
        a, b = self.eval(e.left, env), self.eval(e.right, env)
        return self.binop(e.op, a, b)

    def binop(self, op, a, b):
        if isinstance(a, Unknown) or isinstance(b, Unknown):
            u = a if isinstance(a, Unknown) else b
            raise EvalError(f"unknown operand ({u.why[:80]})")
        if isinstance(a, Arr) and isinstance(b, Arr) and a.isbool and b.isbool and isinstance(op, (ast.BitAnd, ast.BitOr, ast.BitXor)):
            f = {ast.BitAnd: lambda x, y: x * y, ast.BitOr: lambda x, y: x + y - x * y, ast.BitXor: lambda x, y: x + y - Dual(2) * x * y}[type(op)]
            return bc(a, b, f, isbool=True)
        if isinstance(a, (set, frozenset)) and isinstance(b, (set, frozenset)):
            if isinstance(op, ast.Sub):
                return a - b
            if isinstance(op, ast.BitOr):
                return a | b
            if isinstance(op, ast.BitAnd):
                return a & b
            if isinstance(op, ast.BitXor):
                return a ^ b
        if isinstance(op, ast.Mult) and isinstance(a, (list, tuple)) and isinstance(b, int) and not isinstance(b, bool):
            return a * b
        if isinstance(op, ast.Mult) and isinstance(b, (list, tuple)) and isinstance(a, int) and not isinstance(a, bool):
            return b * a
        if isinstance(op, ast.Add) and isinstance(a, list) and isinstance(b, list):
            return a + b
        if isinstance(op, ast.Add) and isinstance(a, tuple) and isinstance(b, tuple):
            return a + b
        if isinstance(op, ast.Add) and isinstance(a, str) and isinstance(b, str):
            return a + b
        if isinstance(op, ast.Mod) and isinstance(a, str):
            return a
        if isinstance(a, bool) and isinstance(b, bool) and isinstance(op, (ast.BitOr, ast.BitAnd, ast.BitXor)):
            return (a or b) if isinstance(op, ast.BitOr) else (a and b) if isinstance(op, ast.BitAnd) else (a != b)
        if isinstance(op, (ast.Mod, ast.FloorDiv)):
            def f(x, y):
                cx, cy = const_of(x), const_of(y)
                if cx is None or cy is None:
                    raise EvalError("// or % of symbolic values")
                if cy == 0:
                    raise EvalError("division by zero")
                r = (cx // cy) if isinstance(op, ast.FloorDiv) else (cx % cy)
                return r
            if isinstance(a, (int, Fraction)) and isinstance(b, (int, Fraction)) and not isinstance(a, bool) and not isinstance(b, bool):
                r = f(a, b)
                return int(r) if isinstance(a, int) and isinstance(b, int) else r
            a2, b2 = self.num(a), self.num(b)
            return bc(a2, b2, lambda x, y: Dual(f(x, y)))
        if isinstance(a, (int, Fraction)) and isinstance(b, (int, Fraction)) and not isinstance(a, bool) and not isinstance(b, bool):
            if isinstance(op, ast.Add):
                return a + b
            if isinstance(op, ast.Sub):
                return a - b
            if isinstance(op, ast.Mult):
                return a * b
            if isinstance(op, ast.Div):
                if b == 0:
                    raise EvalError("division by zero")
                return Fraction(a) / Fraction(b)
            if isinstance(op, ast.Pow) and isinstance(b, int):
                return Fraction(a) ** b if b < 0 else a ** b
        if isinstance(op, ast.MatMult):
            return self.matmul(self.num(a), self.num(b))
        if isinstance(op, ast.Pow):
            from optilint.tensoreval import d_pow
            a2 = self.num(a)
            k = b
            if isinstance(k, Arr):
                raise EvalError("array exponent")
            if isinstance(a2, Arr):
                return a2.map(lambda x: d_pow(x, k))
            return d_pow(a2, k)
        a2, b2 = self.num(a), self.num(b)
        f = {ast.Add: lambda x, y: x + y, ast.Sub: lambda x, y: x - y, ast.Mult: lambda x, y: x * y, ast.Div: lambda x, y: x / y}.get(type(op))
        if f is None:
            raise EvalError("binary op " + type(op).__name__)
        return bc(a2, b2, f)

    def matmul(self, a, b):
        if not isinstance(a, Arr) or not isinstance(b, Arr):
            raise EvalError("matmul of scalars")
        if a.ndim <= 2 and b.ndim <= 2:
            from optilint.tensoreval import matmul as mm
            return mm(a, b)
        if b.ndim == 1 or b.ndim == 2:      # batched left operand
            return stack_rows([self.matmul(r, b) for r in rows_of(a)])
        raise EvalError("matmul of higher-rank arrays")

    def compare(self, a, op, b):
        if isinstance(a, Unknown) or isinstance(b, Unknown):
            u = a if isinstance(a, Unknown) else b
            raise EvalError(f"comparison with an unknown value ({u.why[:100]})")
        if isinstance(op, (ast.In, ast.NotIn)):
            if hasattr(b, "optilint_contains"):
                r = b.optilint_contains(self, a)
            elif isinstance(b, (dict, set)):
                r = self.hashable(a) in b
            elif isinstance(b, Arr):
                ca = const_of(a) if not isinstance(a, Arr) else None
                if ca is None:
                    raise EvalError("membership of a symbolic value")
                cs = [const_of(x) for x in b.data]
                if any(c is None for c in cs):
                    raise EvalError("membership in a symbolic array")
                r = ca in cs
            elif isinstance(b, (list, tuple)):
                r = any(self._eq(a, x) for x in b)
            elif isinstance(b, str):
                r = a in b
            else:
                raise EvalError("membership test")
            return r if isinstance(op, ast.In) else not r
        if isinstance(op, (ast.Is, ast.IsNot)):
            r = (a is b) or (a is None and b is None) or (isinstance(a, bool) and isinstance(b, bool) and a == b)
            return r if isinstance(op, ast.Is) else not r
        if isinstance(a, (Arr, list)) or isinstance(b, (Arr, list)):
            if (a is None or b is None) or isinstance(a, (str, dict)) or isinstance(b, (str, dict)):
                return isinstance(op, ast.NotEq)
            if isinstance(a, list) and isinstance(b, list) and isinstance(op, (ast.Eq, ast.NotEq)):
                r = len(a) == len(b) and all(self._eq(x, y) for x, y in zip(a, b))
                return r if isinstance(op, ast.Eq) else not r
            a2, b2 = self.num(a), self.num(b)

            def cmp1(x, y):
                return Dual(1 if Interp.compare(self, x, op, y) else 0)
            return bc(a2, b2, cmp1, isbool=True)
        if isinstance(a, (dict, Record, tuple, set)) or isinstance(b, (dict, Record, tuple, set)):
            if isinstance(op, (ast.Eq, ast.NotEq)):
                r = self._eq(a, b)
                return r if isinstance(op, ast.Eq) else not r
            raise EvalError("ordering of containers")
        if isinstance(a, bool) and not isinstance(b, (bool, str, type(None))):
            a = int(a)
        if isinstance(b, bool) and not isinstance(a, (bool, str, type(None))):
            b = int(b)
        return super().compare(a, op, b)

    def _eq(self, a, b):
        if a is None or b is None:
            return a is None and b is None
        if isinstance(a, str) or isinstance(b, str):
            return a == b
        if isinstance(a, (tuple, list)) and isinstance(b, (tuple, list)):
            return len(a) == len(b) and all(self._eq(x, y) for x, y in zip(a, b))
        if isinstance(a, dict) or isinstance(b, dict) or isinstance(a, Record) or isinstance(b, Record):
            return a is b
        if self.is_numberlike(a) and self.is_numberlike(b) and not isinstance(a, Arr) and not isinstance(b, Arr):
            return Interp.compare(self, a, ast.Eq(), b)
        if isinstance(a, bool) and isinstance(b, bool):
            return a == b
        return a is b

    # ---- subscripts
    def eval_index(self, s, env):
        if isinstance(s, ast.Slice):
            f = lambda x: None if x is None else self._slice_bound(self.eval(x, env))
            return slice(f(s.lower), f(s.upper), f(s.step))
        if isinstance(s, ast.Tuple):
            return tuple(self.eval_index(x, env) for x in s.elts)
        v = self.eval(s, env)
        if isinstance(v, Ext) and v.name.split(".")[-1] == "newaxis":
            return None
        return v

    def _slice_bound(self, v):
        return None if v is None else self.as_int(v)

    def getitem(self, base, key):
        if isinstance(base, Unknown):
            raise EvalError(f"subscript of an unknown value ({base.why[:80]})")
        if hasattr(base, "optilint_getitem"):
            return base.optilint_getitem(self, key)
        if isinstance(base, Arr):
            r = arr_get(base, key)
            if isinstance(r, Arr) and not any(isinstance(k, (Arr, list)) for k in (key if isinstance(key, tuple) else (key,))):
                r._view = True          # numpy basic indexing returns a view: storing into it is not modelled (see assign)
            return r
        if isinstance(base, dict):
            k = self.hashable(key)
            if k not in base:
                import collections
                if isinstance(base, collections.defaultdict) and base.default_factory is not None:
                    return base[k]
                raise Raised(f"KeyError: {k!r}")
            return base[k]
        if isinstance(base, (tuple, list)):
            if isinstance(key, slice):
                return base[key]
            if isinstance(key, Arr) and key.ndim >= 1:
                return [base[i] for i in ints_of(key)]
            return base[self.as_int(key)]
        if isinstance(base, Record):
            if isinstance(key, slice):
                return tuple(base.values[key])
            return base.values[self.as_int(key)]
        if isinstance(base, AtProxy):
            return AtIndexed(base.arr, key)
        if isinstance(base, str):
            return base[key if isinstance(key, slice) else self.as_int(key)]
        return super().getitem(base, key)

    # ---- attributes
    def e_Attribute(self, e, env):
        base = self.eval(e.value, env)
        return self.attr_of(base, e.attr)

    def attr_of(self, base, a):
        if isinstance(base, Unknown):
            raise EvalError(f"attribute {a} of an unknown value ({base.why[:80]})")
        if hasattr(base, "optilint_attr"):
            return base.optilint_attr(self, a)
        if isinstance(base, Instance):
            return self.instance_attr(base, a)
        if isinstance(base, bytes):
            return ("method", base, a)
        if isinstance(base, Arr):
            if a == "T":
                return transpose(base, list(reversed(range(base.ndim)))) if base.ndim != 2 else base.T()
            if a == "ndim":
                return base.ndim
            if a == "dtype":
                return Ext("dtype:bool" if base.isbool else "dtype:number")
            if a in ("shape", "size", "at"):
                pass
            else:
                return ("method", base, a)
        if isinstance(base, Dual):
            if a == "shape":
                return ()
            if a in ("item", "astype", "copy"):
                return ("method", base, a)
        if isinstance(base, tuple) and len(base) == 2 and base[0] == "module":
            return self.module_value(base[1], a)
        if isinstance(base, (list, dict, set, str, tuple)):
            return ("method", base, a)
        if isinstance(base, Record):
            if a in ("_replace", "_asdict", "_fields") and a not in base.fields:
                if a == "_fields":
                    return tuple(base.fields)
                return ("method", base, a)
        if isinstance(base, Closure) and a == "__name__":
            return base.name
        env = Env(None, None)
        env.vars["__b"] = base
        return Interp.e_Attribute(self, ast.Attribute(value=_NAME("__b"), attr=a, ctx=ast.Load()), env)

    def class_member(self, csc, a):
        for c in csc.children:
            if c.kind == "function" and c.name == a:
                return c
        return None

    def instance_attr(self, inst, a):
        if a in inst.attrs:
            return inst.attrs[a]
        csc = inst.cls
        m = self.class_member(csc, a)
        if m is not None:
            decos = [norm_src(d) for d in m.node.decorator_list]
            cl = Closure(m, self.module_env(m.module))
            if "property" in decos:
                return self.call_closure(cl, [inst], {})
            if "staticmethod" in decos:
                return cl
            return Partial(cl, [inst], {})
        bs = csc.bindings.get(a)
        if bs and bs[-1].kind == "assign" and bs[-1].value is not None and not bs[-1].index:
            return self.eval(bs[-1].value, self.module_env(csc.module))
        raise EvalError(f"attribute {a} of {inst!r}")

    def instantiate(self, csc, args, kwargs):
        init = self.class_member(csc, "__init__")
        fields = [(st.target.id, st.value) for st in csc.node.body if isinstance(st, ast.AnnAssign) and isinstance(st.target, ast.Name)]
        if init is None:
            if not fields and (args or kwargs):
                raise EvalError(f"class {csc.name} without __init__ called with arguments")
            if fields:
                names = [f for f, _ in fields]
                if len(args) > len(names):
                    raise EvalError(f"too many fields for {csc.name}")
                given = dict(zip(names, args))
                for k, v in kwargs.items():
                    if k not in names or k in given:
                        raise EvalError(f"bad field {k} of {csc.name}")
                    given[k] = v
                vals = []
                for f, dflt in fields:
                    if f in given:
                        vals.append(given[f])
                    elif dflt is not None:
                        vals.append(self.eval(dflt, self.module_env(csc.module)))
                    else:
                        vals.append(None)
                return Record(csc.name, names, vals, cls=csc)
            return Instance(csc)
        inst = Instance(csc)
        self.call_closure(Closure(init, self.module_env(init.module)), [inst] + list(args), kwargs)
        return inst

    # ---- calls
    def e_Call(self, e, env):
        f = self.eval(e.func, env)
        args = []
        for a in e.args:
            if isinstance(a, ast.Starred):
                args += list(self.iterate(self.eval(a.value, env)))
            else:
                args.append(self.eval(a, env))
        kwargs = {}
        for k in e.keywords:
            if k.arg:
                kwargs[k.arg] = self.eval(k.value, env)
            else:
                kwargs.update(self.eval(k.value, env))
        return self.call(f, args, kwargs)

    def call(self, f, args, kwargs):
        if isinstance(f, Unknown):
            raise EvalError(f"call of an unknown value ({f.why[:80]})")
        if isinstance(f, Partial):
            kw = dict(f.kwargs)
            kw.update(kwargs)
            return self.call(f.fn, f.args + list(args), kw)
        if isinstance(f, VmapFn):
            return self.call_vmap(f, args, kwargs)
        if isinstance(f, Vmapped):
            return self.call_vmap(VmapFn(f.fn), args, kwargs)
        if isinstance(f, NamedTupleVal):
            vals = list(args) + [None] * (len(f.fields) - len(args))
            if len(args) > len(f.fields):
                raise EvalError(f"too many fields for {f.name}")
            for k, v in kwargs.items():
                if k not in f.fields:
                    raise EvalError(f"unknown field {k} of {f.name}")
                vals[f.fields.index(k)] = v
            return Record(f.name, f.fields, vals)
        return super().call(f, args, kwargs)

    def call_closure(self, f, args, kwargs):
        q = f.scope.qualname
        if q in self.special:
            return self.special[q](self, args, kwargs)
        sc = f.scope
        self.depth += 1
        if self.depth > self.max_depth:
            self.depth -= 1
            raise EvalError("recursion too deep")
        try:
            self.visited.add(q)
            env = Env(sc, f.env)
            ps = sc.params()
            a = sc.node.args
            args = list(args)
            if len(args) > len(ps):
                if a.vararg is None:
                    raise EvalError(f"too many arguments for {q}")
                env.vars[a.vararg.arg] = tuple(args[len(ps):])
                args = args[:len(ps)]
            elif a.vararg is not None:
                env.vars[a.vararg.arg] = ()
            for p, v in zip(ps, args):
                env.vars[p] = v
            extra = {}
            names = set(ps) | set(sc.kwonly())
            for k, v in kwargs.items():
                if k in names:
                    if k in env.vars and k in ps[:len(args)]:
                        raise EvalError(f"argument {k} of {q} given twice")
                    env.vars[k] = v
                elif a.kwarg is not None:
                    extra[k] = v
                else:
                    raise EvalError(f"unexpected keyword {k} for {q}")
            if a.kwarg is not None:
                env.vars[a.kwarg.arg] = extra
            for p in ps + sc.kwonly():
                if p not in env.vars:
                    d = sc.default_of(p)
                    if d is None:
                        raise EvalError(f"missing argument {p} of {q}")
                    env.vars[p] = self.eval(d, f.env)
            if sc.kind == "lambda":
                return self.eval(sc.node.body, env)
            try:
                self.block(sc.node.body, env)
            except ReturnSignal as r:
                return r.value
            return None
        finally:
            self.depth -= 1

    # ---- vmap
    def _tree_map_leading(self, v, i):
        if isinstance(v, Arr):
            if v.ndim == 0:
                raise EvalError("vmap over a 0-d array")
            return rows_of(v)[i]
        if isinstance(v, tuple):
            return tuple(self._tree_map_leading(x, i) for x in v)
        if isinstance(v, list):
            return [self._tree_map_leading(x, i) for x in v]
        if isinstance(v, Record):
            return Record(v.tname, v.fields, [self._tree_map_leading(x, i) for x in v.values], cls=v.cls)
        if v is None or isinstance(v, Opaque):
            return v
        raise EvalError(f"vmap over {v!r}")

    def _tree_len(self, v):
        if isinstance(v, Arr):
            if v.ndim == 0:
                raise EvalError("vmap over a 0-d array")
            return [v.shape[0]]
        if isinstance(v, (tuple, list)):
            return [n for x in v for n in self._tree_len(x)]
        if isinstance(v, Record):
            return [n for x in v.values for n in self._tree_len(x)]
        return []

    def _tree_stack(self, outs):
        o0 = outs[0]
        if isinstance(o0, tuple):
            return tuple(self._tree_stack([o[k] for o in outs]) for k in range(len(o0)))
        if isinstance(o0, list):
            return [self._tree_stack([o[k] for o in outs]) for k in range(len(o0))]
        if isinstance(o0, Record):
            return Record(o0.tname, o0.fields, [self._tree_stack([o.values[k] for o in outs]) for k in range(len(o0.values))], cls=o0.cls)
        if o0 is None:
            return None
        return stack_rows([self.num(o) for o in outs])

    def call_vmap(self, f, args, kwargs):
        ia = f.in_axes
        if isinstance(ia, (list, tuple)):
            ia = list(ia)
            if len(ia) != len(args):
                raise EvalError("vmap: in_axes does not match the arguments")
        else:
            ia = [ia] * len(args)
        axes = []
        for x in ia:
            if x is None:
                axes.append(None)
            else:
                ax = self.as_int(x)
                if ax != 0:
                    raise EvalError("vmap over a non-leading axis")
                axes.append(0)
        if f.out_axes not in (0, None) and self.as_int(f.out_axes) != 0:
            raise EvalError("vmap with out_axes")
        lens = set()
        for a, ax in zip(args, axes):
            if ax is not None:
                lens.update(self._tree_len(a))
        for v in kwargs.values():
            lens.update(self._tree_len(v))
        if len(lens) != 1:
            raise EvalError(f"vmap: mapped axes have lengths {sorted(lens)}")
        k = lens.pop()
        if k == 0:
            raise EvalError("vmap over an empty axis")
        outs = []
        for i in range(k):
            ai = [self._tree_map_leading(a, i) if ax is not None else a for a, ax in zip(args, axes)]
            kw = {kk: self._tree_map_leading(v, i) for kk, v in kwargs.items()}
            outs.append(self.call(f.fn, ai, kw))
        return self._tree_stack(outs)

    # ---- methods of values
    def call_method(self, base, name, args, kwargs):
        if isinstance(base, Arr):
            return self.arr_method(base, name, args, kwargs)
        if isinstance(base, Dual):
            if name in ("item", "copy"):
                return base
            if name == "astype":
                return self._astype(base, args[0] if args else kwargs.get("dtype"))
        if isinstance(base, list):
            if name == "append":
                base.append(args[0])
                return None
            if name == "extend":
                base.extend(self.iterate(args[0]))
                return None
            if name == "reverse":
                base.reverse()
                return None
            if name == "copy":
                return list(base)
            if name == "index":
                for i, x in enumerate(base):
                    if self._eq(x, args[0]):
                        return i
                raise EvalError("list.index: not found")
            if name == "pop":
                return base.pop(*[self.as_int(a) for a in args])
            if name == "insert":
                base.insert(self.as_int(args[0]), args[1])
                return None
            if name == "count":
                return sum(1 for x in base if self._eq(x, args[0]))
        if isinstance(base, tuple):
            if name == "index":
                for i, x in enumerate(base):
                    if self._eq(x, args[0]):
                        return i
                raise EvalError("tuple.index: not found")
            if name == "count":
                return sum(1 for x in base if self._eq(x, args[0]))
        if isinstance(base, dict):
            if name == "get":
                return base.get(self.hashable(args[0]), args[1] if len(args) > 1 else None)
            if name == "items":
                return list(base.items())
            if name == "keys":
                return list(base.keys())
            if name == "values":
                return list(base.values())
            if name == "setdefault":
                return base.setdefault(self.hashable(args[0]), args[1] if len(args) > 1 else None)
            if name == "update":
                for a in args:
                    base.update(a if isinstance(a, dict) else {self.hashable(k): v for k, v in self.iterate(a)})
                base.update(kwargs)
                return None
            if name == "copy":
                return dict(base)
            if name == "pop":
                k = self.hashable(args[0])
                if k in base:
                    return base.pop(k)
                if len(args) > 1:
                    return args[1]
                raise EvalError("dict.pop: missing key")
        if isinstance(base, bytes):
            if name == "join":
                parts = list(self.iterate(args[0]))
                if not all(isinstance(x, bytes) for x in parts):
                    raise EvalError("bytes.join of non-bytes")
                return base.join(parts)
            if name == "decode":
                return base.decode("utf-8")
            if name in ("strip", "rstrip", "lstrip") and not args:
                return getattr(base, name)()
        if isinstance(base, (set, frozenset)):
            if name == "add":
                base.add(self.hashable(args[0]))
                return None
            if name in ("union", "intersection", "difference", "symmetric_difference", "issubset", "issuperset", "isdisjoint"):
                return getattr(base, name)(*[set(self.hashable(x) for x in self.iterate(a)) for a in args])
            if name == "update":
                for a in args:
                    base.update(self.hashable(x) for x in self.iterate(a))
                return None
            if name in ("discard", "remove"):
                base.discard(self.hashable(args[0]))
                return None
            if name == "copy":
                return set(base)
        if isinstance(base, str):
            if name in ("lower", "upper", "strip", "rstrip", "lstrip") and not args:
                return getattr(base, name)()
            if name in ("startswith", "endswith"):
                return getattr(base, name)(*args)
            if name == "format":
                return base
            if name in ("split", "replace", "join"):
                return getattr(base, name)(*args)
        if isinstance(base, Record):
            if name == "_replace":
                if args:
                    raise EvalError("_replace with positional arguments")
                vals = list(base.values)
                for k, v in kwargs.items():
                    if k not in base.fields:
                        raise EvalError(f"_replace: unknown field {k}")
                    vals[base.fields.index(k)] = v
                return Record(base.tname, base.fields, vals, cls=base.cls)
            if name == "_asdict":
                return dict(zip(base.fields, base.values))
        if isinstance(base, AtIndexed):
            arr = base.arr
            if name == "get":
                return arr_get(arr, base.key)
            if name in ("set", "add"):
                return arr_set(arr, base.key, args[0] if isinstance(args[0], (Arr, bool, list, tuple)) else self.num(args[0]), add=(name == "add"))
            if name in ("multiply", "mul"):
                cur = arr_get(arr, base.key)
                return arr_set(arr, base.key, self.binop(ast.Mult(), cur, args[0]))
        return super().call_method(base, name, args, kwargs)

    def _astype(self, v, dt):
        kind = dt.name.split(".")[-1] if isinstance(dt, Ext) else str(dt)
        if "int" in kind:
            def f(x):
                c = const_of(x)
                if c is None:
                    raise EvalError("astype(int) of a symbolic value")
                return Dual(int(c))         # truncation toward zero, as numpy
            return v.map(f) if isinstance(v, Arr) else f(v)
        if "bool" in kind:
            def g(x):
                c = const_of(x)
                if c is None:
                    raise EvalError("astype(bool) of a symbolic value")
                return Dual(1 if c != 0 else 0)
            return Arr([g(x) for x in v.data], v.shape, isbool=True) if isinstance(v, Arr) else g(v)
        if isinstance(v, Arr) and v.isbool:
            return Arr(list(v.data), v.shape)
        return v

    def arr_method(self, a, name, args, kwargs):
        if name in ("ravel", "flatten"):
            return Arr(list(a.data), (a.size(),), isbool=a.isbool)
        if name == "reshape":
            shp = args[0] if len(args) == 1 and isinstance(args[0], (tuple, list)) else tuple(args)
            r = a.reshape([self.as_int(s) for s in shp])
            r.isbool = a.isbool
            return r
        if name == "copy":
            return Arr(list(a.data), a.shape, isbool=a.isbool)
        if name == "astype":
            return self._astype(a, args[0] if args else kwargs.get("dtype"))
        if name == "take":
            axis = kwargs.get("axis", args[1] if len(args) > 1 else None)
            return self.np_call("take", [a, args[0]], {"axis": axis})
        if name == "tolist":
            def tl(x):
                return [tl(r) for r in rows_of(x)] if isinstance(x, Arr) else x
            return tl(a)
        if name == "item":
            if a.size() != 1:
                raise EvalError("item() of an array")
            return a.data[0]
        if name == "filled":
            return a
        if name == "transpose" and not args:
            return self.attr_of(a, "T")
        if name in ("dot", "sum", "all", "any", "min", "max", "mean", "prod", "cumsum", "argsort", "nonzero", "squeeze", "repeat", "argmax", "argmin"):
            return self.np_call(name, [a] + list(args), kwargs)
        if name == "sort":
            raise EvalError("in-place sort")
        if name == "set_auto_mask":
            return None
        raise EvalError(f"array method {name}")

    # ---- external functions
    def call_ext(self, name, args, kwargs):
        if name in self.ext_special:
            return self.ext_special[name](self, args, kwargs)
        last = name.split(".")[-1]
        if name.startswith("class:"):
            csc = self.repo.find(name[len("class:"):])
            if csc is not None and csc.kind == "class":
                return self.instantiate(csc, args, kwargs)
        if name.startswith("builtins."):
            r = self.builtin(last, args, kwargs)
            if r is not NotImplemented:
                return r
        if name == "functools.partial":
            return Partial(args[0], args[1:], kwargs)
        if name == "collections.defaultdict":
            import collections
            fac = args[0] if args else None
            d = collections.defaultdict((lambda: self.call(fac, [], {})) if fac is not None else None)
            for a in args[1:]:
                d.update(a)
            return d
        if name in ("collections.OrderedDict",):
            return self.builtin("dict", args, kwargs)
        if name in ("functools.reduce",):
            xs = list(self.iterate(args[1]))
            acc = args[2] if len(args) > 2 else xs.pop(0)
            for x in xs:
                acc = self.call(args[0], [acc, x], {})
            return acc
        if name in ("itertools.product",):
            return [tuple(t) for t in itertools.product(*[self.iterate(a) for a in args])]
        if name in ("itertools.chain",):
            return [x for a in args for x in self.iterate(a)]
        if name in ("itertools.chain.from_iterable",):
            return [x for a in self.iterate(args[0]) for x in self.iterate(a)]
        if name in ("itertools.accumulate",):
            out = []
            for x in self.iterate(args[0]):
                out.append(x if not out else (self.call(args[1], [out[-1], x], {}) if len(args) > 1 else self.binop(ast.Add(), out[-1], x)))
            return out
        if name in ("operator.itemgetter",):
            ks = list(args)
            return PyFunc("itemgetter", lambda it, a, k: it.getitem(a[0], ks[0]) if len(ks) == 1 else tuple(it.getitem(a[0], q) for q in ks))
        if name in ("math.factorial", "math.comb"):
            vs = [self.as_int(a) for a in args]
            return getattr(math, last)(*vs)
        if name in ("jax.vmap",):
            ia = args[1] if len(args) > 1 else kwargs.get("in_axes", 0)
            oa = args[2] if len(args) > 2 else kwargs.get("out_axes", 0)
            return VmapFn(args[0], ia, oa)
        if name in ("jax.jit", "jax.checkpoint", "jax.named_call"):
            return args[0]
        if name in ("math.ceil", "math.floor"):
            c = const_of(args[0])
            if c is None:
                raise EvalError(f"{name} of a symbolic value")
            return math.ceil(c) if last == "ceil" else math.floor(c)
        if name == "math.sqrt":
            return d_fun("sqrt", self.num(args[0]))
        if name in ("math.pi",):
            return Dual(_A.atom("pi"))
        if name in ("jax.scipy.linalg.solve", "scipy.linalg.solve", "jax.numpy.linalg.solve", "numpy.linalg.solve"):
            return self._solve(self.num(args[0]), self.num(args[1]))
        if name in ("jax.lax.switch",):
            # lax.switch(index, branches, *operands): the index is clamped into the range of the branch list (documented semantics);
            # only a concrete index is followed; a clamped selection is recorded (a derived fact the caller may want to know)
            idx = args[0] if args else kwargs.get("index")
            brs = args[1] if len(args) > 1 else kwargs.get("branches")
            ops = list(args[2:]) + ([kwargs["operand"]] if "operand" in kwargs else [])
            if isinstance(idx, Arr) and idx.size() == 1:
                idx = idx.data[0]
            c = const_of(idx)
            if c is None or isinstance(idx, bool) or Fraction(c).denominator != 1:
                raise EvalError("lax.switch on an index that is not a concrete integer")
            brs = list(self.iterate(brs))
            if not brs:
                raise Raised("lax.switch: empty branch list")
            k = int(c)
            kk = min(max(k, 0), len(brs) - 1)
            if kk != k:
                self.__dict__.setdefault("switch_clamped", []).append((k, len(brs)))
            return self.call(brs[kk], ops, {})
        if name in ("jax.lax.cond",):
            pred = args[0] if args else kwargs.get("pred")
            c = const_of(pred)
            if c is None:
                raise EvalError("lax.cond on a predicate that is not concrete")
            tf, ff = args[1], args[2]
            return self.call(tf if c else ff, list(args[3:]), {})
        if name in ("jax.lax.dynamic_slice", ):
            raise EvalError(name)
        if name == "jax.numpy.ndarray" or name == "numpy.ndarray":
            raise EvalError(name)
        return super().call_ext(name, args, kwargs)

    def builtin(self, last, args, kwargs):
        if last == "enumerate":
            start = self.as_int(args[1] if len(args) > 1 else kwargs.get("start", 0))
            return [(start + i, x) for i, x in enumerate(self.iterate(args[0]))]
        if last == "zip":
            return [tuple(t) for t in zip(*[self.iterate(a) for a in args])]
        if last == "range":
            return list(range(*[self.as_int(a) for a in args]))
        if last == "len":
            a = args[0]
            if isinstance(a, Arr):
                if a.ndim == 0:
                    raise EvalError("len of a 0-d array")
                return a.shape[0]
            if isinstance(a, Record):
                sc = a.cls
                if sc is not None:
                    for c in sc.children:
                        if c.kind == "function" and c.name == "__len__":
                            return self.as_int(self.call_closure(Closure(c, self.module_env(c.module)), [a], {}))
                return len(a.values)
            if isinstance(a, (list, tuple, dict, str, set, bytes)):
                return len(a)
            if hasattr(a, "optilint_len"):
                return a.optilint_len(self)
            raise EvalError(f"len of {a!r}")
        if last == "dict":
            out = {}
            if args:
                a = args[0]
                if isinstance(a, dict):
                    out.update(a)
                else:
                    for kv in self.iterate(a):
                        k, v = self.iterate(kv) if not isinstance(kv, tuple) else kv
                        out[self.hashable(k)] = v
            out.update(kwargs)
            return out
        if last == "list":
            return list(self.iterate(args[0])) if args else []
        if last == "tuple":
            return tuple(self.iterate(args[0])) if args else ()
        if last == "set":
            return set(self.hashable(x) for x in self.iterate(args[0])) if args else set()
        if last == "reversed":
            return list(reversed(self.iterate(args[0])))
        if last == "sorted":
            xs = self.iterate(args[0])
            keyf = kwargs.get("key")

            def k(v):
                c = const_of(v)
                if c is not None:
                    return (0, c)
                if isinstance(v, str):
                    return (1, v)
                if isinstance(v, tuple):
                    return (2, tuple(k(x) for x in v))
                raise EvalError("sorted of symbolic values")
            out = sorted(xs, key=(lambda v: k(self.hashable(self.call(keyf, [v], {})))) if keyf is not None else (lambda v: k(self.hashable(v) if isinstance(v, (Arr, list)) else v)))
            return list(reversed(out)) if kwargs.get("reverse") else out
        if last == "int":
            if not args:
                return 0
            v = args[0]
            if isinstance(v, str):
                return int(v)
            c = const_of(v if not (isinstance(v, Arr) and v.size() == 1) else v.data[0])
            if c is None:
                raise EvalError("int() of a symbolic value")
            return int(c)
        if last == "float":
            v = args[0]
            if isinstance(v, Arr) and v.size() == 1:
                return v.data[0]
            if isinstance(v, int) and not isinstance(v, bool):
                return Fraction(v)
            return v
        if last == "bool":
            return self.truth(args[0])
        if last == "str":
            v = args[0]
            c = const_of(v)
            if c is not None and c.denominator == 1 and not isinstance(v, (bool, float)):
                return str(int(c))
            if isinstance(v, str):
                return v
            raise EvalError("str() of a non-integer")
        if last == "abs":
            v = self.num(args[0])
            return v.map(lambda x: d_fun("abs", x)) if isinstance(v, Arr) else d_fun("abs", v)
        if last == "sum":
            xs = self.iterate(args[0])
            acc = args[1] if len(args) > 1 else 0
            for x in xs:
                acc = self.binop(ast.Add(), acc, x)
            return acc
        if last in ("min", "max"):
            xs = self.iterate(args[0]) if len(args) == 1 else list(args)
            if not xs:
                raise EvalError(f"{last} of an empty sequence")
            best = xs[0]
            for x in xs[1:]:
                lt = self.compare(x, ast.Lt(), best)
                if (last == "min") == bool(lt):
                    best = x
            return best
        if last == "all":
            return all(self.truth(x) for x in self.iterate(args[0]))
        if last == "any":
            return any(self.truth(x) for x in self.iterate(args[0]))
        if last == "isinstance":
            v, t = args
            ts = list(t) if isinstance(t, tuple) else [t]
            names = [x.name.split(".")[-1] if isinstance(x, Ext) else None for x in ts]
            if any(n_ is None for n_ in names):
                raise EvalError("isinstance with a non-builtin class")
            py = {"int": lambda x: (isinstance(x, int) and not isinstance(x, bool)), "float": lambda x: isinstance(x, (float, Fraction)), "str": lambda x: isinstance(x, str),
                  "bool": lambda x: isinstance(x, bool), "list": lambda x: isinstance(x, list), "tuple": lambda x: isinstance(x, tuple), "dict": lambda x: isinstance(x, dict),
                  "set": lambda x: isinstance(x, set), "ndarray": lambda x: isinstance(x, Arr), "Array": lambda x: isinstance(x, Arr)}
            if isinstance(v, Dual) or any(n_ not in py for n_ in names):
                raise EvalError("isinstance of a symbolic number / unmodelled class")
            return any(py[n_](v) for n_ in names)
        if last == "map":
            seqs = [self.iterate(a) for a in args[1:]]
            return [self.call(args[0], list(t), {}) for t in zip(*seqs)]
        if last == "filter":
            return [x for x in self.iterate(args[1]) if self.truth(self.call(args[0], [x], {}) if args[0] is not None else x)]
        if last == "frozenset":
            return frozenset(self.hashable(x) for x in self.iterate(args[0])) if args else frozenset()
        if last == "print":
            return None
        if last == "slice":
            return slice(*[None if a is None else self.as_int(a) for a in args])
        if last == "divmod":
            return (self.binop(ast.FloorDiv(), args[0], args[1]), self.binop(ast.Mod(), args[0], args[1]))
        if last == "round":
            c = const_of(args[0])
            if c is None:
                raise EvalError("round of a symbolic value")
            return round(c)
        return NotImplemented

    # ---- numpy / jax.numpy
    def _shape_arg(self, shp):
        if isinstance(shp, (tuple, list)):
            return tuple(self.as_int(s) for s in shp)
        if isinstance(shp, Arr) and shp.ndim == 1:
            return tuple(ints_of(shp))
        return (self.as_int(shp),)

    def _seq(self, a):
        """argument of the stack family: a python sequence of arrays or an array whose rows are stacked"""
        if isinstance(a, Arr):
            return rows_of(a)
        return [self.num(x) for x in self.iterate(a)]

    def _axis(self, args, kwargs, pos=1, default=None):
        ax = kwargs.get("axis", args[pos] if len(args) > pos else default)
        return None if ax is None else self.as_int(ax)

    def _reduce(self, a, axis, f, isbool=False):
        a = self.num(a)
        if not isinstance(a, Arr):
            return f([a])
        if axis is None:
            return f(list(a.data))
        fr = moveaxis_to_front(a, axis)
        k = fr.shape[0]
        rest = fr.shape[1:]
        n = prod(rest)
        out = [f([fr.data[i * n + j] for i in range(k)]) for j in range(n)]
        if rest == ():
            return out[0]
        return Arr([D(x) for x in out], rest, isbool=isbool)

    def np_call(self, fn, args, kwargs):
        if fn in ("shape", "ndim", "size") and len(args) == 1 and not kwargs:
            a0 = args[0]
            a0 = self.num(a0) if not isinstance(a0, Arr) else a0
            if isinstance(a0, Arr):
                return tuple(a0.shape) if fn == "shape" else (a0.ndim if fn == "ndim" else a0.size())
            return () if fn == "shape" else (0 if fn == "ndim" else 1)
        n = self.num
        if fn in ("zeros", "ones", "empty"):
            shp = self._shape_arg(args[0] if args else kwargs["shape"])
            isb = self._is_bool_dtype(kwargs.get("dtype", args[1] if len(args) > 1 else None))
            return Arr([Dual(1 if fn == "ones" else 0)] * prod(shp), shp, isbool=isb)
        if fn in ("zeros_like", "ones_like"):
            x = n(args[0])
            if not isinstance(x, Arr):
                return Dual(0 if fn == "zeros_like" else 1)
            return Arr([Dual(0 if fn == "zeros_like" else 1)] * len(x.data), x.shape, isbool=x.isbool and "dtype" not in kwargs)
        if fn == "full":
            shp = self._shape_arg(args[0])
            v = args[1] if len(args) > 1 else kwargs["fill_value"]
            if isinstance(v, bool):
                return Arr([Dual(1 if v else 0)] * prod(shp), shp, isbool=True)
            return Arr([n(v)] * prod(shp), shp)
        if fn == "full_like":
            x = n(args[0])
            v = args[1]
            if isinstance(v, bool):
                return Arr([Dual(1 if v else 0)] * len(x.data), x.shape, isbool=True)
            return Arr([n(v)] * len(x.data), x.shape)
        if fn in ("array", "asarray", "copy", "ascontiguousarray"):
            a = args[0]
            if isinstance(a, Arr):
                isb = self._is_bool_dtype(kwargs.get("dtype"))
                if "dtype" in kwargs and a.isbool and not isb:
                    return Arr(list(a.data), a.shape)
                return a
            if isinstance(a, bool):
                return Arr([Dual(1 if a else 0)], (), isbool=True)
            if isinstance(a, (list, tuple)):
                def conv(x):
                    if isinstance(x, (list, tuple)):
                        return [conv(y) for y in x]
                    if isinstance(x, bool):
                        return Dual(1 if x else 0)
                    if isinstance(x, Arr):
                        return x
                    return n(x)
                flat_bool = all(isinstance(x, bool) for x in a) and len(a) > 0
                r = Arr.from_nested(conv(a))
                if flat_bool:
                    r.isbool = True
                self._check_rect(a)
                return r
            return n(a)
        if fn == "arange":
            vals = [self._num_const(a) for a in args]
            if any(v.denominator != 1 for v in vals):
                raise EvalError("arange with non-integer arguments")
            r = range(*[int(v) for v in vals])
            return int_arr(r)
        if fn == "linspace":
            lo, hi = n(args[0]), n(args[1])
            k = self.as_int(args[2] if len(args) > 2 else kwargs.get("num", 50))
            if k == 1:
                return Arr([lo], (1,))
            return Arr([lo + (hi - lo) * Dual(Fraction(i, k - 1)) for i in range(k)], (k,))
        if fn in ("vstack", "row_stack"):
            parts = [p if isinstance(p, Arr) and p.ndim >= 2 else (p.reshape((1, p.size())) if isinstance(p, Arr) else Arr([D(p)], (1, 1))) for p in self._seq(args[0])]
            return concat(parts, 0)
        if fn == "hstack":
            parts = [p if isinstance(p, Arr) and p.ndim >= 1 else Arr([D(p)], (1,)) for p in self._seq(args[0])]
            return concat(parts, 0 if parts and parts[0].ndim == 1 else 1)
        if fn == "column_stack":
            parts = []
            for p in self._seq(args[0]):
                if not isinstance(p, Arr):
                    p = Arr([D(p)], (1,))
                parts.append(p.reshape((p.shape[0], 1)) if p.ndim == 1 else p)
            return concat(parts, 1)
        if fn in ("concatenate", "append"):
            if fn == "append":
                seq = [n(args[0]), n(args[1])]
                ax = self._axis(args, kwargs, 2, None)
                if ax is None:
                    seq = [Arr(list(s.data), (s.size(),)) if isinstance(s, Arr) else Arr([s], (1,)) for s in seq]
                    ax = 0
            else:
                seq = self._seq(args[0])
                ax = self._axis(args, kwargs, 1, 0)
            return concat(seq, ax)
        if fn == "stack":
            seq = self._seq(args[0])
            ax = self._axis(args, kwargs, 1, 0)
            st = stack_rows(seq)
            return move_front_to(st, ax if ax >= 0 else ax + st.ndim)
        if fn == "tile":
            a = n(args[0])
            reps = args[1] if len(args) > 1 else kwargs["reps"]
            reps = tuple(self.as_int(r) for r in reps) if isinstance(reps, (tuple, list)) else (self.as_int(reps),)
            if not isinstance(a, Arr):
                a = Arr([a], (1,))
            while a.ndim < len(reps):
                a = a.reshape((1,) + tuple(a.shape))
            reps = (1,) * (a.ndim - len(reps)) + reps
            for ax, r in enumerate(reps):
                a = concat([a] * r, ax) if r != 1 else a
            return a
        if fn == "repeat":
            a = n(args[0])
            r = self.as_int(args[1] if len(args) > 1 else kwargs["repeats"])
            ax = self._axis(args, kwargs, 2, None)
            if ax is None:
                flat = a.data if isinstance(a, Arr) else [a]
                return Arr([x for x in flat for _ in range(r)], (len(flat) * r,))
            fr = moveaxis_to_front(a, ax)
            return move_front_to(stack_rows([row for row in rows_of(fr) for _ in range(r)]), ax)
        if fn == "broadcast_to":
            return broadcast_to(n(args[0]), self._shape_arg(args[1] if len(args) > 1 else kwargs["shape"]))
        if fn in ("reshape",):
            a = n(args[0])
            r = a.reshape(self._shape_arg(args[1] if len(args) > 1 else kwargs.get("newshape", kwargs.get("shape"))))
            r.isbool = a.isbool
            return r
        if fn == "ravel":
            a = n(args[0])
            return Arr(list(a.data), (a.size(),), isbool=a.isbool)
        if fn == "squeeze":
            a = n(args[0])
            return Arr(list(a.data), tuple(s for s in a.shape if s != 1), isbool=a.isbool)
        if fn == "expand_dims":
            a = n(args[0])
            ax = self._axis(args, kwargs, 1)
            if ax < 0:
                ax += a.ndim + 1
            return Arr(list(a.data), tuple(a.shape[:ax]) + (1,) + tuple(a.shape[ax:]), isbool=a.isbool)
        if fn == "atleast_1d":
            a = n(args[0])
            return a if isinstance(a, Arr) and a.ndim >= 1 else Arr([a.data[0] if isinstance(a, Arr) else a], (1,))
        if fn == "atleast_2d":
            a = n(args[0])
            if not isinstance(a, Arr) or a.ndim == 0:
                return Arr([a.data[0] if isinstance(a, Arr) else a], (1, 1))
            return a if a.ndim >= 2 else a.reshape((1, a.shape[0]))
        if fn == "transpose":
            a = n(args[0])
            perm = args[1] if len(args) > 1 else kwargs.get("axes")
            return transpose(a, [self.as_int(p) for p in perm] if perm is not None else list(reversed(range(a.ndim))))
        if fn in ("swapaxes",):
            a = n(args[0])
            i, j = self.as_int(args[1]), self.as_int(args[2])
            perm = list(range(a.ndim))
            perm[i], perm[j] = perm[j], perm[i]
            return transpose(a, perm)
        if fn == "take":
            a = n(args[0])
            idx = args[1] if len(args) > 1 else kwargs["indices"]
            ax = self._axis(args, kwargs, 2, None)
            if ax is None:
                a = Arr(list(a.data), (a.size(),))
                ax = 0
            key = (slice(None),) * (ax if ax >= 0 else ax + a.ndim) + (idx if isinstance(idx, Arr) or not isinstance(idx, (list, tuple)) else int_arr(ints_of(idx)),)
            return arr_get(a, key)
        if fn == "flip":
            a = n(args[0])
            ax = self._axis(args, kwargs, 1, None)
            axes = range(a.ndim) if ax is None else [ax]
            for x in axes:
                fr = moveaxis_to_front(a, x)
                a = move_front_to(stack_rows(list(reversed(rows_of(fr))), isbool=a.isbool), x)
            return a
        if fn in ("fliplr", "flipud"):
            return self.np_call("flip", [args[0]], {"axis": 1 if fn == "fliplr" else 0})
        if fn == "roll":
            a = n(args[0])
            k = self.as_int(args[1])
            ax = self._axis(args, kwargs, 2, None)
            if ax is None:
                if a.ndim != 1:
                    raise EvalError("roll of a multi-dimensional array without axis")
                ax = 0
            fr = moveaxis_to_front(a, ax)
            rs = rows_of(fr)
            k %= len(rs) if rs else 1
            return move_front_to(stack_rows(rs[-k:] + rs[:-k] if k else rs), ax)
        if fn in ("sum", "prod", "mean", "max", "min", "amax", "amin", "all", "any", "count_nonzero"):
            ax = self._axis(args, kwargs, 1, None)
            a = args[0]
            if isinstance(a, (list, tuple)):
                a = self.np_call("array", [a], {})

            def red(xs):
                if fn == "sum":
                    return sum_d(xs)
                if fn == "prod":
                    p = Dual(1)
                    for x in xs:
                        p = p * x
                    return p
                if fn == "mean":
                    if not xs:
                        raise EvalError("mean of an empty array")
                    return sum_d(xs) / Dual(len(xs))
                cs = [const_of(x) for x in xs]
                if any(c is None for c in cs):
                    raise EvalError(f"{fn} of symbolic values")
                if fn in ("max", "amax", "min", "amin"):
                    if not cs:
                        raise EvalError(f"{fn} of an empty array")
                    return Dual(max(cs) if fn in ("max", "amax") else min(cs))
                if fn == "count_nonzero":
                    return Dual(sum(1 for c in cs if c != 0))
                return Dual(1 if (all(c != 0 for c in cs) if fn == "all" else any(c != 0 for c in cs)) else 0)
            isb = fn in ("all", "any")
            r = self._reduce(a, ax, red, isbool=isb)
            if kwargs.get("keepdims"):
                a_ = self.num(a)
                if not isinstance(a_, Arr):
                    raise EvalError("keepdims on a scalar")
                if ax is None:
                    return Arr([D(r) if not isinstance(r, bool) else Dual(1 if r else 0)], (1,) * a_.ndim, isbool=isb)
                axp = ax if ax >= 0 else ax + a_.ndim
                shp = tuple(1 if i == axp else s_ for i, s_ in enumerate(a_.shape))
                data = list(r.data) if isinstance(r, Arr) else [D(r)]
                return Arr(data, shp, isbool=isb)
            if isb and isinstance(r, Dual):
                return const_of(r) == 1
            return r
        if fn == "cumsum":
            x = n(args[0])
            if self._axis(args, kwargs, 1, None) not in (None, 0) or (isinstance(x, Arr) and x.ndim > 1):
                raise EvalError("cumsum along an axis")
            out, acc = [], Dual(0)
            for v in x.data:
                acc = acc + v
                out.append(acc)
            return Arr(out, (len(out),))
        if fn == "diff":
            x = n(args[0])
            if x.ndim != 1 or len(args) > 1 or kwargs:
                raise EvalError("diff with options")
            return Arr([x.data[i + 1] - x.data[i] for i in range(len(x.data) - 1)], (max(len(x.data) - 1, 0),))
        if fn in ("sort", "argsort"):
            a = n(args[0])
            ax = self._axis(args, kwargs, 1, -1)

            def srt(xs):
                cs = [const_of(x) for x in xs]
                if any(c is None for c in cs):
                    raise EvalError("sort of symbolic values")
                order = sorted(range(len(cs)), key=lambda i: (cs[i], i))
                return [Dual(i) for i in order] if fn == "argsort" else [xs[i] for i in order]
            if ax is None:
                return Arr(srt(list(a.data)), (a.size(),))
            fr = moveaxis_to_front(a, ax)
            k = fr.shape[0]
            m = prod(fr.shape[1:])
            cols = [srt([fr.data[i * m + j] for i in range(k)]) for j in range(m)]
            out = Arr([cols[j][i] for i in range(k) for j in range(m)], fr.shape)
            return move_front_to(out, ax)
        if fn == "unique":
            return self._unique(args, kwargs)
        if fn in ("setdiff1d", "intersect1d", "union1d"):
            a, b = ints_of(n(args[0]).data if isinstance(n(args[0]), Arr) else [n(args[0])]), ints_of(n(args[1]).data if isinstance(n(args[1]), Arr) else [n(args[1])])
            if fn == "setdiff1d":
                if kwargs.get("assume_unique", args[2] if len(args) > 2 else False):
                    sb = set(b)
                    return int_arr([x for x in a if x not in sb])
                return int_arr(sorted(set(a) - set(b)))
            if fn == "intersect1d":
                return int_arr(sorted(set(a) & set(b)))
            return int_arr(sorted(set(a) | set(b)))
        if fn in ("isin", "in1d"):
            a = n(args[0])
            b = set(ints_of(n(args[1]).data))
            inv = bool(kwargs.get("invert", False))
            if not isinstance(a, Arr):
                return (int(const_of(a)) in b) != inv
            return bool_arr([(v in b) != inv for v in ints_of(a)], a.shape)
        if fn in ("triu_indices", "tril_indices"):
            k_n = self.as_int(args[0])
            k = self.as_int(args[1] if len(args) > 1 else kwargs.get("k", 0))
            m = self.as_int(args[2] if len(args) > 2 else kwargs.get("m", k_n))
            prs = [(i, j) for i in range(k_n) for j in range(m) if ((j - i >= k) if fn == "triu_indices" else (j - i <= k))]
            return (int_arr([p[0] for p in prs]), int_arr([p[1] for p in prs]))
        if fn in ("where", "nonzero", "flatnonzero", "argwhere"):
            if fn == "where" and len(args) == 3:
                c, x, y = args
                if not isinstance(c, Arr):
                    return x if self.truth(c) else y
                x2, y2 = n(x), n(y)
                shp = bshape(bshape(c.shape, x2.shape if isinstance(x2, Arr) else ()), y2.shape if isinstance(y2, Arr) else ())
                cb, xb, yb = broadcast_to(c, shp), broadcast_to(x2, shp), broadcast_to(y2, shp)
                out = []
                for cc, xx, yy in zip(cb.data, xb.data, yb.data):
                    cv = const_of(cc)
                    if cv is None:
                        raise EvalError("where on a symbolic condition")
                    out.append(xx if cv != 0 else yy)
                return Arr(out, shp)
            c = n(args[0])
            if not isinstance(c, Arr):
                raise EvalError(f"{fn} of a scalar")
            cs = [const_of(x) for x in c.data]
            if any(v is None for v in cs):
                raise EvalError(f"{fn} of symbolic values")
            flat = [i for i, v in enumerate(cs) if v != 0]
            if fn == "flatnonzero":
                return int_arr(flat)
            idxs = []
            for f_ in flat:
                ix = []
                for s in reversed(c.shape):
                    ix.append(f_ % s)
                    f_ //= s
                idxs.append(tuple(reversed(ix)))
            if fn == "argwhere":
                return Arr([Dual(v) for ix in idxs for v in ix], (len(idxs), c.ndim))
            return tuple(int_arr([ix[d] for ix in idxs]) for d in range(c.ndim))
        if fn in ("argmax", "argmin"):
            a = n(args[0])
            if self._axis(args, kwargs, 1, None) is not None and a.ndim > 1:
                raise EvalError(f"{fn} along an axis")
            cs = [const_of(x) for x in a.data]
            if any(c is None for c in cs) or not cs:
                raise EvalError(f"{fn} of symbolic values")
            return cs.index(max(cs) if fn == "argmax" else min(cs))
        if fn in ("outer",):
            a, b = n(args[0]), n(args[1])
            a = Arr(list(a.data), (a.size(),)) if isinstance(a, Arr) else Arr([a], (1,))
            b = Arr(list(b.data), (b.size(),)) if isinstance(b, Arr) else Arr([b], (1,))
            return Arr([x * y for x in a.data for y in b.data], (a.shape[0], b.shape[0]))
        if fn == "cross":
            a, b = n(args[0]), n(args[1])
            if not (isinstance(a, Arr) and isinstance(b, Arr)) or a.ndim != 1 or b.ndim != 1 or a.shape != b.shape:
                raise EvalError("cross of non-vectors")
            if a.shape == (2,):
                return a.data[0] * b.data[1] - a.data[1] * b.data[0]
            if a.shape == (3,):
                x, y = a.data, b.data
                return Arr([x[1] * y[2] - x[2] * y[1], x[2] * y[0] - x[0] * y[2], x[0] * y[1] - x[1] * y[0]], (3,))
            raise EvalError("cross shape")
        if fn in ("dot", "vdot", "inner", "matmul"):
            a, b = n(args[0]), n(args[1])
            if isinstance(a, Arr) and isinstance(b, Arr):
                if fn == "vdot":
                    a, b = Arr(list(a.data), (a.size(),)), Arr(list(b.data), (b.size(),))
                if fn == "inner" and b.ndim == 2:
                    b = b.T()
                if a.ndim == 0 or b.ndim == 0:
                    return self.binop(ast.Mult(), a, b)
                return self.matmul(a, b)
            return self.binop(ast.Mult(), a, b)
        if fn == "tensordot":
            return self._tensordot(n(args[0]), n(args[1]), args[2] if len(args) > 2 else kwargs.get("axes", 2))
        if fn == "einsum":
            return self._einsum(args[0], [n(a) for a in args[1:]])
        if fn == "linalg.solve":
            return self._solve(n(args[0]), n(args[1]))
        if fn == "linalg.inv":
            A = n(args[0])
            k = A.shape[0]
            eye = Arr([Dual(1 if i == j else 0) for i in range(k) for j in range(k)], (k, k))
            return self._solve(A, eye)
        if fn == "linalg.det":
            A = n(args[0])
            if A.ndim == 2 and A.shape[0] == A.shape[1] and A.shape[0] <= 3:
                return super().np_call(fn, [A], kwargs)
            raise EvalError("det shape")
        if fn == "linalg.norm":
            x = n(args[0])
            if len(args) > 1 or kwargs:
                raise EvalError("norm with options")
            if not isinstance(x, Arr):
                return d_fun("abs", x)
            return d_fun("sqrt", sum_d(v * v for v in x.data))
        if fn in ("ceil", "floor", "rint", "round", "trunc"):
            def f(x):
                c = const_of(x)
                if c is None:
                    raise EvalError(f"{fn} of a symbolic value")
                return Dual({"ceil": math.ceil, "floor": math.floor, "rint": round, "round": round, "trunc": int}[fn](c))
            x = n(args[0])
            return x.map(f) if isinstance(x, Arr) else f(x)
        if fn in ("square",):
            x = n(args[0])
            return self.binop(ast.Mult(), x, x)
        if fn in ("add", "subtract", "multiply", "divide", "true_divide", "floor_divide", "mod", "remainder"):
            op = {"add": ast.Add, "subtract": ast.Sub, "multiply": ast.Mult, "divide": ast.Div, "true_divide": ast.Div,
                  "floor_divide": ast.FloorDiv, "mod": ast.Mod, "remainder": ast.Mod}[fn]()
            return self.binop(op, args[0], args[1])
        if fn in ("negative",):
            return self.neg(n(args[0]))
        if fn in ("logical_not", "logical_and", "logical_or", "invert"):
            a = args[0]
            if fn in ("logical_not", "invert"):
                if isinstance(a, Arr):
                    return Arr([Dual(1) - Dual(1 if const_of(x) != 0 else 0) for x in a.data], a.shape, isbool=True)
                return not self.truth(a)
            b = args[1]
            if not isinstance(a, Arr) and not isinstance(b, Arr):
                return (self.truth(a) and self.truth(b)) if fn == "logical_and" else (self.truth(a) or self.truth(b))
            return bc(n(a), n(b), (lambda x, y: x * y) if fn == "logical_and" else (lambda x, y: x + y - x * y), isbool=True)
        if fn in ("equal", "not_equal", "less", "less_equal", "greater", "greater_equal"):
            op = {"equal": ast.Eq, "not_equal": ast.NotEq, "less": ast.Lt, "less_equal": ast.LtE, "greater": ast.Gt, "greater_equal": ast.GtE}[fn]()
            return self.compare(args[0], op, args[1])
        if fn in ("array_equal",):
            a, b = n(args[0]), n(args[1])
            if isinstance(a, Arr) != isinstance(b, Arr) or (isinstance(a, Arr) and a.shape != b.shape):
                return False
            xs, ys = (a.data, b.data) if isinstance(a, Arr) else ([a], [b])
            return all(Interp.compare(self, x, ast.Eq(), y) for x, y in zip(xs, ys))
        if fn in ("abs", "absolute", "sqrt", "exp", "log"):
            x = n(args[0])
            f = "abs" if fn == "absolute" else fn
            return x.map(lambda v: d_fun(f, v)) if isinstance(x, Arr) else d_fun(f, x)
        if fn == "diag":
            x = n(args[0])
            if x.ndim == 2:
                m = min(x.shape)
                return Arr([x.data[i * x.shape[1] + i] for i in range(m)], (m,))
        if fn in ("int_", "int32", "int64", "float64", "float32", "float_"):
            return args[0]
        if fn == "ix_":
            arrs = [n(a) for a in args]
            k = len(arrs)
            out = []
            for i, a in enumerate(arrs):
                if not isinstance(a, Arr) or a.ndim != 1:
                    raise EvalError("np.ix_ of non 1-d arguments")
                if a.isbool:
                    a = int_arr([j for j, x in enumerate(a.data) if const_of(x) == 1])
                out.append(Arr(list(a.data), tuple(a.shape[0] if j == i else 1 for j in range(k))))
            return tuple(out)
        if fn == "meshgrid":
            if len(args) != 2:
                raise EvalError("np.meshgrid of other than two arrays")
            a, b = n(args[0]), n(args[1])
            ij = kwargs.get("indexing", "xy") == "ij"
            na, nb = a.shape[0], b.shape[0]
            if ij:
                return (Arr([a.data[i] for i in range(na) for j in range(nb)], (na, nb)), Arr([b.data[j] for i in range(na) for j in range(nb)], (na, nb)))
            return (Arr([a.data[i] for j in range(nb) for i in range(na)], (nb, na)), Arr([b.data[j] for j in range(nb) for i in range(na)], (nb, na)))
        if fn in ("minimum", "maximum"):
            def mm(x, y):
                cx, cy = const_of(x), const_of(y)
                if cx is None or cy is None:
                    raise EvalError(f"{fn} of symbolic values")
                return x if ((cx <= cy) == (fn == "minimum")) else y
            return bc(n(args[0]), n(args[1]), mm)
        if fn == "lexsort":
            keys = self._seq(args[0])
            cols = [[const_of(x) for x in k_.data] for k_ in keys]
            if any(c is None for col in cols for c in col):
                raise EvalError("lexsort of symbolic values")
            m = len(cols[0]) if cols else 0
            return int_arr(sorted(range(m), key=lambda i: tuple(col[i] for col in reversed(cols)) + (i,)))
        if fn == "searchsorted":
            a = [const_of(x) for x in n(args[0]).data]
            v = n(args[1])
            side = kwargs.get("side", args[2] if len(args) > 2 else "left")
            import bisect

            def one(x):
                c = const_of(x)
                if c is None or any(q is None for q in a):
                    raise EvalError("searchsorted of symbolic values")
                return Dual(bisect.bisect_left(a, c) if side == "left" else bisect.bisect_right(a, c))
            return v.map(one) if isinstance(v, Arr) else one(v)
        if fn == "bincount":
            xs = ints_of(n(args[0]))
            ml = self.as_int(kwargs.get("minlength", 0))
            k = max([ml] + [x + 1 for x in xs])
            return int_arr([xs.count(i) for i in range(k)])
        if fn == "indices":
            raise EvalError("np.indices")
        return super().np_call(fn, args, kwargs)

    def _solve(self, A, B):
        try:
            return solve_linear(A, B)
        except Singular:
            self.singular.append("[" + ", ".join(repr(x.a) for x in A.data[:9]) + "]")
            raise

    def _num_const(self, v):
        c = const_of(v if not (isinstance(v, Arr) and v.size() == 1) else v.data[0])
        if c is None:
            raise EvalError("constant expected")
        return c

    def _is_bool_dtype(self, dt):
        if dt is None:
            return False
        if isinstance(dt, Ext):
            return dt.name.split(".")[-1] in ("bool", "bool_", "bool8") or dt.name == "dtype:bool"
        return False

    def _check_rect(self, a):
        def shape_of(v):
            if isinstance(v, (list, tuple)):
                ss = [shape_of(x) for x in v]
                if any(s != ss[0] for s in ss[1:]):
                    raise EvalError("ragged nested sequence")
                return (len(v),) + (ss[0] if ss else ())
            if isinstance(v, Arr):
                return tuple(v.shape)
            return ()
        shape_of(a)

    def _unique(self, args, kwargs):
        a = self.num(args[0])
        if not isinstance(a, Arr):
            a = Arr([a], (1,))
        ax = kwargs.get("axis")
        ri, rv, rc = bool(kwargs.get("return_index")), bool(kwargs.get("return_inverse")), bool(kwargs.get("return_counts"))
        if ax is None:
            items = [(c,) for c in ints_of(Arr(list(a.data), (a.size(),)))] if all(const_of(x) is not None and const_of(x).denominator == 1 for x in a.data) else None
            if items is None:
                cs = [const_of(x) for x in a.data]
                if any(c is None for c in cs):
                    raise EvalError("unique of symbolic values")
                items = [(c,) for c in cs]
            flat = True
        else:
            if self.as_int(ax) != 0 or a.ndim != 2:
                raise EvalError("unique along an axis other than 0 of a matrix")
            items = [tuple(ints_of(r)) for r in rows_of(a)]
            flat = False
        first = {}
        for i, it in enumerate(items):
            first.setdefault(it, i)
        keys = sorted(first)
        vals = int_arr([k[0] for k in keys]) if flat else Arr([Dual(v) for k in keys for v in k], (len(keys), a.shape[1]))
        if flat and any(isinstance(k[0], Fraction) and k[0].denominator != 1 for k in keys):
            vals = Arr([Dual(k[0]) for k in keys], (len(keys),))
        out = [vals]
        if ri:
            out.append(int_arr([first[k] for k in keys]))
        if rv:
            pos = {k: i for i, k in enumerate(keys)}
            out.append(int_arr([pos[it] for it in items]))
        if rc:
            cnt = {}
            for it in items:
                cnt[it] = cnt.get(it, 0) + 1
            out.append(int_arr([cnt[k] for k in keys]))
        return out[0] if len(out) == 1 else tuple(out)

    def _tensordot(self, a, b, axes):
        if isinstance(axes, (int, Fraction, Dual)):
            k = self.as_int(axes)
            ax_a, ax_b = list(range(a.ndim - k, a.ndim)), list(range(k))
        else:
            ax_a, ax_b = axes
            ax_a = [self.as_int(x) for x in (ax_a if isinstance(ax_a, (list, tuple)) else [ax_a])]
            ax_b = [self.as_int(x) for x in (ax_b if isinstance(ax_b, (list, tuple)) else [ax_b])]
        ax_a = [x + a.ndim if x < 0 else x for x in ax_a]
        ax_b = [x + b.ndim if x < 0 else x for x in ax_b]
        if [a.shape[i] for i in ax_a] != [b.shape[i] for i in ax_b]:
            raise EvalError("tensordot: contracted axes differ")
        free_a = [i for i in range(a.ndim) if i not in ax_a]
        free_b = [i for i in range(b.ndim) if i not in ax_b]
        at = transpose(a, free_a + ax_a)
        bt = transpose(b, ax_b + free_b)
        m, k, q = prod([a.shape[i] for i in free_a]), prod([a.shape[i] for i in ax_a]), prod([b.shape[i] for i in free_b])
        out = []
        for i in range(m):
            for j in range(q):
                out.append(sum_d(at.data[i * k + t] * bt.data[t * q + j] for t in range(k)))
        shp = tuple(a.shape[i] for i in free_a) + tuple(b.shape[i] for i in free_b)
        return out[0] if shp == () else Arr(out, shp)

    def _einsum(self, spec, ops):
        if not isinstance(spec, str) or "->" not in spec or "." in spec:
            raise EvalError("einsum spec")
        lhs, rhs = spec.replace(" ", "").split("->")
        ins = lhs.split(",")
        if len(ins) != len(ops):
            raise EvalError("einsum operands")
        dims = {}
        for s, o in zip(ins, ops):
            if not isinstance(o, Arr) or len(s) != o.ndim:
                raise EvalError("einsum ranks")
            for ch, d in zip(s, o.shape):
                if dims.setdefault(ch, d) != d:
                    raise EvalError("einsum dims")
        summed = [ch for ch in dims if ch not in rhs]
        out = []
        for oi in itertools.product(*[range(dims[ch]) for ch in rhs]):
            env = dict(zip(rhs, oi))
            acc = Dual(0)
            for si in itertools.product(*[range(dims[ch]) for ch in summed]):
                env.update(zip(summed, si))
                t = Dual(1)
                for s, o in zip(ins, ops):
                    t = t * o.get(tuple(env[ch] for ch in s))
                acc = acc + t
            out.append(acc)
        shp = tuple(dims[ch] for ch in rhs)
        return out[0] if shp == () else Arr(out, shp)

    # ---- statements
    def block(self, body, env):
        for st in body:
            self.stmt(st, env)

    def _mark_unknown(self, targets, env, why):
        for t in targets:
            for nme in ast.walk(t):
                if isinstance(nme, ast.Name) and isinstance(nme.ctx, ast.Store):
                    env.vars[nme.id] = Unknown(why)
            base = t
            while isinstance(base, (ast.Subscript, ast.Attribute)):
                base = base.value
            if isinstance(base, ast.Name) and base is not t:
                e_ = env
                while e_ is not None and base.id not in e_.vars:
                    e_ = e_.parent
                (e_ or env).vars[base.id] = Unknown(why)

    def stmt(self, st, env):
        self.steps += 1
        if isinstance(st, ast.Assign):
            try:
                v = self.eval(st.value, env)
                for t in st.targets:
                    self.assign(t, v, env)
            except EvalError as ex:
                if not self.tolerant:
                    raise
                self.swallowed.append(str(ex))
                self._mark_unknown(st.targets, env, str(ex))
        elif isinstance(st, ast.AnnAssign):
            if st.value is not None:
                self.stmt(ast.Assign(targets=[st.target], value=st.value), env)
        elif isinstance(st, ast.AugAssign):
            try:
                load = ast.parse(norm_src(st.target), mode="eval").body
                cur = self.eval(load, env)
                v = self.binop(st.op, cur, self.eval(st.value, env))
                if isinstance(cur, list) and isinstance(st.op, ast.Add):
                    cur.extend(v[len(cur):])        # list += mutates in place (aliases see it)
                    v = cur
                self.assign(st.target, v, env)
            except EvalError as ex:
                if not self.tolerant:
                    raise
                self.swallowed.append(str(ex))
                self._mark_unknown([st.target], env, str(ex))
        elif isinstance(st, ast.Return):
            raise ReturnSignal(self.eval(st.value, env) if st.value is not None else None)
        elif isinstance(st, ast.If):
            c = self.truth(self.eval(st.test, env))
            self.block(st.body if c else st.orelse, env)
        elif isinstance(st, ast.For):
            broke = False
            for x in self.iterate(self.eval(st.iter, env)):
                self.assign(st.target, x, env)
                try:
                    self.block(st.body, env)
                except ContinueSignal:
                    continue
                except BreakSignal:
                    broke = True
                    break
            if not broke and st.orelse:
                self.block(st.orelse, env)
        elif isinstance(st, ast.While):
            n_it = 0
            while self.truth(self.eval(st.test, env)):
                n_it += 1
                if n_it > 10000:
                    raise EvalError("while loop does not terminate in the budget")
                try:
                    self.block(st.body, env)
                except ContinueSignal:
                    continue
                except BreakSignal:
                    break
        elif isinstance(st, ast.Break):
            raise BreakSignal()
        elif isinstance(st, ast.Continue):
            raise ContinueSignal()
        elif isinstance(st, ast.With):
            for it in st.items:
                v = self.eval(it.context_expr, env)
                if it.optional_vars is not None:
                    self.assign(it.optional_vars, v, env)
            self.block(st.body, env)
        elif isinstance(st, ast.FunctionDef):
            sc = self.repo.scope_of(st)
            env.vars[st.name] = Closure(sc, env)
        elif isinstance(st, ast.Expr):
            if isinstance(st.value, ast.Constant):
                return
            if isinstance(st.value, ast.Call):
                # diagnostics (print / warnings / logging) have no effect on the values that are analysed
                try:
                    f = self.eval(st.value.func, env)
                except EvalError:
                    f = None
                if isinstance(f, Ext) and f.name.split(".")[0] in ("warnings", "logging") or isinstance(f, Ext) and f.name == "builtins.print":
                    return
            self.eval(st.value, env)
        elif isinstance(st, ast.Assert):
            try:
                ok = self.truth(self.eval(st.test, env))
            except EvalError:
                return
            if not ok:
                raise Raised("assert " + norm_src(st.test)[:70])
        elif isinstance(st, (ast.Delete, ast.Pass, ast.Import, ast.ImportFrom, ast.Global, ast.Nonlocal)):
            return
        elif isinstance(st, ast.Raise):
            raise Raised(norm_src(st)[:80])
        elif isinstance(st, ast.Try):
            try:
                try:
                    self.block(st.body, env)
                except Raised:
                    # the interpreted code raised: control goes to the first handler (exception classes are not modelled)
                    if not st.handlers:
                        raise
                    h = st.handlers[0]
                    if h.name:
                        env.vars[h.name] = Opaque("exception")
                    self.block(h.body, env)
                else:
                    self.block(st.orelse, env)
            finally:
                if st.finalbody:
                    self.block(st.finalbody, env)
        else:
            raise EvalError(f"statement {type(st).__name__}")

    def assign(self, t, v, env):
        if isinstance(t, ast.Name):
            env.vars[t.id] = v
        elif isinstance(t, (ast.Tuple, ast.List)):
            vs = self.iterate(v)
            star = [i for i, x in enumerate(t.elts) if isinstance(x, ast.Starred)]
            if star:
                i = star[0]
                n_after = len(t.elts) - i - 1
                if len(vs) < len(t.elts) - 1:
                    raise EvalError("unpack width")
                parts = vs[:i] + [list(vs[i:len(vs) - n_after])] + (vs[len(vs) - n_after:] if n_after else [])
                for a, b in zip(t.elts, parts):
                    self.assign(a.value if isinstance(a, ast.Starred) else a, b, env)
                return
            if len(vs) != len(t.elts):
                raise EvalError("unpack width")
            for a, b in zip(t.elts, vs):
                self.assign(a, b, env)
        elif isinstance(t, ast.Subscript):
            base = self.eval(t.value, env)
            key = self.eval_index(t.slice, env)
            if isinstance(base, dict):
                base[self.hashable(key)] = v
            elif isinstance(base, list):
                if isinstance(key, slice):
                    base[key] = list(self.iterate(v))
                else:
                    base[self.as_int(key)] = v
            elif isinstance(base, Arr):
                if getattr(base, "_view", False):
                    raise EvalError("store into a view (slice / row) of another array is not modelled")
                new = arr_set(base, key, v if isinstance(v, (Arr, bool, list, tuple)) else self.num(v))
                # numpy arrays are mutable: the store is visible through every alias
                base.data = new.data
            else:
                raise EvalError(f"subscript store into {base!r}")
        elif isinstance(t, ast.Attribute):
            base = self.eval(t.value, env)
            if not isinstance(base, Instance):
                raise EvalError(f"attribute store into {base!r}")
            base.attrs[t.attr] = v
        else:
            raise EvalError("assignment target")


def fresh_interp(repo, lobatto=True):
    I = MeshInterp(repo)
    I.tolerant = False
    if lobatto:
        from .parentelem import lobatto_special, IM
        I.special[f"{IM}:get_lobatto_nodes_1d"] = lobatto_special
    return I
