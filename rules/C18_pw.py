"""Symbolic piecewise interpreter for C18 (smoothed min/max/abs, friction regularisation, ramps).

`SymEval` abstractly interprets a small scalar Python/JAX function -- *from its source only* -- into a
piecewise rational function: a list of pieces (conjunction of comparison atoms, exact rational value).
Compared with `optilint.piecewise.PiecewiseEval` (which it extends) it is insensitive to the way the
function is written:

  * calls to project functions (module-level helpers, functions of other project modules, nested defs,
    lambdas) are *inlined* with Python's argument binding (positional, keyword, defaults); a callee that
    cannot be interpreted becomes one opaque atom (recorded in `SymEval.opaque`, so that rules can tell
    "does the wrong thing" from "not understood");
  * statements: (annotated / augmented / tuple) assignments, nested defs, guard clauses (`if c: return a`),
    if/else, docstrings, asserts;
  * selection idioms: where / if_then_else / lax.cond / lax.select / np.select / IfExp / minimum / maximum /
    clip / abs / sign, boolean algebra (& | ~ and or not, logical_and/or/not), ==, != and chained comparisons;
  * module-level numeric constants are inlined by value; attribute / index access on an opaque parameter
    yields a structured atom (`p.mu`, `p[0]`; a namedtuple field list makes `p[0]` and `p.mu` the same atom);
  * vector parameters: `v@v`, dot(v, v), sum(v*v), sum(v**2), norm(v) are expressed through one norm atom;
  * a chosen set of project functions can be kept *symbolic* (uninterpreted, canonicalised applications);
  * index dispatch: lax.switch(index, branches, *operands) and literal_sequence[index] where every value of the index is
    an integer literal selected by understood predicates (nested where, mask arithmetic); the index is clamped for switch;
  * helper classes of the project (also in private helper modules) are instantiated symbolically (`ObjVal`): explicit
    straight-line `__init__` (self.attr = value), typing.NamedTuple / @dataclass field lists with defaults, namedtuple
    factories, stateless classes; attribute access, bound / static / class methods, properties, `__call__`, tuple
    behaviour of NamedTuples (index, unpacking, _replace), module-level singleton instances whose state cannot change.
    Anything that could change an instance after construction (attribute stores outside the constructor, bare calls that
    reach an instance, metaclasses, foreign bases, __new__ / __post_init__, control flow in the constructor) is *not
    understood*: the call stays an opaque atom and the rule reports analysis-incomplete.

Besides the exact real value every piece carries a floating-point *trace term*: the expression tree with only
those simplifications applied that are exact in IEEE arithmetic (selection, negation, multiplication by +-1,
adding 0).  `exactness()` uses it to decide whether a value that equals an argument over the reals is also
*selected* from the arguments (bit-exact) or recomputed through rounded arithmetic that absorbs it.

Nothing is imported from or executed in the analysed library.
"""
from __future__ import annotations

import ast
import itertools
from fractions import Fraction

from optilint.expr import Algebra, NotPolynomial, Rat, Poly, simplify
from optilint.model import dotted, norm_src, FuncVal, ExtVal
from optilint.piecewise import PiecewiseEval, PW, Piece, BoolVal, Atom, _merge, solve_linear, solve_square


# ------------------------------------------------------------------ floating-point trace terms

def t_var(n):
    return ("var", n)


def t_const(c):
    return ("const", Fraction(c))


def t_neg(t):
    if t[0] == "neg":
        return t[1]
    if t[0] == "const":
        return ("const", -t[1])
    return ("neg", t)


def t_bin(op, a, b):
    ca = a[1] if a[0] == "const" else None
    cb = b[1] if b[0] == "const" else None
    if ca is not None and cb is not None and op in "+-*":
        return ("const", ca + cb if op == "+" else ca - cb if op == "-" else ca * cb)
    if op == "*":
        for c, o in ((ca, b), (cb, a)):
            if c == 0:
                return ("const", Fraction(0))      # exact for a finite other factor (masked blends)
            if c == 1:
                return o
            if c == -1:
                return t_neg(o)
    if op == "/":
        if cb == 1:
            return a
        if cb == -1:
            return t_neg(a)
    if op == "+":
        if ca == 0:
            return b
        if cb == 0:
            return a
    if op == "-":
        if cb == 0:
            return a
        if ca == 0:
            return t_neg(b)
    return ("op", op, a, b)


def t_fn(name, *args):
    return ("fn", name) + tuple(args)


def term_vars(t, out=None):
    out = set() if out is None else out
    if t[0] == "var":
        out.add(t[1])
    elif t[0] == "neg":
        term_vars(t[1], out)
    elif t[0] == "op":
        term_vars(t[2], out)
        term_vars(t[3], out)
    elif t[0] == "fn":
        for a in t[2:]:
            term_vars(a, out)
    return out


def term_str(t):
    if t[0] == "var":
        return t[1]
    if t[0] == "const":
        return str(float(t[1])) if t[1].denominator != 1 else str(t[1].numerator)
    if t[0] == "neg":
        return "-" + term_str(t[1]) if t[1][0] in ("var", "const") else f"-({term_str(t[1])})"
    if t[0] == "op":
        return f"({term_str(t[2])} {t[1]} {term_str(t[3])})"
    return f"{t[1]}({', '.join(term_str(a) for a in t[2:])})"


def exactness(term, real_atoms):
    """'exact'     : the value is an argument (or its negation) or a literal -- produced by selection only;
       'absorbing' : rounded arithmetic involving an input the real value does not depend on (x + y - x);
       'rounded'   : rounded arithmetic over the same inputs as the real value."""
    t = term
    if t[0] == "neg":
        t = t[1]
    if t[0] in ("var", "const"):
        return "exact"
    extra = term_vars(term) - set(real_atoms)
    return "absorbing" if extra else "rounded"


# ------------------------------------------------------------------ values

class TPiece(Piece):
    def __init__(self, conds, value, term=None):
        super().__init__(conds, value)
        self.term = term if term is not None else t_fn("?")


class TupleVal:
    def __init__(self, items):
        self.items = list(items)


class FuncRef:
    """A callable known by its source: module-level function, nested def or lambda (+ defining environment);
    `bound` = leading arguments already supplied (the instance of a bound method, the class of a classmethod)."""
    def __init__(self, scope, env=None, bound=()):
        self.scope = scope
        self.env = env
        self.bound = tuple(bound)


class ClassRef:
    """A project class known by its source (`scope`), or a collections.namedtuple factory (`nt` = its field layout)."""
    def __init__(self, scope=None, nt=None):
        self.scope = scope
        self.nt = nt


class ObjVal:
    """A symbolically constructed instance of a project helper class: its fields (in definition order) hold interpreter
    values; methods are looked up in the class source and applied with `self` = this instance.  `tuple_like`: the fields
    are also the items of the instance (NamedTuple / namedtuple).  `open_`: still inside its constructor (fields may be set)."""
    def __init__(self, cls, fields=None, tuple_like=False):
        self.cls = cls
        self.fields = dict(fields or {})
        self.tuple_like = tuple_like
        self.open_ = False


class Env(dict):
    def __init__(self, parent=None):
        super().__init__()
        self.parent = parent

    def lookup(self, k):
        e = self
        while e is not None:
            if k in e:
                return True, dict.__getitem__(e, k)
            e = e.parent
        return False, None

    def fork(self):
        e = Env(self.parent)
        e.update(self)
        return e


_FALL = object()

_NUMERIC_MODS = ("jax", "numpy", "math", "builtins", "scipy", "np", "jnp", "onp", "lax")


class SymEval(PiecewiseEval):
    def __init__(self, repo, algebra=None, symbolic=(), vectors=None, tuple_fields=None, abs_as_atom=False,
                 on_inline=None, max_depth=10, keep_only_reduced=False):
        super().__init__(algebra or Algebra())
        self.repo = repo
        # functions kept symbolic: qualname -> 'min' | 'max' | 'abs' (their verified meaning in terms of ONE uninterpreted
        # symmetric function smin(a, b, w): min = smin(a,b,w), max = -smin(-a,-b,w), abs = -smin(-x,x,w))
        # keys: Scope objects (identity) or qualnames
        self.symbolic = dict(symbolic) if isinstance(symbolic, dict) else {q: "min" for q in symbolic}
        self.vectors = dict(vectors or {})     # vector atom -> atom of its Euclidean norm
        self.tuple_fields = dict(tuple_fields or {})   # atom -> field names (namedtuple layout)
        self.abs_as_atom = abs_as_atom
        self.on_inline = on_inline
        # partial-evaluation policy: keep the inlined value of a callee only when it reduced to literal constants or to
        # applications of the symbolic functions; any other callee stays one opaque atom (keeps unrelated geometry opaque)
        self.keep_only_reduced = keep_only_reduced
        self.max_depth = max_depth
        self.opaque = set()                    # atoms standing for calls that were not understood
        self.defs = {}                         # folded opaque atom -> the piecewise value it stands for
        self.failed = set()                    # ... the subset standing for project functions whose body could not be interpreted
        self.nonneg = set(self.vectors.values())   # atoms that are >= 0 by construction (norms, |.|, sqrt)
        self.sym_apps = {}                     # atom -> (qualname, (arg Rats))
        self._stack = []
        self._negrepr = {}

    # ---------------------------------------------------------------- atoms
    def atom(self, L: Rat, op: str, R: Rat) -> Atom:
        """comparison atom `L op R` in a canonical form: L - R < 0 / <= 0 with constant denominators folded in and the
        difference scaled by a positive constant (so that 2*x < 0, x/2 < 0 and x < 0 are one atom)"""
        if op in ("Gt", "GtE"):
            L, R = R, L
            op = {"Gt": "Lt", "GtE": "LtE"}[op]
        d = simplify(self.A.norm(L - R))
        if d.d.is_const() and d.n.t:
            c = d.d.const_value()
            n = Poly({m: v / c for m, v in d.n.t.items()})
            lead = abs(n.t[sorted(n.t, key=lambda m: (-len(m), m))[0]])
            d = Rat(Poly({m: v / lead for m, v in n.t.items()}))
        key = f"{d!r} {op} 0"
        return Atom(key, op, d)

    # ---------------------------------------------------------------- consistency of condition sets
    def _line(self, a: Atom):
        """(canonical key of the line +-diff, flipped?)"""
        k = self._negrepr.get(a.key)
        if k is None:
            r = repr(a.diff)
            rn = repr(self.A.norm(-a.diff))
            k = (r, False) if r <= rn else (rn, True)
            self._negrepr[a.key] = k
        return k

    def _cons(self, conds):
        allowed = {}
        for (a, pol) in conds:
            base, flip = self._line(a)
            if a.op == "Lt":
                s = {-1} if pol else {0, 1}
            else:
                s = {-1, 0} if pol else {1}
            if flip:
                s = {-x for x in s}
            cur = allowed.get(base)
            s = s if cur is None else (cur & s)
            if not s:
                return False
            allowed[base] = s
        return True

    def _triv(self, a: Atom):
        """truth value of an atom whose difference is a constant, else None"""
        if a.key in self.assumed:
            return self.assumed[a.key]
        if a.diff.d.is_const() and a.diff.n.is_const():
            c = a.diff.n.const_value() / a.diff.d.const_value()
            return (c < 0) if a.op == "Lt" else (c <= 0)
        return None

    def _clean(self, conds):
        """drop decided conditions; None when the conjunction is unsatisfiable"""
        out = []
        for (a, pol) in conds:
            t = self._triv(a)
            if t is None:
                out.append((a, pol))
            elif t != pol:
                return None
        out = tuple(out)
        return out if self._cons(out) else None

    def _prune(self, pieces):
        out = []
        for p in pieces:
            c = self._clean(p.conds)
            if c is not None:
                out.append(TPiece(c, p.value, getattr(p, "term", None)))
        return out

    def _bool(self, dnf):
        out, seen = [], set()
        for conj in dnf:
            c = self._clean(conj)
            if c is None:
                continue
            k = tuple(sorted((a.key, p) for (a, p) in c))
            if k in seen:
                continue
            seen.add(k)
            if not c:
                return BoolVal([()])
            out.append(c)
        return BoolVal(out)

    def _neg(self, b):
        """negation as a DNF of pairwise *disjoint* conjunctions (b's own conjunctions are kept disjoint by _or), so that
        the pieces of a selection always partition the domain: not(a & b & c) = not a | a & not b | a & b & not c"""
        res = [()]
        for conj in b.dnf:
            alts, prefix = [], ()
            for (a, p) in conj:
                alts.append(prefix + ((a, not p),))
                prefix = prefix + ((a, p),)
            nxt = []
            for r in res:
                for alt in alts:
                    m = self._clean(_merge(r, alt))
                    if m is not None:
                        nxt.append(m)
            res = nxt
        return self._bool(res)

    def _and(self, l, r):
        return self._bool([_merge(a, b) for a in l.dnf for b in r.dnf])

    def _or(self, l, r):
        # l | r  =  l | (r & not l): keeps the conjunctions pairwise disjoint
        nl = self._neg(l)
        return self._bool(list(l.dnf) + [_merge(b, n) for b in r.dnf for n in nl.dnf])

    # ---------------------------------------------------------------- constructors
    def const_pw(self, r, term=None):
        if term is None:
            term = t_const(r.n.const_value() / r.d.const_value()) if (r.n.is_const() and r.d.is_const()) else t_fn(repr(r))
        return PW([TPiece((), r, term)])

    def atom_pw(self, name):
        return PW([TPiece((), self.A.atom(name), t_var(name))])

    def num(self, c):
        return self.const_pw(self.A.const(c))

    @staticmethod
    def pure_atom(v):
        """name of the atom when the value is exactly one unconditioned atom, else None"""
        if isinstance(v, PW) and len(v.pieces) == 1 and not v.pieces[0].conds:
            r = simplify(v.pieces[0].value)
            if r.d == Poly.const(1) and len(r.n.t) == 1:
                (m, c), = r.n.t.items()
                if c == 1 and len(m) == 1 and m[0][1] == 1:
                    return m[0][0]
        return None

    def lift(self, fn, *pws):
        out = []
        for combo in itertools.product(*[p.pieces for p in pws]):
            conds = ()
            for p in combo:
                conds = _merge(conds, p.conds)
            conds = self._clean(conds)
            if conds is None:
                continue
            v, t = fn(*combo)
            out.append(TPiece(conds, v, t))
        return PW(out)

    def select(self, c: BoolVal, a, b):
        if c.dnf == [()]:
            return a
        if not c.dnf:
            return b
        if isinstance(a, TupleVal) or isinstance(b, TupleVal):
            if not (isinstance(a, TupleVal) and isinstance(b, TupleVal) and len(a.items) == len(b.items)):
                raise NotPolynomial("selection between values of different shape")
            return TupleVal([self.select(c, x, y) for x, y in zip(a.items, b.items)])
        a, b = self._as_pw(a), self._as_pw(b)
        nc = self._neg(c)
        out = []
        for (dnf, src) in ((c.dnf, a), (nc.dnf, b)):
            for conj in dnf:
                for p in src.pieces:
                    m = self._clean(_merge(conj, p.conds))
                    if m is not None:
                        out.append(TPiece(m, p.value, p.term))
        return PW(out)

    def _as_pw(self, v):
        if isinstance(v, PW):
            return v
        if isinstance(v, Rat):
            return self.const_pw(v)
        if isinstance(v, BoolVal):
            # a mask used as a number: 1 where true, 0 where false
            return self.select(v, self.num(1), self.num(0)) if v.dnf not in ([()], []) else self.num(1 if v.dnf else 0)
        raise NotPolynomial("numeric value expected")

    def _as_bool(self, v):
        if isinstance(v, BoolVal):
            return v
        raise NotPolynomial("truth value expected")

    def _int_pieces(self, v):
        """[(conds, k)] when every value `v` takes is an integer literal (a branch index built by where / masks), else None"""
        if isinstance(v, BoolVal):
            return None             # a truth value is not an integer index (lax.switch rejects it)
        try:
            v = self._as_pw(v)
        except NotPolynomial:
            return None
        out = []
        for p in v.pieces:
            if not (p.value.n.is_const() and p.value.d.is_const()):
                return None
            c = Fraction(p.value.n.const_value()) / Fraction(p.value.d.const_value()) if p.value.n.t else Fraction(0)
            if c.denominator != 1:
                return None
            out.append((p.conds, int(c)))
        return out

    def _dispatch(self, idx, branch):
        """the value that is `branch(k)` where the index pieces say k (selection only: traces are those of the branches)"""
        memo = {}
        for (_, k) in idx:
            if k not in memo:
                memo[k] = branch(k)
        if any(isinstance(r, TupleVal) for r in memo.values()):
            rs = list(memo.values())
            if not all(isinstance(r, TupleVal) and len(r.items) == len(rs[0].items) for r in rs):
                raise NotPolynomial("selection between values of different shape")
            return TupleVal([self._dispatch(idx, lambda k, i=i: memo[k].items[i]) for i in range(len(rs[0].items))])
        out = []
        for (conds, k) in idx:
            for p in self._as_pw(memo[k]).pieces:
                m = self._clean(_merge(conds, p.conds))
                if m is not None:
                    out.append(TPiece(m, p.value, p.term))
        return PW(out)

    # ---------------------------------------------------------------- comparisons
    def compare(self, l, opn, r):
        l, r = self._as_pw(l), self._as_pw(r)
        dnf = []
        for p in l.pieces:
            for q in r.pieces:
                base = _merge(p.conds, q.conds)
                if opn in ("Lt", "LtE", "Gt", "GtE"):
                    dnf.append(_merge(base, ((self.atom(p.value, opn, q.value), True),)))
                elif opn in ("Eq", "NotEq"):
                    le = self.atom(p.value, "LtE", q.value)
                    lt = self.atom(p.value, "Lt", q.value)
                    if opn == "Eq":
                        dnf.append(_merge(base, ((le, True), (lt, False))))
                    else:
                        dnf.append(_merge(base, ((lt, True),)))
                        dnf.append(_merge(base, ((le, False),)))
                else:
                    raise NotPolynomial("comparison " + opn)
        return self._bool(dnf)

    # ---------------------------------------------------------------- arithmetic
    def arith(self, op, l, r, node=None):
        l, r = self._as_pw(l), self._as_pw(r)
        sym = {ast.Add: "+", ast.Sub: "-", ast.Mult: "*", ast.Div: "/", ast.Pow: "**", ast.MatMult: "@"}.get(type(op))
        if sym is None:
            raise NotPolynomial("operator " + type(op).__name__)

        if sym == "**" and len(r.pieces) == 1 and not r.pieces[0].conds and r.pieces[0].value.n.is_const() and r.pieces[0].value.d.is_const():
            k = r.pieces[0].value.n.const_value() / r.pieces[0].value.d.const_value()
            if k.denominator == 2:
                root = self._sqrt_pw(l)
                return root if k == Fraction(1, 2) else self.arith(ast.Pow(), root, self.num(int(k.numerator)), node)

        def f(p, q):
            if sym == "@":
                v = self._bilinear(p.value, q.value)
            else:
                v = self._arith(op, p.value, q.value, node if node is not None else ast.Constant(value=0))
            return v, t_bin(sym, p.term, q.term)
        return self.lift(f, l, r)

    def neg(self, v):
        v = self._as_pw(v)
        return PW([TPiece(p.conds, self.A.norm(-p.value), t_neg(p.term)) for p in v.pieces])

    def _vec_of(self, r: Rat):
        return [x for x in r.atoms() if x in self.vectors]

    def _lin_coef(self, r: Rat, V):
        if V in r.d.atoms():
            return None
        for m in r.n.t:
            if dict(m).get(V, 0) != 1:
                return None
        return self.A.subst(r, V, self.A.const(1))

    def _bilinear(self, a: Rat, b: Rat):
        va, vb = self._vec_of(a), self._vec_of(b)
        if not va and not vb:
            return self.A.norm(a * b)
        if len(va) == 1 and va == vb:
            ca, cb = self._lin_coef(a, va[0]), self._lin_coef(b, va[0])
            if ca is not None and cb is not None:
                t = self.A.atom(self.vectors[va[0]])
                return self.A.norm(ca * cb * t * t)
        raise NotPolynomial("bilinear form of unsupported vector expressions")

    def _sum(self, r: Rat):
        vs = self._vec_of(r)
        if len(vs) == 1 and vs[0] not in r.d.atoms() and all(dict(m).get(vs[0], 0) == 2 for m in r.n.t):
            # r = c * V*V (elementwise square of a vector)  ->  c * |V|^2
            t = self.A.atom(self.vectors[vs[0]])
            return self.A.norm(self.A.subst(r, vs[0], self.A.const(1)) * t * t)
        raise NotPolynomial("sum over an array")

    def _norm(self, r: Rat):
        """|c * V| = |c| * t for a constant c (a symbolic scale factor would need its sign)"""
        vs = self._vec_of(r)
        if len(vs) != 1:
            return None
        c = self._lin_coef(r, vs[0])
        if c is None or not (c.n.is_const() and c.d.is_const()):
            raise NotPolynomial("norm of a vector scaled by a symbolic factor")
        k = c.n.const_value() / c.d.const_value()
        return self.A.norm(self.A.const(-k if k < 0 else k) * self.A.atom(self.vectors[vs[0]]))

    # ---------------------------------------------------------------- names
    def _module_const(self, name, scope, hops=0):
        """numeric value of a module-level constant (bound once to a literal expression), else None"""
        if scope is None or hops > 4:
            return None
        s, bs = self.repo.lookup(name, scope)
        if s is None:
            s, bs = self.repo.star_lookup(name, scope.module)
        if s is None or s.kind != "module" or len(bs) != 1:
            return None
        b = bs[0]
        if b.kind == "assign" and b.value is not None and b.index is None:
            if all(isinstance(n, (ast.Constant, ast.UnaryOp, ast.BinOp, ast.operator, ast.unaryop, ast.Name, ast.Load)) for n in ast.walk(b.value)):
                try:
                    v = self.ev(b.value, Env(), s)
                except NotPolynomial:
                    return None
                if isinstance(v, PW) and len(v.pieces) == 1 and not v.pieces[0].conds and v.pieces[0].value.n.is_const() \
                        and v.pieces[0].value.d.is_const():
                    return v
            return None
        if b.kind == "importfrom":
            modname, attr, level = b.extra
            if level:
                base = b.scope.module.name.rsplit(".", level)[0]
                modname = base + ("." + modname if modname else "")
            m = self.repo.modules.get(modname)
            if m is not None:
                return self._module_const(attr, m.scope, hops + 1)
        return None

    def _name(self, e, env, scope):
        ok, v = env.lookup(e.id)
        if ok:
            return v
        if e.id in ("True", "False"):
            return BoolVal([()] if e.id == "True" else [])
        c = self._module_const(e.id, scope)
        if c is not None:
            return c
        if scope is not None:
            vals = self.repo.resolve(e, scope)
            fs = [v for v in vals if isinstance(v, FuncVal)]
            if len(fs) == 1:
                return FuncRef(fs[0].scope, None)
            if not fs:
                c = self._class_ref(vals)
                if c is not None:
                    return c
                o = self._module_instance(e.id, scope)
                if o is not None:
                    return o
        return self.atom_pw(e.id)

    # ---------------------------------------------------------------- helper classes
    @staticmethod
    def _class_ref(vals):
        """ClassRef when the resolved values denote exactly one project class / one namedtuple layout, else None"""
        from optilint.model import ClassVal, NamedTupleVal
        vals = list(vals)
        if len(vals) != 1:
            return None
        v = vals[0]
        if isinstance(v, ClassVal):
            return ClassRef(scope=v.scope)
        if isinstance(v, NamedTupleVal) and not v.ndefaults and all(isinstance(f, str) for f in v.fields):
            return ClassRef(nt=v)
        return None

    def _module_instance(self, name, scope, hops=0):
        """the instance a module-level name is bound to (once, by `NAME = HelperClass(...)`), constructed symbolically"""
        if scope is None or hops > 4:
            return None
        s, bs = self.repo.lookup(name, scope)
        if s is None:
            s, bs = self.repo.star_lookup(name, scope.module)
        if s is None or s.kind != "module" or len(bs) != 1:
            return None
        b = bs[0]
        if b.kind == "assign" and b.index is None and isinstance(b.value, ast.Call):
            cache = self.__dict__.setdefault("_instances", {})
            if id(b) not in cache:
                cache[id(b)] = None
                try:
                    cref = self._class_ref(self.repo.resolve(b.value.func, s))
                    if cref is not None and not self._mutable_state(cref, name):
                        v = self.ev(b.value, Env(), s)
                        cache[id(b)] = v if isinstance(v, ObjVal) else None
                except NotPolynomial:
                    pass
            return cache[id(b)]
        if b.kind == "importfrom":
            modname, attr, level = b.extra
            if level:
                base = b.scope.module.name.rsplit(".", level)[0]
                modname = base + ("." + modname if modname else "")
            m = self.repo.modules.get(modname)
            if m is not None:
                return self._module_instance(attr, m.scope, hops + 1)
        return None

    def _mutable_state(self, cref, name):
        """True when the state of the shared (module-level) instance `name` of this class may change after construction:
        a method other than __init__ stores into an attribute, or some module stores into `name.attr` / `*.name.attr`"""
        if cref.scope is not None:
            for c in self.repo.class_mro(cref.scope):
                for meth in c.children:
                    if meth.name == "__init__" or not isinstance(meth.node, (ast.FunctionDef, ast.AsyncFunctionDef)):
                        continue
                    for n in ast.walk(meth.node):
                        if isinstance(n, (ast.Attribute, ast.Subscript)) and isinstance(n.ctx, (ast.Store, ast.Del)):
                            return True
                        if isinstance(n, ast.Call) and dotted(n.func) in ("setattr", "object.__setattr__", "delattr"):
                            return True
        for m in self.repo.modules.values():
            for n in ast.walk(m.tree):
                if isinstance(n, ast.Attribute) and isinstance(n.ctx, (ast.Store, ast.Del)):
                    v = n.value
                    if (isinstance(v, ast.Name) and v.id == name) or (isinstance(v, ast.Attribute) and v.attr == name):
                        return True
                if isinstance(n, ast.Call) and dotted(n.func) == "setattr":
                    return True
        return False

    def _class_layout(self, cls):
        """(mro, kind) of a project class whose construction is understood: kind = 'init' (explicit __init__ somewhere in the
        mro), 'namedtuple' (typing.NamedTuple), 'dataclass' or 'plain' (no state).  Anything else (metaclass, foreign base
        class, __new__, __post_init__, other class decorators) raises NotPolynomial."""
        from optilint.model import ClassVal
        mro = self.repo.class_mro(cls)
        kind = "plain"
        for c in mro:
            if c.node.keywords:
                raise NotPolynomial("class keywords (metaclass) of " + c.qualname)
            for b in c.node.bases:
                vs = self.repo.resolve(b, c.parent)
                if len(vs) == 1 and isinstance(next(iter(vs)), ClassVal):
                    continue
                if len(vs) == 1 and isinstance(next(iter(vs)), ExtVal):
                    nm = next(iter(vs)).name
                    if nm == "builtins.object":
                        continue
                    if nm == "typing.NamedTuple" and c is cls and len(cls.node.bases) == 1:
                        kind = "namedtuple"
                        continue
                raise NotPolynomial("base class of " + c.qualname + " is not understood")
            for d in c.node.decorator_list:
                f = d.func if isinstance(d, ast.Call) else d
                vs = self.repo.resolve(f, c.parent)
                if len(vs) == 1 and isinstance(next(iter(vs)), ExtVal) and next(iter(vs)).name == "dataclasses.dataclass" \
                        and c is cls and len(mro) == 1 and not (isinstance(d, ast.Call) and (d.args or any(
                            k.arg not in ("frozen", "eq", "repr", "order", "slots", "unsafe_hash") for k in d.keywords))):
                    kind = "dataclass"
                    continue
                raise NotPolynomial("class decorator of " + c.qualname + " is not understood")
            for special in ("__new__", "__post_init__", "__getattr__", "__getattribute__", "__setattr__", "__init_subclass__"):
                if special in c.bindings:
                    raise NotPolynomial(f"{special} of {c.qualname}")
        if any("__init__" in c.bindings for c in mro):
            if kind != "plain":
                raise NotPolynomial("__init__ on a record class " + cls.qualname)
            kind = "init"
        return mro, kind

    def _method(self, cls, attr):
        """(function scope, decorator kind) of the method `attr` found first along the mro, else None"""
        for c in self.repo.class_mro(cls):
            bs = c.bindings.get(attr)
            if not bs:
                continue
            if len(bs) != 1 or bs[0].kind != "def":
                raise NotPolynomial(f"class attribute {c.qualname}.{attr} is not a single method")
            fsc = bs[0].extra
            decos = [norm_src(d) for d in fsc.node.decorator_list]
            if not decos:
                return fsc, "method"
            if decos in (["staticmethod"], ["classmethod"], ["property"]):
                return fsc, decos[0]
            raise NotPolynomial(f"decorated method {fsc.qualname}")
        return None

    def construct(self, cref: ClassRef, args, kwargs):
        if cref.nt is not None:
            fields = list(cref.nt.fields)
            vals = self._bind_fields(cref.nt.name, fields, {}, args, kwargs)
            return ObjVal(None, vals, tuple_like=True)
        cls = cref.scope
        mro, kind = self._class_layout(cls)
        if kind in ("namedtuple", "dataclass"):
            fields, defaults = [], {}
            for st in cls.node.body:
                if isinstance(st, ast.AnnAssign) and isinstance(st.target, ast.Name):
                    if "ClassVar" in norm_src(st.annotation) or "InitVar" in norm_src(st.annotation) or "field(" in norm_src(st.value or st.annotation):
                        raise NotPolynomial("special field declaration in " + cls.qualname)
                    fields.append(st.target.id)
                    if st.value is not None:
                        defaults[st.target.id] = st.value
                elif isinstance(st, ast.Assign):
                    raise NotPolynomial("class-level assignment in the record class " + cls.qualname)
            vals = self._bind_fields(cls.qualname, fields, defaults, args, kwargs, cls)
            return ObjVal(cls, vals, tuple_like=(kind == "namedtuple"))
        obj = ObjVal(cls, {})
        if kind == "plain":
            if args or kwargs:
                raise NotPolynomial("arguments for a class without constructor " + cls.qualname)
            return obj
        init = self._method(cls, "__init__")
        if init is None or init[1] != "method":
            raise NotPolynomial("constructor of " + cls.qualname)
        isc = init[0]
        for n in (x for st in isc.node.body for x in ast.walk(st)):
            if isinstance(n, (ast.If, ast.For, ast.While, ast.Try, ast.With, ast.Return, ast.FunctionDef, ast.Lambda, ast.Global, ast.Nonlocal)):
                raise NotPolynomial("control flow in the constructor " + isc.qualname)
        if len(self._stack) >= self.max_depth or isc in self._stack:
            raise NotPolynomial("call depth / recursion at " + isc.qualname)
        env = self.bind(FuncRef(isc, None, (obj,)), args, kwargs)
        obj.open_ = True
        self._stack.append(isc)
        try:
            if self.block(isc.node.body, env, isc) is not _FALL:
                raise NotPolynomial("constructor returns a value: " + isc.qualname)
        finally:
            self._stack.pop()
            obj.open_ = False
        if self.on_inline is not None:
            self.on_inline(isc)
        return obj

    def _bind_fields(self, label, fields, defaults, args, kwargs, cls=None):
        if len(args) > len(fields):
            raise NotPolynomial("too many arguments for " + label)
        vals = dict(zip(fields, args))
        for k, v in kwargs.items():
            if k in vals or k not in fields:
                raise NotPolynomial(f"bad keyword argument {k} for {label}")
            vals[k] = v
        out = {}
        for f in fields:
            if f in vals:
                out[f] = vals[f]
            elif f in defaults:
                out[f] = self.ev(defaults[f], Env(), cls)
            else:
                raise NotPolynomial(f"missing field {f} for {label}")
        return out

    def getattr_obj(self, obj: ObjVal, attr):
        if attr in obj.fields:
            return obj.fields[attr]
        if obj.cls is not None:
            m = self._method(obj.cls, attr)
            if m is not None:
                fsc, deco = m
                if deco == "staticmethod":
                    return FuncRef(fsc, None)
                if deco == "classmethod":
                    return FuncRef(fsc, None, (ClassRef(scope=obj.cls),))
                if deco == "property":
                    r = self.apply(FuncRef(fsc, None, (obj,)), [], {})
                    if self.on_inline is not None:
                        self.on_inline(fsc)
                    return r
                return FuncRef(fsc, None, (obj,))
        raise NotPolynomial(f"attribute {attr} of an instance of {obj.cls.qualname if obj.cls else 'a namedtuple'}")

    def _field(self, base, key):
        """structured atom for attribute / constant index on an opaque atom"""
        if isinstance(key, int):
            f = self.tuple_fields.get(base)
            if f and 0 <= key < len(f):
                return f"{base}.{f[key]}"
            return f"{base}[{key}]"
        return f"{base}.{key}"

    # ---------------------------------------------------------------- expressions
    def ev(self, e, env, scope=None):
        if isinstance(e, ast.Constant):
            if isinstance(e.value, bool):
                return BoolVal([()] if e.value else [])
            if isinstance(e.value, (int, float)):
                return self.num(e.value)
            if e.value is None:
                return None
            raise NotPolynomial(f"constant {e.value!r}")
        if isinstance(e, ast.Name):
            return self._name(e, env, scope)
        if isinstance(e, ast.Attribute):
            root = e
            while isinstance(root, (ast.Attribute, ast.Subscript)):
                root = root.value
            if isinstance(root, ast.Name) and not env.lookup(root.id)[0] and isinstance(e.value, ast.Name) \
                    and self._module_const(root.id, scope) is None and self._module_instance(root.id, scope) is not None:
                return self.getattr_obj(self._module_instance(root.id, scope), e.attr)
            if not (isinstance(root, ast.Name) and not env.lookup(root.id)[0]):
                # rooted at a local / parameter / call result: a field of an opaque structured value
                base = self.ev(e.value, env, scope)
                if isinstance(base, ObjVal):
                    return self.getattr_obj(base, e.attr)
                if isinstance(base, PW) and e.attr in ("T", "real"):
                    return base             # transpose / real part of a real vector or scalar
                if isinstance(base, PW):
                    return self.lift(lambda p: (self._index_atom(p.value, e.attr), t_fn("." + e.attr, p.term)), base)
                raise NotPolynomial("attribute of " + type(base).__name__)
            if scope is not None:
                vals = self.repo.resolve(e, scope)
                fs = [v for v in vals if isinstance(v, FuncVal)]
                if len(fs) == 1:
                    return FuncRef(fs[0].scope, None)
                if not fs and self._class_ref(vals) is not None:
                    return self._class_ref(vals)
                if isinstance(e.value, ast.Name):
                    # constant of another project module (Mod.const)
                    from optilint.model import ModVal
                    for mv in self.repo.resolve(e.value, scope):
                        if isinstance(mv, ModVal):
                            c = self._module_const(e.attr, mv.module.scope)
                            if c is not None:
                                return c
            d = dotted(e)
            if d is not None and d.split(".")[-1] == "pi":
                return self.atom_pw("pi")
            if d is not None:
                return self.atom_pw(d)
            raise NotPolynomial(norm_src(e))
        if isinstance(e, ast.Compare):
            vals = [self.ev(e.left, env, scope)] + [self.ev(c, env, scope) for c in e.comparators]
            res = None
            for (l, op, r) in zip(vals, e.ops, vals[1:]):
                if isinstance(op, (ast.Is, ast.IsNot)) and (l is None or r is None):
                    raise NotPolynomial("identity test")
                b = self.compare(l, type(op).__name__, r)
                res = b if res is None else self._and(res, b)
            return res
        if isinstance(e, ast.BoolOp):
            vals = [self._as_bool(self.ev(v, env, scope)) for v in e.values]
            res = vals[0]
            for v in vals[1:]:
                res = self._and(res, v) if isinstance(e.op, ast.And) else self._or(res, v)
            return res
        if isinstance(e, ast.UnaryOp):
            v = self.ev(e.operand, env, scope)
            if isinstance(e.op, (ast.Not, ast.Invert)):
                return self._neg(self._as_bool(v))
            if isinstance(e.op, ast.USub):
                return self.neg(v)
            if isinstance(e.op, ast.UAdd):
                return self._as_pw(v)
        if isinstance(e, ast.BinOp):
            l, r = self.ev(e.left, env, scope), self.ev(e.right, env, scope)
            if isinstance(l, BoolVal) and isinstance(r, BoolVal):
                if isinstance(e.op, ast.BitAnd):
                    return self._and(l, r)
                if isinstance(e.op, ast.BitOr):
                    return self._or(l, r)
                if isinstance(e.op, ast.BitXor):
                    return self._or(self._and(l, self._neg(r)), self._and(self._neg(l), r))
            return self.arith(e.op, l, r, e)
        if isinstance(e, ast.IfExp):
            c = self._as_bool(self.ev(e.test, env, scope))
            if c.dnf == [()]:
                return self.ev(e.body, env, scope)
            if not c.dnf:
                return self.ev(e.orelse, env, scope)
            return self.select(c, self.ev(e.body, env, scope), self.ev(e.orelse, env, scope))
        if isinstance(e, ast.Lambda):
            s = self.repo.scope_of(e)
            if s is None:
                raise NotPolynomial("lambda outside the program model")
            return FuncRef(s, env)
        if isinstance(e, (ast.Tuple, ast.List)):
            if any(isinstance(x, ast.Starred) for x in e.elts):
                raise NotPolynomial("starred element")
            return TupleVal([self.ev(x, env, scope) for x in e.elts])
        if isinstance(e, ast.Subscript):
            base = self.ev(e.value, env, scope)
            idx = e.slice
            k = None
            if isinstance(idx, ast.Constant) and isinstance(idx.value, int):
                k = idx.value
            elif isinstance(idx, ast.UnaryOp) and isinstance(idx.op, ast.USub) and isinstance(idx.operand, ast.Constant):
                k = -idx.operand.value
            if isinstance(base, ObjVal):
                if not base.tuple_like:
                    raise NotPolynomial("subscript of a helper-class instance")
                base = TupleVal(list(base.fields.values()))
            if isinstance(base, TupleVal) and k is not None:
                try:
                    return base.items[k]
                except IndexError:
                    raise NotPolynomial("index out of range")
            if isinstance(base, TupleVal) and k is None and not isinstance(idx, ast.Slice):
                # literal sequence indexed by a computed integer (array([a, b, c])[branch]): in-range literal indices only
                ip = self._int_pieces(self.ev(idx, env, scope))
                if ip is None or not all(0 <= j < len(base.items) for (_, j) in ip):
                    raise NotPolynomial("subscript " + norm_src(e))
                return self._dispatch(ip, lambda j: base.items[j])
            if k is not None and isinstance(base, PW):
                return self.lift(lambda p: (self._index_atom(p.value, k), t_fn(f"[{k}]", p.term)), base)
            raise NotPolynomial("subscript " + norm_src(e))
        if isinstance(e, (ast.ListComp, ast.GeneratorExp)) and len(e.generators) == 1 and not e.generators[0].ifs \
                and not e.generators[0].is_async:
            g = e.generators[0]
            it = self.ev(g.iter, env, scope)
            if not isinstance(it, TupleVal):
                raise NotPolynomial("comprehension over a non-literal sequence")
            out = []
            for v in it.items:
                inner = Env(env)
                self.assign(g.target, v, inner)
                out.append(self.ev(e.elt, inner, scope))
            return TupleVal(out)
        if isinstance(e, ast.NamedExpr) and isinstance(e.target, ast.Name):
            v = self.ev(e.value, env, scope)
            env[e.target.id] = v
            return v
        if isinstance(e, ast.Call):
            return self.call(e, env, scope)
        raise NotPolynomial(norm_src(e)[:80])

    def _index_atom(self, r: Rat, k):
        nm = None
        r = simplify(r)
        if r.d == Poly.const(1) and len(r.n.t) == 1:
            (m, c), = r.n.t.items()
            if c == 1 and len(m) == 1 and m[0][1] == 1:
                nm = m[0][0]
        if nm is not None:
            return self.A.atom(self._field(nm, k))
        return self.A.atom(f"({r!r})[{k}]" if isinstance(k, int) else f"({r!r}).{k}")

    # ---------------------------------------------------------------- calls
    def _prim_name(self, e, scope, env):
        """canonical name of a numeric-library primitive the call denotes, else None"""
        f = e.func
        d = dotted(f)
        if isinstance(f, ast.Name) and env.lookup(f.id)[0]:
            return None
        vals = self.repo.resolve(f, scope) if scope is not None else set()
        exts = [v for v in vals if isinstance(v, ExtVal)]
        if any(isinstance(v, FuncVal) for v in vals):
            return None
        if exts:
            parts = exts[0].name.split(".")
            if parts[0] in _NUMERIC_MODS:
                return ".".join(parts[-2:]) if len(parts) >= 2 and parts[-2] == "linalg" else parts[-1]
            return None
        if d and "." in d and d.split(".")[0] in _NUMERIC_MODS:
            parts = d.split(".")
            return ".".join(parts[-2:]) if len(parts) >= 2 and parts[-2] == "linalg" else parts[-1]
        return None

    def call(self, e, env, scope):
        if any(k.arg is None for k in e.keywords):
            raise NotPolynomial("** arguments")
        starred = any(isinstance(a, ast.Starred) for a in e.args)
        prim = self._prim_name(e, scope, env)
        if prim in ("tuple", "list") and len(e.args) == 1 and not e.keywords and not starred:
            v = self.ev(e.args[0], env, scope)
            if isinstance(v, TupleVal):
                return v
            raise NotPolynomial("tuple() of a non-literal sequence")
        if starred and prim is not None:
            raise NotPolynomial("star arguments of a library primitive")
        if prim is None and isinstance(e.func, ast.Attribute) and e.func.attr in ("dot", "sum", "clip", "vdot"):
            root = e.func.value
            while isinstance(root, (ast.Attribute, ast.Subscript)):
                root = root.value
            if isinstance(root, ast.Name) and env.lookup(root.id)[0] and not isinstance(env.lookup(root.id)[1], ObjVal):
                # array method on a local value: x.dot(y) == dot(x, y)
                e2 = ast.Call(func=ast.Name(id=e.func.attr, ctx=ast.Load()), args=[e.func.value] + list(e.args), keywords=e.keywords)
                r = self._primitive(e.func.attr, e2, env, scope)
                if r is not NotImplemented:
                    return r
        if prim is not None:
            r = self._primitive(prim, e, env, scope)
            if r is not NotImplemented:
                return r
            return self._opaque_call(prim, e, env, scope)
        if isinstance(e.func, ast.Attribute) and e.func.attr == "_replace" and not e.args:
            rootn = e.func.value
            if isinstance(rootn, ast.Name) and env.lookup(rootn.id)[0] and isinstance(env.lookup(rootn.id)[1], ObjVal) \
                    and env.lookup(rootn.id)[1].tuple_like:
                o = env.lookup(rootn.id)[1]
                new = dict(o.fields)
                for k in e.keywords:
                    if k.arg not in new:
                        raise NotPolynomial(f"_replace of an unknown field {k.arg}")
                    new[k.arg] = self.ev(k.value, env, scope)
                return ObjVal(o.cls, new, tuple_like=True)
        fv = self.ev(e.func, env, scope) if isinstance(e.func, (ast.Name, ast.Attribute, ast.Lambda)) else None
        if isinstance(e.func, ast.Call):
            # Helper(params)(x), make_branch(k)(x): the callee is itself the result of a call
            try:
                fv = self.ev(e.func, env, scope)
            except NotPolynomial:
                fv = None
            if not isinstance(fv, (ObjVal, FuncRef, ClassRef)):
                fv = None
        if isinstance(fv, ObjVal) and fv.cls is not None:
            m = self._method(fv.cls, "__call__")
            if m is None or m[1] != "method":
                raise NotPolynomial("call of an instance without __call__")
            fv = FuncRef(m[0], None, (fv,))
        if isinstance(fv, ClassRef):
            args = self._args(e, env, scope)
            kwargs = {k.arg: self.ev(k.value, env, scope) for k in e.keywords}
            label = fv.scope.qualname if fv.scope is not None else fv.nt.name
            try:
                return self.construct(fv, args, kwargs)
            except NotPolynomial as ex:
                return self._opaque_value(label, args, kwargs, why=str(ex))
        if isinstance(fv, FuncRef):
            args = self._args(e, env, scope)
            kwargs = {k.arg: self.ev(k.value, env, scope) for k in e.keywords}
            if fv.scope in self.symbolic or fv.scope.qualname in self.symbolic:
                return self._symbolic_app(fv, args, kwargs)
            try:
                r = self.apply(fv, args, kwargs)
            except NotPolynomial as ex:
                return self._opaque_value(fv.scope.qualname, args, kwargs, why=str(ex))
            if self.keep_only_reduced and not self._reduced(r):
                o = self._opaque_value(fv.scope.qualname, args, kwargs, why="not reduced", understood=True)
                nm = self.pure_atom(o)
                if nm is not None and isinstance(r, PW):
                    self.defs[nm] = r          # kept for demand-driven refinement (alternatives())
                return o
            if self.on_inline is not None and fv.scope.kind == "function":
                self.on_inline(fv.scope)
            return r
        return self._opaque_call(dotted(e.func) or norm_src(e.func), e, env, scope)

    def _args(self, e, env, scope):
        out = []
        for a in e.args:
            if isinstance(a, ast.Starred):
                v = self.ev(a.value, env, scope)
                if not isinstance(v, TupleVal):
                    raise NotPolynomial("star argument that is not a literal sequence")
                out.extend(v.items)
            else:
                out.append(self.ev(a, env, scope))
        return out

    def alternatives(self, r: Rat, depth=3, cap=64):
        """the values `r` can take when the opaque atoms that stand for interpreted-but-folded callees are replaced by
        the pieces of their inlined value (conditions dropped: an over-approximation of the set of values)"""
        alts = [r]
        for _ in range(depth):
            nxt, changed = [], False
            for x in alts:
                hit = [a for a in x.atoms() if a in self.defs]
                if not hit:
                    nxt.append(x)
                    continue
                changed = True
                for p in self.defs[hit[0]].pieces:
                    nxt.append(self.A.subst(x, hit[0], p.value))
            alts = nxt
            if not changed or len(alts) > cap:
                break
        return alts

    def _opaque_call(self, label, e, env, scope):
        if any(isinstance(a, ast.Starred) for a in e.args):
            raise NotPolynomial("star arguments")
        args = [self.ev(a, env, scope) for a in e.args]
        kwargs = {k.arg: self.ev(k.value, env, scope) for k in e.keywords}
        return self._opaque_value(label, args, kwargs)

    def _canon_arg(self, v):
        """list of (conds, text, term) alternatives for one argument of an uninterpreted application"""
        if isinstance(v, PW):
            return [(p.conds, repr(p.value), p.term) for p in v.pieces]
        if isinstance(v, TupleVal):
            alts = [((), [], [])]
            for it in v.items:
                nxt = []
                for (c, txt, tm) in alts:
                    for (c2, t2, tm2) in self._canon_arg(it):
                        nxt.append((_merge(c, c2), txt + [t2], tm + [tm2]))
                alts = nxt
            return [(c, "(" + ", ".join(t) + ")", t_fn("tuple", *tm)) for (c, t, tm) in alts]
        if isinstance(v, FuncRef):
            return [((), "<" + v.scope.qualname + ">", t_fn(v.scope.qualname))]
        if v is None:
            return [((), "None", t_fn("None"))]
        if isinstance(v, BoolVal):
            return [((), "<bool:" + ";".join(sorted("&".join(sorted(f"{a.key}={p}" for a, p in c)) for c in v.dnf)) + ">", t_fn("bool"))]
        raise NotPolynomial("argument of an uninterpreted call")

    def _reduced(self, v):
        if isinstance(v, TupleVal):
            return any(self._reduced(x) for x in v.items)
        if isinstance(v, (BoolVal, FuncRef)):
            return True
        if isinstance(v, PW):
            return all((p.value.n.is_const() and p.value.d.is_const()) or any(a in self.sym_apps for a in p.value.atoms())
                       for p in v.pieces)
        return False

    def _opaque_value(self, label, args, kwargs, why="", understood=False):
        alts = [((), [], [])]
        for v in list(args) + [kwargs[k] for k in sorted(kwargs)]:
            nxt = []
            for (c, txt, tm) in alts:
                for (c2, t2, tm2) in self._canon_arg(v):
                    nxt.append((_merge(c, c2), txt + [t2], tm + [tm2]))
            alts = nxt
        names = [k + "=" for k in sorted(kwargs)]
        out = []
        for (c, txt, tm) in alts:
            c = self._clean(c)
            if c is None:
                continue
            parts = txt[:len(args)] + [n + t for n, t in zip(names, txt[len(args):])]
            name = f"{label}({', '.join(parts)})"
            if not understood:
                self.opaque.add(name)
                if why:
                    self.failed.add(name)
            out.append(TPiece(c, self.A.atom(name), t_fn(label, *tm)))
        return PW(out)

    def _symbolic_app(self, fv, args, kwargs):
        env = self.bind(fv, args, kwargs)
        ps = fv.scope.params()
        vals = [self._as_pw(dict.__getitem__(env, p)) for p in ps]
        kind = self.symbolic[fv.scope] if fv.scope in self.symbolic else self.symbolic[fv.scope.qualname]
        if (kind == "abs" and len(vals) != 2) or (kind != "abs" and len(vals) != 3):
            raise NotPolynomial("unexpected signature of " + fv.scope.qualname)
        if kind == "abs":
            vals = [self.neg(vals[0]), vals[0], vals[1]]
        elif kind == "max":
            vals = [self.neg(vals[0]), self.neg(vals[1]), vals[2]]

        def f(pa, pb, pw_):
            a, b = sorted((pa.value, pb.value), key=repr)      # smin is symmetric in its first two arguments
            name = f"smin[{a!r} | {b!r} | {pw_.value!r}]"
            self.sym_apps[name] = ("smin", (a, b, pw_.value))
            return self.A.atom(name), t_fn("smin", pa.term, pb.term, pw_.term)
        r = self.lift(f, *vals)
        return r if kind == "min" else self.neg(r)

    def bind(self, fv: FuncRef, args, kwargs):
        sc = fv.scope
        node = sc.node
        a = node.args
        if a.kwarg is not None:
            raise NotPolynomial("**kwargs callee " + sc.qualname)
        pos = [x.arg for x in a.posonlyargs + a.args]
        kwonly = [x.arg for x in a.kwonlyargs]
        env = Env(fv.env)
        if getattr(fv, "bound", ()):
            args = list(fv.bound) + list(args)
        if a.vararg is not None:
            env[a.vararg.arg] = TupleVal(args[len(pos):])
            args = args[:len(pos)]
        if len(args) > len(pos):
            raise NotPolynomial(f"too many positional arguments for {sc.qualname}")
        for p, v in zip(pos, args):
            env[p] = v
        for k, v in kwargs.items():
            if k in env or k not in pos + kwonly:
                raise NotPolynomial(f"bad keyword argument {k} for {sc.qualname}")
            env[k] = v
        for p in pos + kwonly:
            if p not in env:
                d = sc.default_of(p)
                if d is None:
                    raise NotPolynomial(f"missing argument {p} for {sc.qualname}")
                env[p] = self.ev(d, Env(fv.env), sc.parent)
        return env

    def apply(self, fv: FuncRef, args, kwargs=None):
        sc = fv.scope
        if len(self._stack) >= self.max_depth or sc in self._stack:
            raise NotPolynomial("call depth / recursion at " + sc.qualname)
        env = self.bind(fv, args, kwargs or {})
        self._stack.append(sc)
        try:
            if isinstance(sc.node, ast.Lambda):
                r = self.ev(sc.node.body, env, sc)
            else:
                r = self.block(sc.node.body, env, sc)
                if r is _FALL:
                    raise NotPolynomial("no return value in " + sc.qualname)
        finally:
            self._stack.pop()
        return r

    def _primitive(self, prim, e, env, scope):
        E = lambda x: self.ev(x, env, scope)
        args = e.args
        kw = {k.arg: k.value for k in e.keywords}
        n = len(args)
        if (prim == "where" and n == 3) or (prim == "select" and n == 3 and not isinstance(args[0], (ast.List, ast.Tuple))):
            c = self._as_bool(E(args[0]))
            return self.select(c, E(args[1]), E(args[2]))
        if prim == "where" and n == 1 and "x" in kw and "y" in kw:
            return self.select(self._as_bool(E(args[0])), E(kw["x"]), E(kw["y"]))
        if prim == "select" and n >= 2 and isinstance(args[0], (ast.List, ast.Tuple)) and isinstance(args[1], (ast.List, ast.Tuple)) \
                and len(args[0].elts) == len(args[1].elts):
            default = E(args[2]) if n >= 3 else (E(kw["default"]) if "default" in kw else self.num(0))
            res = default
            for c, v in reversed(list(zip(args[0].elts, args[1].elts))):
                res = self.select(self._as_bool(E(c)), E(v), res)
            return res
        if prim == "piecewise" and n == 3 and isinstance(args[1], (ast.List, ast.Tuple)) and isinstance(args[2], (ast.List, ast.Tuple)) \
                and len(args[2].elts) in (len(args[1].elts), len(args[1].elts) + 1):
            x = E(args[0])

            def val(f):
                fv = E(f)
                return self.apply(fv, [x]) if isinstance(fv, FuncRef) else fv
            res = val(args[2].elts[-1]) if len(args[2].elts) > len(args[1].elts) else self.num(0)
            for c, f in reversed(list(zip(args[1].elts, args[2].elts))):
                res = self.select(self._as_bool(E(c)), val(f), res)
            return res
        if prim == "cond" and n >= 3:
            c = E(args[0])
            ft, ff = E(args[1]), E(args[2])
            if not (isinstance(ft, FuncRef) and isinstance(ff, FuncRef)):
                raise NotPolynomial("lax.cond branches are not known functions")
            ops = [E(a) for a in args[3:]]
            if "operand" in kw:
                ops = [E(kw["operand"])]
            c = self._as_bool(c)
            return self.select(c, self.apply(ft, ops), self.apply(ff, ops))
        if prim == "switch" and n >= 2 and not kw:
            # lax.switch(index, branches, *operands): the index is clamped into range; every value the index takes must be an
            # integer literal selected by understood predicates (where / masks / comparisons), else the call stays opaque
            br = E(args[1])
            if not (isinstance(br, TupleVal) and br.items and all(isinstance(b, FuncRef) for b in br.items)):
                return NotImplemented
            idx = self._int_pieces(E(args[0]))
            if idx is None:
                return NotImplemented
            ops = [E(a) for a in args[2:]]
            nb = len(br.items)
            return self._dispatch(idx, lambda k: self.apply(br.items[min(max(k, 0), nb - 1)], ops))
        if prim in ("abs", "fabs", "absolute") and n == 1:
            return self._abs(self._as_pw(E(args[0])))
        if prim in ("minimum", "maximum", "fmin", "fmax", "min", "max") and n == 2:
            a, b = self._as_pw(E(args[0])), self._as_pw(E(args[1]))
            lt = self.compare(a, "Lt", b)
            return self.select(lt, a, b) if prim in ("minimum", "fmin", "min") else self.select(lt, b, a)
        if prim == "clip" and n == 3:
            x, lo, hi = (self._as_pw(E(a)) for a in args)
            y = self.select(self.compare(x, "Lt", lo), lo, x)
            return self.select(self.compare(y, "Gt", hi), hi, y)
        if prim == "sign" and n == 1:
            u = self._as_pw(E(args[0]))
            out = []
            for p in u.pieces:
                lt = self.atom(p.value, "Lt", self.A.const(0))
                le = self.atom(p.value, "LtE", self.A.const(0))
                for conds, c in ((((lt, True),), -1), (((lt, False), (le, True)), 0), (((le, False),), 1)):
                    out.append(TPiece(_merge(p.conds, conds), self.A.const(c), t_const(c)))
            return PW(self._prune(out))
        if prim in ("sqrt", "safe_sqrt") and n == 1:
            return self._sqrt_pw(self._as_pw(E(args[0])))
        if prim == "square" and n == 1:
            u = self._as_pw(E(args[0]))
            return self.lift(lambda p: (self.A.norm(p.value * p.value), t_bin("*", p.term, p.term)), u)
        if prim in ("power", "pow", "float_power") and n == 2:
            return self.arith(ast.Pow(), E(args[0]), E(args[1]), e)
        if prim == "negative" and n == 1:
            return self.neg(E(args[0]))
        if prim in ("add", "subtract", "multiply", "divide", "true_divide") and n == 2:
            op = {"add": ast.Add(), "subtract": ast.Sub(), "multiply": ast.Mult()}.get(prim, ast.Div())
            return self.arith(op, E(args[0]), E(args[1]), e)
        if prim in ("logical_and", "logical_or", "logical_xor", "bitwise_and", "bitwise_or") and n == 2:
            l, r = self._as_bool(E(args[0])), self._as_bool(E(args[1]))
            if prim.endswith("and"):
                return self._and(l, r)
            if prim.endswith("xor"):
                return self._or(self._and(l, self._neg(r)), self._and(self._neg(l), r))
            return self._or(l, r)
        if prim in ("logical_not", "invert", "bitwise_not") and n == 1:
            return self._neg(self._as_bool(E(args[0])))
        cmpf = {"less": "Lt", "less_equal": "LtE", "greater": "Gt", "greater_equal": "GtE", "equal": "Eq", "not_equal": "NotEq"}
        if prim in cmpf and n == 2:
            return self.compare(E(args[0]), cmpf[prim], E(args[1]))
        if prim in ("dot", "vdot", "inner", "matmul") and n == 2:
            return self.arith(ast.MatMult(), E(args[0]), E(args[1]), e)
        if prim == "einsum" and n == 3 and isinstance(args[0], ast.Constant) and isinstance(args[0].value, str):
            spec = args[0].value.replace(" ", "")
            lhs, _, rhs = spec.partition("->")
            ab = lhs.split(",")
            if len(ab) == 2 and len(ab[0]) == 1 and ab[0] == ab[1] and rhs == "":
                return self.arith(ast.MatMult(), E(args[1]), E(args[2]), e)
            return NotImplemented
        if prim == "sum" and n == 1 and not kw:
            u = self._as_pw(E(args[0]))
            return self.lift(lambda p: (self._sum(p.value), t_fn("sum", p.term)), u)
        if prim in ("linalg.norm", "norm") and n == 1 and not kw:
            u = self._as_pw(E(args[0]))

            def f(p):
                r = self._norm(p.value)
                if r is None:
                    raise NotPolynomial("norm of a non-vector expression")
                return r, t_fn("norm", p.term)
            return self.lift(f, u)
        if prim in ("array", "asarray", "float", "float64", "float32", "stop_gradient") and n == 1 and not isinstance(args[0], (ast.List, ast.Tuple)):
            if prim == "stop_gradient":
                return NotImplemented
            return E(args[0])
        if prim in ("array", "asarray") and n >= 1:
            return E(args[0])
        return NotImplemented

    def _poly_root(self, p: Poly):
        """q with q*q == p for a multivariate polynomial that is a perfect square (the monomials of q are the roots of the
        even monomials of p with a square coefficient; their signs are found by trial), else None"""
        import math
        if len(p.t) < 2 or len(p.t) > 15:
            return None
        cands = []
        for m, c in p.t.items():
            if c > 0 and all(e % 2 == 0 for (_, e) in m):
                sn, sd = math.isqrt(c.numerator), math.isqrt(c.denominator)
                if sn * sn == c.numerator and sd * sd == c.denominator:
                    cands.append((tuple((k, e // 2) for (k, e) in m), Fraction(sn, sd)))
        if not 1 <= len(cands) <= 5:
            return None
        for signs in itertools.product((1, -1), repeat=len(cands) - 1):
            q = Poly({cands[0][0]: cands[0][1]})
            for sg, (m, c) in zip(signs, cands[1:]):
                q = q + Poly({m: sg * c})
            if (q * q) == p:
                return q
        return None

    def _sqrt(self, r: Rat):
        r = self.A.norm(r)
        qn = self._poly_root(r.n)
        qd = self._poly_root(r.d) if not r.d.is_const() else None
        if qn is not None and (qd is not None or r.d.is_const()):
            den = Rat(qd) if qd is not None else self.A.sqrt(Rat(r.d))
            s = Rat(qn) / den
        else:
            s = self.A.sqrt(r)
        for a in s.atoms():
            if a.startswith("sqrt["):
                self.nonneg.add(a)
        return self.A.norm(s)

    def _sqrt_pw(self, u: PW):
        """sqrt of a perfect square m^2 is |m|: m itself only when m is known to be >= 0, otherwise the two-piece |m|"""
        out = []
        for p in u.pieces:
            s = self._sqrt(p.value)
            exact_root = not any(a.startswith("sqrt[") for a in s.atoms()) and not (p.value.n.is_const() and p.value.d.is_const())
            if exact_root and sign_of(self, s) not in ("+", "0+", "0"):
                if sign_of(self, s) in ("-", "-0"):
                    out.append(TPiece(p.conds, self.A.norm(-s), t_fn("sqrt", p.term)))
                    continue
                at = self.atom(s, "Lt", self.A.const(0))
                out.append(TPiece(_merge(p.conds, ((at, True),)), self.A.norm(-s), t_fn("sqrt", p.term)))
                out.append(TPiece(_merge(p.conds, ((at, False),)), s, t_fn("sqrt", p.term)))
            else:
                out.append(TPiece(p.conds, s, t_fn("sqrt", p.term)))
        return PW(self._prune(out))

    def _abs(self, u: PW):
        if self.abs_as_atom:
            def f(p):
                r = p.value
                if r.n.is_const() and r.d.is_const():
                    c = r.n.const_value() / r.d.const_value()
                    return self.A.const(-c if c < 0 else c), t_const(-c if c < 0 else c)
                a, b = repr(r), repr(self.A.norm(-r))
                name = f"abs[{a if a <= b else b}]"
                self.nonneg.add(name)
                return self.A.atom(name), t_fn("abs", p.term)
            return self.lift(f, u)
        out = []
        for p in u.pieces:
            at = self.atom(p.value, "Lt", self.A.const(0))
            out.append(TPiece(_merge(p.conds, ((at, True),)), self.A.norm(-p.value), t_neg(p.term)))
            out.append(TPiece(_merge(p.conds, ((at, False),)), p.value, p.term))
        return PW(self._prune(out))

    # ---------------------------------------------------------------- statements
    def assign(self, target, value, env):
        if isinstance(target, ast.Name):
            env[target.id] = value
            return
        if isinstance(target, ast.Attribute) and isinstance(target.value, ast.Name):
            ok, o = env.lookup(target.value.id)
            if ok and isinstance(o, ObjVal) and o.open_ and not o.tuple_like:
                o.fields[target.attr] = value
                return
            raise NotPolynomial("attribute assignment " + norm_src(target))
        if isinstance(target, (ast.Tuple, ast.List)):
            n = len(target.elts)
            if any(isinstance(t, ast.Starred) for t in target.elts):
                raise NotPolynomial("starred assignment target")
            if isinstance(value, ObjVal) and value.tuple_like:
                value = TupleVal(list(value.fields.values()))
            if isinstance(value, TupleVal):
                if len(value.items) != n:
                    raise NotPolynomial("unpacking arity")
                for t, v in zip(target.elts, value.items):
                    self.assign(t, v, env)
                return
            if isinstance(value, PW):
                for k, t in enumerate(target.elts):
                    self.assign(t, self.lift(lambda p, k=k: (self._index_atom(p.value, k), t_fn(f"[{k}]", p.term)), value), env)
                return
        raise NotPolynomial("assignment target " + norm_src(target))

    def block(self, stmts, env, scope):
        for i, st in enumerate(stmts):
            if isinstance(st, ast.Expr):
                if not isinstance(st.value, ast.Constant):
                    # a bare call that can reach a symbolically constructed instance may change its state (self._setup(),
                    # helper.rescale(2), super().__init__()): not modelled, so the enclosing function is not understood
                    for n in ast.walk(st.value):
                        if isinstance(n, ast.Name) and (n.id == "super" or isinstance(env.lookup(n.id)[1], ObjVal)):
                            raise NotPolynomial("statement with a possible effect on an instance: " + norm_src(st)[:60])
                continue            # docstrings, bare calls (logging): no effect on the returned value
            if isinstance(st, (ast.Pass, ast.Assert, ast.Import, ast.ImportFrom)):
                continue
            if isinstance(st, ast.Assign):
                v = self.ev(st.value, env, scope)
                for t in st.targets:
                    self.assign(t, v, env)
                continue
            if isinstance(st, ast.AnnAssign):
                if st.value is not None:
                    self.assign(st.target, self.ev(st.value, env, scope), env)
                continue
            if isinstance(st, ast.AugAssign) and isinstance(st.target, ast.Name):
                cur = self.ev(ast.Name(id=st.target.id, ctx=ast.Load()), env, scope)
                env[st.target.id] = self.arith(st.op, cur, self.ev(st.value, env, scope), st)
                continue
            if isinstance(st, ast.FunctionDef):
                s = self.repo.scope_of(st)
                if s is None:
                    raise NotPolynomial("nested def outside the program model")
                env[st.name] = FuncRef(s, env)
                continue
            if isinstance(st, ast.For) and not st.orelse and not any(isinstance(n, (ast.Return, ast.Break, ast.Continue)) for n in ast.walk(st)):
                it = self.ev(st.iter, env, scope)
                if not isinstance(it, TupleVal):
                    raise NotPolynomial("loop over a non-literal sequence")
                for v in it.items:
                    self.assign(st.target, v, env)
                    if self.block(st.body, env, scope) is not _FALL:
                        raise NotPolynomial("return inside a loop")
                continue
            if isinstance(st, ast.Return):
                if st.value is None:
                    raise NotPolynomial("bare return")
                return self.ev(st.value, env, scope)
            if isinstance(st, ast.If):
                c = self._as_bool(self.ev(st.test, env, scope))
                rest = list(stmts[i + 1:])
                if c.dnf == [()]:
                    return self.block(list(st.body) + rest, env, scope)
                if not c.dnf:
                    return self.block(list(st.orelse) + rest, env, scope)
                r1 = self.block(list(st.body) + rest, env.fork(), scope)
                r2 = self.block(list(st.orelse) + rest, env.fork(), scope)
                if r1 is _FALL or r2 is _FALL:
                    raise NotPolynomial("a branch ends without a return value")
                return self.select(c, r1, r2)
            raise NotPolynomial("statement not supported: " + norm_src(st)[:60])
        return _FALL

    # ---------------------------------------------------------------- entry point
    def run(self, scope, args=None):
        """piecewise value of the function `scope` applied to atoms named after its parameters (or to `args`)"""
        if args is None:
            args = [self.atom_pw(p) for p in scope.params()]
        r = self.apply(FuncRef(scope, None), args, {})
        return r


# ------------------------------------------------------------------ switching surfaces

def exact_eval(r: Rat, pt: dict):
    env = {k: (v if isinstance(v, Fraction) else Fraction(v)) for k, v in pt.items()}
    env = {k: env[k] for k in r.atoms()}
    d = r.d.eval(env) if r.d.t else Fraction(0)
    n = r.n.eval(env) if r.n.t else Fraction(0)
    return Fraction(n) / Fraction(d)


def surfaces(pe: SymEval, pw: PW, var: str, nonneg=False, candidates=()):
    """[(Atom, [root Rat, ...] | None)] for every atom of the arrangement that depends on `var`.  Roots come from a linear /
    pure-square solve, or -- for any other shape -- from the candidate roots (the surfaces of the *specification*) that
    annihilate the atom's difference."""
    A = pe.A
    atoms = {}
    for p in pw.pieces:
        for (a, pol) in p.conds:
            atoms[a.key] = a
    out = []
    def depends(r: Rat, seen=()):
        for x in r.atoms():
            if x == var:
                return True
            if x in A.rules and x not in seen and depends(Rat(A.rules[x]), seen + (x,)):
                return True
        return False
    for a in atoms.values():
        if not depends(a.diff):
            continue
        if var not in a.diff.atoms() or any(x in A.rules and depends(Rat(A.rules[x]), (x,)) for x in a.diff.atoms()):
            out.append((a, None))       # depends on var through an algebraic (square-root) atom: not solvable here
            continue
        v = solve_linear(A, a.diff, var)
        if v is None and nonneg:
            v = solve_square(A, a.diff, var)
        if v is not None:
            out.append((a, [v]))
            continue
        roots = []
        if var not in a.diff.d.atoms():
            for c in candidates:
                try:
                    if A.is_zero(A.subst(Rat(a.diff.n), var, c)) and not any(A.equal(c, r) for r in roots):
                        roots.append(c)
                except NotPolynomial:
                    pass
        deg = a.diff.n.degree_in(var)
        out.append((a, roots if roots and len(roots) >= (1 if nonneg else deg) else None))
    return out


def cells(pe: SymEval, pw: PW, var: str, pt: dict, nonneg=False, spec=()):
    """Sample values of `var` hitting every cell of the arrangement (implementation surfaces + specification surfaces):
    every breakpoint, a point strictly between consecutive ones, points beyond both ends.
    Returns ([(value, [roots that hit it])], [unsolved atoms])."""
    surf = surfaces(pe, pw, var, nonneg, spec)
    unsolved = [a for (a, r) in surf if r is None]
    hits = {}
    for r in [x for (a, rs) in surf if rs for x in rs] + list(spec):
        try:
            v = exact_eval(r, pt)
        except (KeyError, ZeroDivisionError):
            continue
        if nonneg and v < 0:
            continue
        hits.setdefault(v, [])
        if not any(pe.A.equal(r, q) for q in hits[v]):
            hits[v].append(r)
    if nonneg:
        hits.setdefault(Fraction(0), [])
    vals = sorted(hits)
    if not vals:
        vals = [Fraction(0)]
        hits[Fraction(0)] = []
    out = [vals[0] - 1, vals[0] - Fraction(1, 3) * (1 + abs(vals[0]))]
    for i, v in enumerate(vals):
        out.append(v)
        if i + 1 < len(vals):
            out.append((v + vals[i + 1]) / 2)
            out.append(v + (vals[i + 1] - v) / 5)
    out += [vals[-1] + Fraction(1, 4), vals[-1] + 1, vals[-1] * 3 + 7]
    if nonneg:
        out = [v for v in out if v >= 0]
    return [(v, hits.get(v, [])) for v in sorted(set(out))], unsolved


def sign_of(pe: SymEval, r: Rat, positive=()):
    """'+', '0+', '0', '-0', '-' or None (unknown) for a rational function of atoms known to be >= 0 (pe.nonneg) / > 0."""
    def poly(p: Poly):
        if p.is_zero():
            return "0"
        lo = hi = True          # all terms >= 0 / all terms <= 0
        strict = False
        for m, c in p.t.items():
            s = 1 if c > 0 else -1
            st = True
            for (k, e) in m:
                if k in positive:
                    continue
                if k in pe.nonneg or e % 2 == 0:
                    st = False
                    continue
                return None
            if s > 0:
                hi = False
            else:
                lo = False
            strict = strict or st
        if lo:
            return "+" if strict else "0+"
        if hi:
            return "-" if strict else "-0"
        return None
    n, d = poly(r.n), poly(r.d)
    if n is None or d is None:
        return None
    if n == "0":
        return "0"
    if d in ("0", "0+", "-0"):
        d = "+" if d == "0+" else "-" if d == "-0" else None
    if d is None:
        return None
    flip = {"+": "-", "0+": "-0", "-": "+", "-0": "0+"}
    return n if d == "+" else flip[n]
