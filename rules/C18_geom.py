"""Corner geometry for C18: the smoothed corner distance as a function of the *coordinates* of a two-edge corner.

`GeoEval` extends the piecewise interpreter of C18_pw.py by small fixed-size vectors: a point is a tuple of scalar
piecewise values, an edge a tuple of points; + - * / act element-wise (with scalar broadcasting), dot / @ / norm / sum /
cross reduce.  With the parameters of `smooth_distance(twoEdges, p, smoothingTol)` bound to the coordinate atoms of a
corner  s -> c -> e  (two edges that share the vertex c) the function lowers to pieces

        conditions (polynomial in the coordinates)  ->  k * smin[a | b | w]          k = +-1

whose operands a, b, w are closed formulas of the coordinates (or canonical applications of callees the interpreter
cannot read).  Two facts are decided on that form (rules/C18.py: corner()):

  edge-order symmetry   the value for the edges given as (first, second) equals the value for (second, first) -- the caller
                        orders the two edges by proximity to the query point, so both orders occur for one corner;
  mirror = convexity    the orientation factor mirrors the smoothed minimum into the maximum exactly for the corners that
                        are convex with respect to the function's *own* plane distances (the far end of either edge lies
                        behind the other edge's line).

Nothing is imported from or executed in the analysed library.
"""
from __future__ import annotations

import ast
import math
from fractions import Fraction

from optilint.expr import NotPolynomial, Rat
from optilint.model import namedtuple_fields
from optilint.piecewise import PW
from .C18_pw import SymEval, TupleVal, TPiece, t_fn, t_var


class RecordVal(TupleVal):
    """a namedtuple built by the analysed code: a tuple whose positions also have names"""
    def __init__(self, items, fields):
        super().__init__(items)
        self.fields = tuple(fields)


class GeoEval(SymEval):
    def __init__(self, *a, **kw):
        super().__init__(*a, **kw)
        self.absdefs = {}          # abs[...] atom -> the Rat whose absolute value it denotes

    # ---------------------------------------------------------------- vectors
    def _bcast(self, fn, l, r):
        lt, rt = isinstance(l, TupleVal), isinstance(r, TupleVal)
        if lt and rt:
            if len(l.items) != len(r.items):
                raise NotPolynomial("element-wise operation on sequences of different length")
            return TupleVal([self._bcast(fn, x, y) for x, y in zip(l.items, r.items)])
        if lt:
            return TupleVal([self._bcast(fn, x, r) for x in l.items])
        if rt:
            return TupleVal([self._bcast(fn, l, y) for y in r.items])
        return fn(l, r)

    def _flat(self, v):
        if not isinstance(v, TupleVal) or any(isinstance(x, TupleVal) for x in v.items):
            raise NotPolynomial("vector of scalars expected")
        return [self._as_pw(x) for x in v.items]

    def _vdot(self, l, r, node=None):
        a, b = self._flat(l), self._flat(r)
        if len(a) != len(b) or not a:
            raise NotPolynomial("inner product of vectors of different length")
        acc = None
        for x, y in zip(a, b):
            t = super().arith(ast.Mult(), x, y, node)
            acc = t if acc is None else super().arith(ast.Add(), acc, t, node)
        return acc

    def arith(self, op, l, r, node=None):
        if isinstance(l, TupleVal) or isinstance(r, TupleVal):
            if isinstance(op, ast.MatMult):
                return self._vdot(l, r, node)
            if isinstance(op, ast.Pow) and isinstance(r, TupleVal):
                raise NotPolynomial("vector exponent")
            return self._bcast(lambda x, y: super(GeoEval, self).arith(op, x, y, node), l, r)
        return super().arith(op, l, r, node)

    def neg(self, v):
        if isinstance(v, TupleVal):
            return TupleVal([self.neg(x) for x in v.items])
        return super().neg(v)

    def _as_pw(self, v):
        if isinstance(v, TupleVal):
            raise NotPolynomial("a vector used as a scalar")
        return super()._as_pw(v)

    # ---------------------------------------------------------------- expressions
    def _local_root(self, e, env):
        root = e
        while isinstance(root, (ast.Attribute, ast.Subscript)):
            root = root.value
        return isinstance(root, ast.Name) and env.lookup(root.id)[0]

    def _record_fields(self, f, env, scope):
        """field names when `f` denotes a namedtuple type bound once at module level, else None"""
        if not isinstance(f, ast.Name) or env.lookup(f.id)[0] or scope is None:
            return None
        s, bs = self.repo.lookup(f.id, scope)
        if s is None:
            s, bs = self.repo.star_lookup(f.id, scope.module)
        if s is None or s.kind != "module" or len(bs) != 1:
            return None
        b = bs[0]
        if b.kind == "assign" and isinstance(b.value, ast.Call) and b.index is None \
                and (getattr(b.value.func, "id", None) or getattr(b.value.func, "attr", None)) == "namedtuple" and len(b.value.args) >= 2:
            nt = namedtuple_fields(b.value)
            return None if nt is None else tuple(nt.fields)
        return None

    def call(self, e, env, scope):
        if not any(k.arg is None for k in e.keywords) and not any(isinstance(a, ast.Starred) for a in e.args):
            fields = self._record_fields(e.func, env, scope)
            if fields is not None:
                vals = dict(zip(fields, [self.ev(a, env, scope) for a in e.args]))
                if len(e.args) > len(fields) or any(k.arg in vals or k.arg not in fields for k in e.keywords):
                    raise NotPolynomial("bad arguments of a namedtuple constructor")
                vals.update({k.arg: self.ev(k.value, env, scope) for k in e.keywords})
                if len(vals) != len(fields):
                    raise NotPolynomial("namedtuple constructor with defaulted fields")
                return RecordVal([vals[f] for f in fields], fields)
            if isinstance(e.func, ast.Attribute) and e.func.attr == "_replace" and not e.args and self._local_root(e.func, env):
                base = self.ev(e.func.value, env, scope)
                if isinstance(base, RecordVal) and all(k.arg in base.fields for k in e.keywords):
                    new = {k.arg: self.ev(k.value, env, scope) for k in e.keywords}
                    return RecordVal([new.get(f, v) for f, v in zip(base.fields, base.items)], base.fields)
        return super().call(e, env, scope)

    def ev(self, e, env, scope=None):
        if isinstance(e, ast.Attribute) and self._local_root(e, env):
            base = self.ev(e.value, env, scope)
            if isinstance(base, RecordVal) and e.attr in base.fields:
                return base.items[base.fields.index(e.attr)]
            if isinstance(base, TupleVal):
                if e.attr in ("T", "real") and not any(isinstance(x, TupleVal) for x in base.items):
                    return base
                raise NotPolynomial("attribute of a sequence")
        if isinstance(e, ast.Subscript) and isinstance(e.slice, ast.Tuple):
            # multi-index a[i, j] / a[i, :] on a literal nested sequence
            base = self.ev(e.value, env, scope)
            if isinstance(base, TupleVal):
                return self._multi_index(base, list(e.slice.elts))
        if isinstance(e, ast.Subscript) and isinstance(e.slice, ast.Slice) and e.slice.lower is None and e.slice.upper is None \
                and e.slice.step is None:
            base = self.ev(e.value, env, scope)
            if isinstance(base, TupleVal):
                return base
        return super().ev(e, env, scope)

    def _multi_index(self, base, idx):
        if not idx:
            return base
        i, rest = idx[0], idx[1:]
        if isinstance(i, ast.Slice) and i.lower is None and i.upper is None and i.step is None:
            if not isinstance(base, TupleVal):
                raise NotPolynomial("slice of a scalar")
            return TupleVal([self._multi_index(x, rest) for x in base.items]) if rest else base
        k = None
        if isinstance(i, ast.Constant) and isinstance(i.value, int):
            k = i.value
        elif isinstance(i, ast.UnaryOp) and isinstance(i.op, ast.USub) and isinstance(i.operand, ast.Constant):
            k = -i.operand.value
        if k is None or not isinstance(base, TupleVal):
            raise NotPolynomial("multi-index that is not a literal position")
        try:
            return self._multi_index(base.items[k], rest)
        except IndexError:
            raise NotPolynomial("index out of range")

    # ---------------------------------------------------------------- primitives
    def _primitive(self, prim, e, env, scope):
        args = e.args
        n = len(args)
        kw = {k.arg for k in e.keywords}
        if prim in ("dot", "vdot", "inner", "matmul") and n == 2 and not kw:
            l, r = self.ev(args[0], env, scope), self.ev(args[1], env, scope)
            if isinstance(l, TupleVal) or isinstance(r, TupleVal):
                return self._vdot(l, r, e)
            return super().arith(ast.MatMult(), l, r, e)
        if prim in ("linalg.norm", "norm") and n == 1 and not kw:
            v = self.ev(args[0], env, scope)
            if isinstance(v, TupleVal):
                return self._sqrt_pw(self._vdot(v, v, e))
            return self._with(e, [v], prim, env, scope)
        if prim == "sum" and n == 1 and not kw:
            v = self.ev(args[0], env, scope)
            if isinstance(v, TupleVal):
                acc = None
                for x in self._flat(v):
                    acc = x if acc is None else super().arith(ast.Add(), acc, x, e)
                return acc
            return self._with(e, [v], prim, env, scope)
        if prim == "cross" and n == 2 and not kw:
            l, r = self.ev(args[0], env, scope), self.ev(args[1], env, scope)
            if isinstance(l, TupleVal) and isinstance(r, TupleVal):
                a, b = self._flat(l), self._flat(r)
                if len(a) == 2 and len(b) == 2:
                    return super().arith(ast.Sub(), super().arith(ast.Mult(), a[0], b[1], e), super().arith(ast.Mult(), a[1], b[0], e), e)
            raise NotPolynomial("cross product of unsupported operands")
        if prim in ("array", "asarray", "stack", "hstack") and n >= 1 and isinstance(args[0], (ast.List, ast.Tuple)) and prim != "hstack":
            return self.ev(args[0], env, scope)
        if prim in ("abs", "fabs", "absolute", "negative", "sqrt", "square") and n == 1 and not kw:
            v = self.ev(args[0], env, scope)
            if isinstance(v, TupleVal):
                return TupleVal([self._with(e, [x], prim, env, scope) for x in v.items])
            return self._with(e, [v], prim, env, scope)
        return super()._primitive(prim, e, env, scope)

    def _with(self, e, values, prim, env, scope):
        """the inherited primitive applied to already evaluated argument values (arguments are evaluated once)"""
        inner = type(env)(env)
        names = []
        for i, v in enumerate(values):
            nm = f"__geo_arg{len(self._stack)}_{i}"
            inner[nm] = v
            names.append(ast.Name(id=nm, ctx=ast.Load()))
        e2 = ast.Call(func=e.func, args=names + list(e.args[len(values):]), keywords=e.keywords)
        return super()._primitive(prim, e2, inner, scope)

    def _abs(self, u: PW):
        r = super()._abs(u)
        if self.abs_as_atom:
            for p in u.pieces:
                a, b = repr(p.value), repr(self.A.norm(-p.value))
                self.absdefs.setdefault(f"abs[{a if a <= b else b}]", p.value)
        return r

    # ---------------------------------------------------------------- numeric points
    def value(self, r: Rat, full):
        """value of `r` at the point `full` (atom -> Fraction | float; extended in place, on demand, by the values of the
        abs[...] atoms and of the applications smin[a | b | w] of the smoothed minimum -- by its verified specification: the
        plain minimum outside the band |a-b| >= w, lowered by (|a-b|-w)^2/(4w) inside).  Exact whenever no norm is involved.
        KeyError for an atom that stands for an unread callee."""
        todo = list(r.n.atoms() | r.d.atoms())
        while todo:
            x = todo.pop()
            if x in full:
                continue
            if x in self.absdefs:
                full[x] = abs(self.value(self.absdefs[x], full))
            elif x in self.sym_apps:
                a, b, w = (self.value(y, full) for y in self.sym_apps[x][1])
                lo, gap = (a if a < b else b), abs(a - b)
                full[x] = lo if (w <= 0 or gap >= w) else lo - (gap - w) * (gap - w) / (4 * w)
            elif x in self.A.rules:
                todo += [y for y in self.A.rules[x].atoms() if y not in full]
                sq = self.value(Rat(self.A.rules[x]), full)
                if sq < 0:
                    raise ZeroDivisionError
                full[x] = math.sqrt(sq)
            else:
                raise KeyError(x)
        env = {k: full[k] for k in r.n.atoms() | r.d.atoms()}
        d = r.d.eval({k: env[k] for k in r.d.atoms()}) if r.d.t else 0
        n = r.n.eval({k: env[k] for k in r.n.atoms()}) if r.n.t else 0
        if d == 0:
            raise ZeroDivisionError
        return n / d if isinstance(n, float) or isinstance(d, float) else Fraction(n) / Fraction(d)

    def holds(self, conds, full, cache=None):
        """truth of a conjunction at a point: True / False, None when a condition cannot be evaluated there"""
        unknown = False
        for (a, pol) in conds:
            t = cache.get(a.key, 0) if cache is not None else 0
            if t == 0:
                try:
                    v = self.value(a.diff, full)
                    t = (v < 0) if a.op == "Lt" else (v <= 0)
                except (KeyError, ZeroDivisionError, TypeError):
                    t = None
                if cache is not None:
                    cache[a.key] = t
            if t is None:
                unknown = True
            elif t != pol:
                return False
        return None if unknown else True


def vec(ev: SymEval, name, dim=2):
    return TupleVal([ev.atom_pw(f"{name}{'xyz'[i]}") for i in range(dim)])


def names(name, dim=2):
    return [f"{name}{'xyz'[i]}" for i in range(dim)]
