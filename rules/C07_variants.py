"""Bolder selftest variants for C07 (round 2): whole anchor functions rewritten the way a maintainer might -- NamedTuple carries, module-level
helpers with functools.partial, dict / match dispatch, broadcast_to instead of a vmapped identity, operators written as methods, custom_vjp
applied by assignment -- each preserving variant paired with subtle breaking edits *of the rewritten code*.  The rules decide values, so neither
kind may depend on how the code is spelled.  Text-level edits return None (variant skipped) when the reference text is not found."""
from __future__ import annotations

N = "optimism/inverse/NonlinearSolve.py"
O = "optimism/Objective.py"
MIp = "optimism/inverse/MechanicsInverse.py"
A = "optimism/inverse/AdjointFunctionSpace.py"
E = "optimism/EquationSolver.py"
D2, D3, D4, D5 = "D2/T5-custom-vjp-contract", "D3/T5-parameter-slots", "D4/T7-adjoint-sign", "D5/T6-adjoint-function-space"


def _whole(text):
    return lambda src: text


def _then(edit, *pairs):
    """edit followed by literal replacements (each must apply)"""
    def f(src):
        t = edit(src)
        for old, new in pairs:
            if t is None or old not in t:
                return None
            t = t.replace(old, new)
        return t
    return f

# ------------------------------------------------------------------ adjoint function space
AFS_CARRY = '''from functools import partial
from typing import NamedTuple
from optimism import FunctionSpace
from optimism import Interpolants
from optimism import Mesh
from optimism.FunctionSpace import compute_element_volumes
from optimism.FunctionSpace import compute_element_volumes_axisymmetric
from optimism.FunctionSpace import map_element_shape_grads
from jax import vmap
import jax.numpy as jnp


class _ElementData(NamedTuple):
    shapes: object
    vols: object
    shapeGrads: object


_VOLUME_FUNCTIONS = {'cartesian': (compute_element_volumes, False),
                     'axisymmetric': (compute_element_volumes_axisymmetric, True)}


def _element_data(X, refShapes, msh, weights, volume_function):
    nElems = len(msh.conns)
    nq, nn = refShapes.values.shape
    shapes = jnp.broadcast_to(refShapes.values, (nElems, nq, nn))
    grads = vmap(partial(map_element_shape_grads, X), (0, None, None))(msh.conns, msh.parentElement, refShapes.gradients)
    vols = vmap(lambda c: volume_function(X, c, msh.parentElement, refShapes.values, weights))(msh.conns)
    return _ElementData(shapes=shapes, vols=vols, shapeGrads=grads)


def construct_function_space_for_adjoint(X, refShapes, msh, quadRule, mode2D='cartesian'):
    volume_function, axisymmetric = _VOLUME_FUNCTIONS[mode2D]
    data = _element_data(X, refShapes, msh, quadRule.wgauss, volume_function)
    movedMesh = Mesh.Mesh(X, *msh[1:-1])
    return FunctionSpace.FunctionSpace(data.shapes, data.vols, data.shapeGrads, movedMesh, quadRule, axisymmetric)
'''

AFS_MATCH = '''from optimism import FunctionSpace
from optimism import Mesh
from optimism.FunctionSpace import compute_element_volumes
from optimism.FunctionSpace import compute_element_volumes_axisymmetric
from optimism.FunctionSpace import map_element_shape_grads
import jax
import jax.numpy as np


def construct_function_space_for_adjoint(coords, shapeOnRef, mesh, quadratureRule, mode2D='cartesian'):
    match mode2D:
        case 'cartesian':
            isAxisymmetric = False
        case 'axisymmetric':
            isAxisymmetric = True
    el_vols = compute_element_volumes_axisymmetric if isAxisymmetric else compute_element_volumes

    conns, parent = mesh.conns, mesh.parentElement
    shapes = np.repeat(shapeOnRef.values[np.newaxis], conns.shape[0], axis=0)

    def on_element(elConns, elShapes):
        grads = map_element_shape_grads(coords, elConns, parent, shapeOnRef.gradients)
        vol = el_vols(coords, elConns, parent, elShapes, quadratureRule.wgauss)
        return grads, vol

    shapeGrads, vols = jax.vmap(on_element)(conns, shapes)
    fields = mesh._asdict()
    fields.update(coords=coords, block_maps=None)
    return FunctionSpace.FunctionSpace(shapes=shapes, vols=vols, shapeGrads=shapeGrads, mesh=Mesh.Mesh(**fields),
                                       quadratureRule=quadratureRule, isAxisymmetric=isAxisymmetric)
'''

AFS_DELEGATE = '''from optimism import FunctionSpace
from optimism import Mesh


def _move_mesh(mesh, newCoords):
    """the same mesh with its nodes at newCoords (block maps are not carried over)"""
    return mesh._replace(coords=newCoords, block_maps=None)


def construct_function_space_for_adjoint(coords, shapeOnRef, mesh, quadratureRule, mode2D='cartesian'):
    return FunctionSpace.construct_function_space_from_parent_element(mesh=_move_mesh(mesh, coords), shapeOnRef=shapeOnRef,
                                                                      quadratureRule=quadratureRule, mode2D=mode2D)
'''

AFS_UNBATCHED = '''from optimism import FunctionSpace
from optimism import Mesh
from optimism.FunctionSpace import compute_element_volumes
from optimism.FunctionSpace import compute_element_volumes_axisymmetric
from optimism.FunctionSpace import map_element_shape_grads
from jax import vmap
import jax.numpy as np

_MODES = ('cartesian', 'axisymmetric')

def construct_function_space_for_adjoint(coords, shapeOnRef, mesh, quadratureRule, mode2D='cartesian'):
    if mode2D not in _MODES:
        raise ValueError('unknown mode2D ' + str(mode2D))
    isAxisymmetric = (mode2D == _MODES[1])
    el_vols = {False: compute_element_volumes, True: compute_element_volumes_axisymmetric}[isAxisymmetric]

    shapeGrads = vmap(map_element_shape_grads, in_axes=(None, 0, None, None))(coords, mesh.conns, mesh.parentElement, shapeOnRef.gradients)
    # the parent shape values are the same on every element: pass them unbatched
    vols = vmap(el_vols, (None, 0, None, None, None))(coords, mesh.conns, mesh.parentElement, shapeOnRef.values, quadratureRule.wgauss)
    shapes = np.broadcast_to(shapeOnRef.values[None, ...], (vols.shape[0], *shapeOnRef.values.shape))

    return FunctionSpace.FunctionSpace(shapes, vols, shapeGrads, Mesh.Mesh(coords, *mesh[1:8]), quadratureRule, isAxisymmetric)
'''

AFS_STALE = '''from optimism import FunctionSpace
from optimism import Mesh


def _move_mesh(mesh, newCoords):
    return mesh._replace(coords=newCoords, block_maps=None)


def construct_function_space_for_adjoint(coords, shapeOnRef, mesh, quadratureRule, mode2D='cartesian'):
    fs = FunctionSpace.construct_function_space_from_parent_element(mesh, shapeOnRef, quadratureRule, mode2D)
    return FunctionSpace.FunctionSpace(fs.shapes, fs.vols, fs.shapeGrads, _move_mesh(mesh, coords), quadratureRule, fs.isAxisymmetric)
'''

# ------------------------------------------------------------------ reverse rules
NS_CARRY = '''from typing import NamedTuple
from optimism.JaxConfig import *
from jax import custom_jvp, custom_vjp
import jax

from optimism import EquationSolver
from optimism import Objective
from optimism import WarmStart


class _Saved(NamedTuple):
    """what the forward pass hands to the backward pass"""
    solution: object
    parameters: object


_DESIGN_SLOT = Objective.Params._fields.index('design_data')
_SENSITIVITY_SLOTS = (0, 1, 2, 4)


def _adjoint_vector(objective, settings, Uu, cotangent, start):
    """lam with H lam = -cotangent"""
    operator = jax.tree_util.Partial(objective.hessian_vec, Uu)
    lam, *_ = EquationSolver.solve_trust_region_minimization(start, cotangent, operator, objective.apply_precond,
                                                             float('inf'), settings)
    return lam


def _with_design(objective, designParams):
    return objective.p._replace(design_data=designParams)


@partial(custom_vjp, nondiff_argnums=(0,1))
def nonlinear_solve(mechanicalEnergy, settings, UuGuess, designParams):
    solution = EquationSolver.nonlinear_equation_solve(mechanicalEnergy, UuGuess, _with_design(mechanicalEnergy, designParams), settings)
    return solution[0]


def nonlinear_solve_f(objective, solverSettings, guess, design):
    Uu = nonlinear_solve(objective, solverSettings, guess, design)
    return Uu, _Saved(solution=Uu, parameters=design)


def nonlinear_solve_b(objective, solverSettings, saved, ct):
    objective.p = _with_design(objective, saved.parameters)
    lam = _adjoint_vector(objective, solverSettings, saved.solution, ct, 0.0*saved.solution)
    sensitivity, = getattr(objective, 'vec_jacobian_p%d' % _DESIGN_SLOT)(saved.solution, lam)
    return np.zeros_like(saved.solution)*ct[0], sensitivity

nonlinear_solve.defvjp(nonlinear_solve_f, nonlinear_solve_b)


### new version

@partial(custom_vjp, nondiff_argnums=(0,1))
def nonlinear_solve_with_state(mechanicalEnergy, settings, UuGuess, p):

    mechanicalEnergy.update_precond(UuGuess)
    UuGuess += WarmStart.warm_start_increment_jax_safe(mechanicalEnergy, UuGuess, p[0])

    Uu, solverSuccess = EquationSolver.nonlinear_equation_solve(mechanicalEnergy,
                                                                UuGuess,
                                                                p,
                                                                settings,
                                                                useWarmStart=False)
    return Uu


def nonlinear_solve_with_state_f(mechanicalEnergy, settings, UuGuess, p):
    Uu = nonlinear_solve_with_state(mechanicalEnergy, settings, UuGuess, p)
    return Uu, _Saved(Uu, p)


def nonlinear_solve_with_state_b(objective, solverSettings, saved, ct):
    Uu, p = saved
    objective.p = p
    zero = np.zeros_like(Uu)
    lam = _adjoint_vector(objective, solverSettings, Uu, ct, zero)
    pullbacks = {k: getattr(objective, 'vec_jacobian_p{}'.format(k)) for k in _SENSITIVITY_SLOTS}
    sens = {name: (pullbacks[k](Uu, lam)[0] if k in pullbacks and p[k] is not None else None)
            for k, name in enumerate(Objective.Params._fields)}
    return zero, Objective.Params(**sens)


nonlinear_solve_with_state.defvjp(nonlinear_solve_with_state_f, nonlinear_solve_with_state_b)
'''

NS_ASSIGNED = '''from optimism.JaxConfig import *
from jax import custom_jvp, custom_vjp

from optimism import EquationSolver
from optimism import Objective
from optimism import WarmStart


def _equilibrium_for_design(mechanicalEnergy, settings, UuGuess, designParams):
    p = Objective.param_index_update(mechanicalEnergy.p, 2, designParams)
    Uu, _ = EquationSolver.nonlinear_equation_solve(mechanicalEnergy, UuGuess, p, settings)
    return Uu


def _nonlinear_solve_fwd(mechanicalEnergy, settings, UuGuess, designParams):
    Uu = _equilibrium_for_design(mechanicalEnergy, settings, UuGuess, designParams)
    return Uu, (Uu, designParams)


def _solve_adjoint(mechanicalEnergy, settings, Uu, v):
    def hess_vec_func(w):
        return mechanicalEnergy.hessian_vec(x=Uu, vx=w)
    return EquationSolver.solve_trust_region_minimization(x=np.zeros_like(Uu), r=v, hess_vec_func=hess_vec_func,
                                                          precond=mechanicalEnergy.apply_precond, trSize=np.inf, settings=settings)[0]


def _nonlinear_solve_bwd(mechanicalEnergy, settings, rdata, v):
    Uu, designParams = rdata
    mechanicalEnergy.p = Objective.param_index_update(mechanicalEnergy.p, 2, designParams)
    lam = _solve_adjoint(mechanicalEnergy, settings, Uu, v)
    return np.zeros(Uu.shape), mechanicalEnergy.vec_jacobian_p2(Uu, lam)[0]


nonlinear_solve = custom_vjp(_equilibrium_for_design, nondiff_argnums=(0, 1))
nonlinear_solve.defvjp(fwd=_nonlinear_solve_fwd, bwd=_nonlinear_solve_bwd)
nonlinear_solve_f, nonlinear_solve_b = _nonlinear_solve_fwd, _nonlinear_solve_bwd


### new version

def _equilibrium_with_state(mechanicalEnergy, settings, UuGuess, p):
    mechanicalEnergy.update_precond(UuGuess)
    UuGuess += WarmStart.warm_start_increment_jax_safe(mechanicalEnergy, UuGuess, p[0])
    Uu, solverSuccess = EquationSolver.nonlinear_equation_solve(mechanicalEnergy, UuGuess, p, settings, useWarmStart=False)
    return Uu


nonlinear_solve_with_state = partial(custom_vjp, nondiff_argnums=(0,1))(_equilibrium_with_state)


def nonlinear_solve_with_state_f(mechanicalEnergy, settings, UuGuess, p):
    Uu = nonlinear_solve_with_state(mechanicalEnergy, settings, UuGuess, p)
    return Uu, (Uu, p)


def nonlinear_solve_with_state_b(mechanicalEnergy, settings, rdata, v):
    Uu, p = rdata
    mechanicalEnergy.p = p
    lam = _solve_adjoint(mechanicalEnergy, settings, Uu, v)
    slots = (mechanicalEnergy.vec_jacobian_p0, mechanicalEnergy.vec_jacobian_p1, mechanicalEnergy.vec_jacobian_p2, None,
             mechanicalEnergy.vec_jacobian_p4, None)
    dp = tuple(None if (pull is None or pk is None) else pull(Uu, lam)[0] for pull, pk in zip(slots, p))
    return np.zeros_like(Uu), Objective.Params(*dp)


nonlinear_solve_with_state.defvjp(nonlinear_solve_with_state_f, nonlinear_solve_with_state_b)
'''

# ------------------------------------------------------------------ Objective: operators from method factories / as methods

_PIU_NEW = '''def param_index_update(p, index, newParam):
    if index not in range(len(Params._fields)):
        print('invalid index passed to param_index_update = ', index)
        return None
    head = tuple(p)[:index]
    tail = tuple(p)[index+1:len(Params._fields)]
    return Params._make(head + (newParam,) + tail)


'''

_OBJ_LOOP = '''        for slot, name in ((0, 'jac_xp_vec'), (2, 'jac_xp2_vec')):
            setattr(self, name, jit(self._residual_jvp_wrt_slot(slot)))
        for slot in (0, 1, 2, 4):
            setattr(self, 'vec_jac_xp' + str(slot), jit(self._residual_vjp_wrt_slot(slot)))


'''

_OBJ_LOOP_HELPERS = '''
    def _residual_of_slot(self, x, p, slot):
        """q -> residual at x with parameter slot `slot` replaced by q"""
        def residual(q):
            return self.grad_x(x, param_index_update(p, slot, q))
        return residual

    def _residual_jvp_wrt_slot(self, slot):
        def jac_vec(x, p, vp):
            primal_out, tangent_out = jvp(self._residual_of_slot(x, p, slot), (p[slot],), (vp,))
            return tangent_out
        return jac_vec

    def _residual_vjp_wrt_slot(self, slot):
        def vec_jac(x, p, vx):
            _, pullback = vjp(self._residual_of_slot(x, p, slot), p[slot])
            return pullback(vx)
        return vec_jac

    def _vec_jacobian(self, slot, x, vp):
        return getattr(self, f'vec_jac_xp{slot}')(x, self.p, vp)

    def value(self, x):'''

_OBJ_METHODS = '''        self.jac_xp_vec = jit(partial(self._jac_xp_vec, 0))
        self.jac_xp2_vec = jit(partial(self._jac_xp_vec, 2))

'''

_OBJ_METHODS_HELPERS = '''
    def _jac_xp_vec(self, slot, x, p, vp):
        return jvp(lambda q: self.grad_x(x, param_index_update(p, slot, q)), (p[slot],), (vp,))[1]

    def _vec_jac_xp(self, slot, x, p, vx):
        return vjp(lambda q: self.grad_x(x, param_index_update(p, slot, q)), p[slot])[1](vx)

    def vec_jac_xp0(self, x, p, vx):
        return self._vec_jac_xp(0, x, p, vx)

    def vec_jac_xp1(self, x, p, vx):
        return self._vec_jac_xp(1, x, p, vx)

    def vec_jac_xp2(self, x, p, vx):
        return self._vec_jac_xp(2, x, p, vx)

    def vec_jac_xp4(self, x, p, vx):
        return self._vec_jac_xp(4, x, p, vx)

    def value(self, x):'''


def _cut(src, a, b):
    """src[a-marker : b-marker) or None"""
    if a not in src or b not in src:
        return None
    return src[src.index(a):src.index(b)]


def obj_loop(src):
    piu = _cut(src, "def param_index_update(p, index, newParam):", "class PrecondStrategy:")
    cl = _cut(src, "        self.jac_xp_vec = jit(lambda x, p, vp0:", "        self.grad_and_tangent = lambda x, p:")
    if piu is None or cl is None or "\n    def value(self, x):" not in src:
        return None
    new = src.replace(piu, _PIU_NEW).replace(cl, _OBJ_LOOP).replace("\n    def value(self, x):", _OBJ_LOOP_HELPERS, 1)
    for k in (0, 1, 2, 4):
        new = new.replace(f"        return self.vec_jac_xp{k}(x, self.p, vp)", f"        return self._vec_jacobian({k}, x, vp)")
    return new if new.count("_vec_jacobian(") == 5 else None


def obj_methods(src):
    cl = _cut(src, "        self.jac_xp_vec = jit(lambda x, p, vp0:", "        self.grad_and_tangent = lambda x, p:")
    if cl is None or "\n    def value(self, x):" not in src:
        return None
    return src.replace(cl, _OBJ_METHODS).replace("\n    def value(self, x):", _OBJ_METHODS_HELPERS, 1)


# ------------------------------------------------------------------ MechanicsInverse: module-level pull-back helpers, partial, multi-primal vjp

_MI_TAIL = '''
def _pull_back(function, position, arguments, cotangent):
    """cotangent . d function / d arguments[position], all other arguments held fixed"""
    def of_selected(z):
        full = arguments[:position] + (z,) + arguments[position+1:]
        return function(*full)
    _, pullback = vjp(of_selected, arguments[position])
    (bar,) = pullback(cotangent)
    return bar


def _residual_vjp_ivs_prev(residual, u, q, iv, x, vx):
    return _pull_back(residual, 2, (u, q, iv, x), vx)


def _residual_vjp_coords_path_dependent(residual, u, q, iv, x, vx):
    outputs, pullback = vjp(residual, u, q, iv, x)
    return pullback(vx)[3]


def create_path_dependent_residual_inverse_functions(energyFunction):
    residual = grad(energyFunction)
    functions = dict(residual_jac_ivs_prev_vjp=jit(partial(_residual_vjp_ivs_prev, residual)),
                     residual_jac_coords_vjp=jit(partial(_residual_vjp_coords_path_dependent, residual)))
    return PathDependentResidualInverseFunctions(**functions)


def create_residual_inverse_functions(energyFunction):
    residual = grad(energyFunction, argnums=0)

    @jit
    def compute_partial_residual_partial_coords(u, q, x, vx):
        return _pull_back(residual, 2, (u, q, x), vx)

    return ResidualInverseFunctions(residual_jac_coords_vjp=compute_partial_residual_partial_coords)
'''


def mi_helpers(src):
    a, b = "def create_ivs_update_inverse_functions(", "def create_path_dependent_residual_inverse_functions("
    if a not in src or b not in src:
        return None
    head, ivs = src[:src.index(a)], src[src.index(a):src.index(b)]
    ivs1 = ivs.replace("""    compute_partial_ivs_update_partial_coords = jit(lambda u, ivs, x, av, dt=0.0: 
                                                    vjp(lambda z: compute_ivs_update_parameterized(u, ivs, z, dt), x)[1](av)[0])
""", """    @jit
    def compute_partial_ivs_update_partial_coords(u, ivs, x, av, dt=0.0):
        return _pull_back(compute_ivs_update_parameterized, 2, (u, ivs, x, dt), av)
""").replace("""    compute_partial_ivs_update_partial_disp = jit(lambda x, ivs, av, dt=0.0: 
                                                  vjp(lambda z: compute_ivs_update(z, ivs, dt), x)[1](av)[0])
""", """    def compute_partial_ivs_update_partial_disp(x, ivs, av, dt=0.0):
        return vjp(partial(compute_ivs_update, stateVariables=ivs, dt=dt), x)[1](av)[0]
""").replace("                                     compute_partial_ivs_update_partial_disp,\n", "                                     jit(compute_partial_ivs_update_partial_disp),\n")
    if ivs1.count("_pull_back") != 1 or "jit(compute_partial_ivs_update_partial_disp)" not in ivs1:
        return None
    return head + ivs1 + _MI_TAIL


# ------------------------------------------------------------------ EquationSolver: set-up under a context manager; CG with a NamedTuple carry

_ES_SOLVE = '''def nonlinear_equation_solve(objective, x0, p, settings,
                             solver_algorithm=trust_region_minimize,
                             callback=None,
                             useWarmStart=True,
                             updatePrecond=True):
    xBar0 = objective.scaling * x0
    with Timer(name="nonlinear_equation_solve setup"):
        if useWarmStart:
            if updatePrecond:
                objective.update_precond(xBar0)
            xBar0 += WarmStart.warm_start_increment(objective, xBar0, p)
        objective.p = p
        if updatePrecond:
            objective.update_precond(xBar0)
    for attempt in range(1):
        xBar, solverSuccess = solver_algorithm(objective, xBar0, settings, callback=callback)
    return objective.invScaling * xBar, solverSuccess
'''

_CG_CARRY = '''class _CGState(NamedTuple):
    z: object
    r: object
    d: object
    rPr: object
    zz: object
    zd: object
    dd: object


def _cg_step_length(state, hess_vec_func):
    Hd = hess_vec_func(state.d)
    curvature = np.dot(state.d, Hd)
    return Hd, curvature, state.rPr / curvature


def solve_trust_region_minimization(x, r, hess_vec_func, precond, trSize, settings):
    # minimize r@z + 0.5*z@J@z
    z = 0.*x

    cgInexactRelTol = settings.cg_inexact_solve_ratio
    cgTolSquared = max(settings.cg_tol**2, cgInexactRelTol*cgInexactRelTol*r@r)
    if r@r < cgTolSquared:
        return z, z, interiorString, 0

    Pr = precond(r)
    d = -Pr
    cauchyP = np.array(d)
    rPr = r@Pr

    if settings.use_preconditioned_inner_product_for_cg:
        dd = rPr
        cg_inner_products = cg_inner_products_preconditioned
    else:
        dd = d @ d
        cg_inner_products = cg_inner_products_unpreconditioned

    state = _CGState(z=z, r=r, d=d, rPr=rPr, zz=0.0, zd=0.0, dd=dd)
    for i in range(settings.max_cg_iters):
        Hd, curvature, alpha = _cg_step_length(state, hess_vec_func)
        zNp1 = state.z + alpha*state.d
        zzNp1 = update_step_length_squared(alpha, state.zz, state.zd, state.dd)

        if curvature <= 0 or zzNp1 > trSize**2:
            zOut = project_to_boundary_with_coefs(state.z, state.d, trSize, state.zz, state.zd, state.dd)
            return zOut, cauchyP, (negCurveString if curvature <= 0 else boundaryString), i+1

        rNew = state.r + alpha * Hd
        Pr = precond(rNew)
        rPrNp1 = rNew@Pr
        if rNew@rNew < cgTolSquared:
            return zNp1, cauchyP, interiorString, i+1

        beta = rPrNp1 / state.rPr
        d = beta*state.d - Pr
        zd, dd = cg_inner_products(alpha, beta, state.zd, state.dd, rPrNp1, zNp1, d)
        state = _CGState(zNp1, rNew, d, rPrNp1, zzNp1, zd, dd)

    return state.z, cauchyP, interiorString+'_', i+1


'''


def es_solve(src):
    a = "def nonlinear_equation_solve(objective, x0, p, settings,"
    b = "    return objective.invScaling * xBar, solverSuccess\n"
    if a not in src or b not in src[src.index(a):]:
        return None
    i = src.index(a)
    j = src.index(b, i) + len(b)
    return src[:i] + _ES_SOLVE + src[j:]


def cg_carry(src):
    a, b = "def solve_trust_region_minimization(x, r, hess_vec_func, precond, trSize, settings):", "# essentially deprecated"
    if a not in src or b not in src:
        return None
    return "from typing import NamedTuple\n" + src[:src.index(a)] + _CG_CARRY + src[src.index(b):]


# ------------------------------------------------------------------ the list

def bold_variants(Variant):
    return [
        # ---- adjoint function space: preserving
        Variant("bold: adjoint constructor, renamed parameters, NamedTuple carry, dict dispatch, broadcast_to with unpacked shape, partial / closure under vmap, Mesh(X, *msh[1:-1])",
                A, _whole(AFS_CARRY), None),
        Variant("bold: adjoint constructor, match statement, repeat of a new axis, one vmap returning two fields, Mesh(**_asdict)", A, _whole(AFS_MATCH), None),
        Variant("bold: adjoint constructor delegates to the ordinary one on mesh._replace(...) by keywords", A, _whole(AFS_DELEGATE), None),
        Variant("bold: adjoint constructor, unbatched shapes under vmap, dispatch on a boolean, extent taken from a mapped result", A, _whole(AFS_UNBATCHED), None),
        # ---- adjoint function space: breaking, on rewritten code
        Variant("bold-break: delegating adjoint constructor builds the fields on the old mesh and only swaps the stored mesh", A, _whole(AFS_STALE), D5),
        Variant("bold-break: broadcast of the shape values along the wrong axis", A, _whole(AFS_CARRY.replace("(nElems, nq, nn))", "(nq, nElems, nn))")), D5),
        Variant("bold-break: rewritten constructor maps the shape gradients over the old coordinates", A,
                _whole(AFS_CARRY.replace("vmap(partial(map_element_shape_grads, X), (0, None, None))", "vmap(partial(map_element_shape_grads, msh.coords), (0, None, None))")), D5),
        Variant("bold-break: match statement flags the cartesian mode axisymmetric", A,
                _whole(AFS_MATCH.replace("case 'cartesian':\n            isAxisymmetric = False", "case 'cartesian':\n            isAxisymmetric = True")), D5),
        Variant("bold-break: moved mesh keeps the old coordinates (keyword dropped from _replace)", A,
                _whole(AFS_DELEGATE.replace("mesh._replace(coords=newCoords, block_maps=None)", "mesh._replace(block_maps=None)")), D5),
        # ---- reverse rules: preserving
        Variant("bold: reverse rules with a NamedTuple of residuals, shared adjoint helper with tree_util.Partial and starred unpacking, getattr by formatted name, "
                "cotangents from a dict comprehension", N, _whole(NS_CARRY), None),
        Variant("bold: custom_vjp applied by assignment to private primals, keyword defvjp, keyword solver call, slots zipped with the parameters", N, _whole(NS_ASSIGNED), None),
        # ---- reverse rules: breaking, on rewritten code
        Variant("bold-break: slot table of the rewritten backward rule shifted", N,
                _whole(NS_CARRY.replace("_SENSITIVITY_SLOTS = (0, 1, 2, 4)", "_SENSITIVITY_SLOTS = (0, 1, 2, 4)\n_SHIFT = {0: 0, 1: 2, 2: 1, 4: 4}")
                       .replace("'vec_jacobian_p{}'.format(k))", "'vec_jacobian_p{}'.format(_SHIFT[k]))")), D3),
        Variant("bold-break: shared adjoint helper negates the cotangent once", N,
                _whole(NS_CARRY.replace("solve_trust_region_minimization(start, cotangent, operator", "solve_trust_region_minimization(start, np.negative(cotangent), operator")), D4),
        Variant("bold-break: zipped slot tuple exchanges two pull-backs", N,
                _whole(NS_ASSIGNED.replace("mechanicalEnergy.vec_jacobian_p1, mechanicalEnergy.vec_jacobian_p2, None,", "mechanicalEnergy.vec_jacobian_p2, mechanicalEnergy.vec_jacobian_p1, None,")), D3),
        Variant("bold-break: keyword Hessian operator with point and direction exchanged", N,
                _whole(NS_ASSIGNED.replace("mechanicalEnergy.hessian_vec(x=Uu, vx=w)", "mechanicalEnergy.hessian_vec(x=w, vx=Uu)")), D4),
        Variant("bold-break: private forward rule saves the guess", N,
                _whole(NS_ASSIGNED.replace("    return Uu, (Uu, designParams)", "    return Uu, (UuGuess, designParams)")), D2),
        Variant("bold-break: rewritten backward rule restores the parameters after the adjoint solve", N,
                _whole(NS_ASSIGNED.replace("    Uu, p = rdata\n    mechanicalEnergy.p = p\n    lam = _solve_adjoint(mechanicalEnergy, settings, Uu, v)\n",
                                           "    Uu, p = rdata\n    lam = _solve_adjoint(mechanicalEnergy, settings, Uu, v)\n    mechanicalEnergy.p = p\n")), D2),
        # ---- Objective: preserving / breaking
        Variant("bold: Objective operators from method factories in a setattr loop, one dispatching method, param_index_update by slicing and _make", O, obj_loop, None),
        Variant("bold: Objective operators written as methods that take the parameters, jvp operators as partial of a method", O, obj_methods, None),
        Variant("bold-break: dispatching method asked for another slot", O, _then(obj_loop, ("return self._vec_jacobian(4, x, vp)", "return self._vec_jacobian(2, x, vp)")), D3),
        Variant("bold-break: method factory takes the primal from the stored parameters", O,
                _then(obj_loop, ("vjp(self._residual_of_slot(x, p, slot), p[slot])", "vjp(self._residual_of_slot(x, p, slot), self.p[slot])")), D3),
        Variant("bold-break: operator method of slot 4 differentiates slot 2", O, _then(obj_methods, ("return self._vec_jac_xp(4, x, p, vx)", "return self._vec_jac_xp(2, x, p, vx)")), D3),
        Variant("bold-break: sliced param_index_update drops a slot", O,
                _then(obj_loop, ("tail = tuple(p)[index+1:len(Params._fields)]", "tail = tuple(p)[index+2:len(Params._fields)] + (None,)")), D3),
        # ---- MechanicsInverse: preserving / breaking
        Variant("bold: inverse helpers through a module-level pull-back helper, partial application, component of a multi-primal pull-back, record from a dict", MIp, mi_helpers, None),
        Variant("bold-break: component of the multi-primal pull-back selects the internal variables for the coordinates product", MIp,
                _then(mi_helpers, ("return pullback(vx)[3]", "return pullback(vx)[2]")), D3),
        Variant("bold-break: partial application forgets dt", MIp,
                _then(mi_helpers, ("partial(compute_ivs_update, stateVariables=ivs, dt=dt)", "partial(compute_ivs_update, stateVariables=ivs)")), D3),
        Variant("bold-break: pull-back helper differentiates a position that is also passed as a fixed argument", MIp,
                _then(mi_helpers, ("full = arguments[:position] + (z,) + arguments[position+1:]", "full = arguments[:position+1] + (z,) + arguments[position+2:]")), D3),
        # ---- EquationSolver: preserving / breaking
        Variant("bold: nonlinear_equation_solve sets up under a context manager and solves inside a one-pass loop", E, es_solve, None),
        Variant("bold: CG with a NamedTuple carry and a step-length helper, residual kept only in the carry", E, cg_carry, None),
        Variant("bold-break: CG with a carry starts along +precond(r)", E, _then(cg_carry, ("    d = -Pr\n    cauchyP", "    d = Pr\n    cauchyP")), D4),
        Variant("bold-break: CG with a carry updates the residual with the wrong sign", E, _then(cg_carry, ("rNew = state.r + alpha * Hd", "rNew = state.r - alpha * Hd")), D4),
        Variant("bold-break: rewritten nonlinear_equation_solve never stores the parameters", E, _then(es_solve, ("        objective.p = p\n", "        pass\n")), D2),
    ]
