"""Path-enumerating symbolic executor for *driver* functions (control code around opaque numerical kernels).

The analysed function is interpreted over its statement CFG (optilint.cfg).  Values are exact polynomials (optilint.expr.Poly) over
*atoms*; an atom is a symbol (parameter, unknown at a loop head) or an opaque term (attribute, call of an unknown function, quotient,
matrix product, ...) identified by a canonical key, so that two expressions denote the same value iff their keys coincide -- whatever
the names of the locals, the temporaries, helper functions (nested defs, lambdas, functools.partial, small / private module-level
helpers and methods of objects created on the way are inlined; closures read their free variables at call time, default arguments are
bound at definition time), keyword-vs-positional call style, guard clauses or branch order in the source.  Tuples, namedtuple records,
dicts with constant keys and attribute cells of objects are tracked component by component.

Control flow: every undecided branch forks the path.  Decisions are remembered per path: ordered comparisons refine, per difference
polynomial, the set of possible outcomes {negative, zero, positive, unordered(NaN)}; a later test on the same difference is decided
from that set (so `not a >= b` and `a < b` are *different* facts, as in IEEE arithmetic; `x != x` / isnan(x) are NaN tests).

Loops: a loop is analysed once from a generalised head state in which every variable assigned in the loop (every component of a tuple
/ record valued one) is unknown, except for the relations that hold on entry and are preserved by every path that *goes on iterating*
(candidate relations `v == F(other variables)`, `v == its entry value`, `flag == constant` are read off the entry state and weeded out
Houdini style; the witnesses of dropped relations are kept).  The loop is left from the entry state or from the individual back-edge
states (not from the generalised one), so code after the loop sees path-precise values.  Nested loops are analysed recursively from the
join of the states that reach them (states that differ in a flag are kept apart; relations among the joined variables survive).
Statement-level calls of helpers that contain a loop (module-level or nested with `nonlocal`) are spliced into the caller's CFG.  When
the generalised state reads a local that is only assigned inside the loop (first-time flag idiom), the first iteration is peeled.

A failed equality of two values is *definite* (usable for a refutation) only if the values differ in known structure, as they stand or
after substituting the unknowns of a loop head by the values of a state that goes on iterating (one more iteration): `definitely_differ`.
Nothing is executed; no solver is involved.
"""
from __future__ import annotations

import ast
from fractions import Fraction

from optilint.cfg import CFG, Node, cfg_of
from optilint.expr import Poly, poly_div_exact
from optilint.model import FuncVal, ExtVal, ModVal, ClassVal, NamedTupleVal, namedtuple_fields, dotted, canonical_ext
from optilint.model import norm_src as _norm_src
from optilint.core import Incomplete


_SRC = {}


def norm_src(node):
    """source text of an AST node (cached: the trees are immutable here)"""
    r = _SRC.get(id(node))
    if r is None or r[0] is not node:
        r = (node, _norm_src(node))
        _SRC[id(node)] = r
    return r[1]


class Budget(Incomplete):
    """too many symbolic paths / steps: the analysis cannot decide (never a violation)"""


class Unsupported(Incomplete):
    """a construct the executor has no model for: the analysis cannot decide (never a violation)"""


# ------------------------------------------------------------------ values

class Num:
    __slots__ = ("p", "_k")

    def __init__(self, p):
        self.p = p
        self._k = None

    def __repr__(self):
        return f"Num({key(self)})"


class Opq:
    """opaque term; kind in sym | fresh | attr | call | item | quot | op | str"""
    __slots__ = ("kind", "key", "parts")

    def __init__(self, kind, key_, parts=()):
        self.kind, self.key, self.parts = kind, key_, parts

    def __repr__(self):
        return f"Opq({self.key})"


class Closure:
    __slots__ = ("node", "fid", "scope", "name", "defaults", "tag")

    def __init__(self, node, fid, scope, name, defaults=None, tag=""):
        self.node, self.fid, self.scope, self.name, self.defaults, self.tag = node, fid, scope, name, defaults, tag

    def __repr__(self):
        return f"<closure {self.name}>"


class FuncRef:
    __slots__ = ("scope",)

    def __init__(self, scope):
        self.scope = scope

    def __repr__(self):
        return f"<function {self.scope.qualname}>"


class Ext:
    __slots__ = ("name",)

    def __init__(self, name):
        self.name = name

    def __repr__(self):
        return f"<ext {self.name}>"


class NTType:
    __slots__ = ("name", "fields")

    def __init__(self, name, fields):
        self.name, self.fields = name, tuple(fields)


class Rec:
    """namedtuple record; `base` is an opaque record all unnamed fields are copied from (x._replace(...))"""
    __slots__ = ("tname", "fields", "vals", "base")

    def __init__(self, tname, fields, vals, base=None):
        self.tname, self.fields, self.vals, self.base = tname, fields, dict(vals), base


class Cmp:
    __slots__ = ("op", "a", "b")

    def __init__(self, op, a, b):
        self.op, self.a, self.b = op, a, b


class Partial:
    """functools.partial / a method bound to its object"""
    __slots__ = ("f", "args", "kwargs")

    def __init__(self, f, args, kwargs=()):
        self.f, self.args, self.kwargs = f, tuple(args), tuple(kwargs)


class DictV:
    """dict with constant string keys; `base` is an opaque mapping / record the other keys come from"""
    __slots__ = ("items", "base")

    def __init__(self, items, base=None):
        self.items, self.base = dict(items), base


class ClassRef:
    __slots__ = ("scope",)

    def __init__(self, scope):
        self.scope = scope


class BoundMethod:
    __slots__ = ("obj", "name")

    def __init__(self, obj, name):
        self.obj, self.name = obj, name


class SuperRef:
    """`super()` evaluated inside a method of class `cls` on the object `obj`: attributes are looked up behind `cls` in the MRO of the
    object's class"""
    __slots__ = ("obj", "cls")

    def __init__(self, obj, cls):
        self.obj, self.cls = obj, cls


def _mono_key(m):
    return (len(m), m)


def key(v) -> str:
    """canonical text of a value"""
    if isinstance(v, Num):
        if v._k is None:
            p = v.p
            if not p.t:
                v._k = "0"
            elif len(p.t) == 1:
                (m, c), = p.t.items()
                if m == ():
                    v._k = str(c)
                elif c == 1 and len(m) == 1 and m[0][1] == 1:
                    v._k = m[0][0]
                else:
                    v._k = "(" + repr(p) + ")"
            else:
                v._k = "(" + repr(p) + ")"
        return v._k
    if isinstance(v, Opq):
        return v.key
    if isinstance(v, str):
        return repr(v)
    if isinstance(v, (bool, type(None))):
        return repr(v)
    if isinstance(v, tuple):
        return "(" + ", ".join(key(x) for x in v) + ",)"
    if isinstance(v, Closure):
        dflt = ""
        if v.defaults is not None:
            dflt = "[" + ", ".join(key(x) for x in list(v.defaults[0]) + [y for y in v.defaults[1] if y is not None]) + "]"
        return f"<closure {v.name}@{getattr(v.node, 'lineno', 0)}{v.tag}{dflt}>"
    if isinstance(v, FuncRef):
        return v.scope.shortname
    if isinstance(v, Ext):
        return v.name
    if isinstance(v, NTType):
        return v.name
    if isinstance(v, Rec):
        return v.tname + "(" + ", ".join(f"{f}={key(v.vals[f])}" for f in v.fields if f in v.vals) + (f"; base={key(v.base)}" if v.base is not None else "") + ")"
    if isinstance(v, Cmp):
        return f"({key(v.a)} {v.op} {key(v.b)})"
    if isinstance(v, BoundMethod):
        return key(v.obj) + "." + v.name
    if isinstance(v, DictV):
        return "{" + ", ".join(f"{k!r}: {key(x)}" for k, x in sorted(v.items.items(), key=lambda kv: repr(kv[0]))) + (f"; **{key(v.base)}" if v.base is not None else "") + "}"
    if isinstance(v, ClassRef):
        return "class " + v.scope.shortname
    if isinstance(v, SuperRef):
        return f"super({v.cls.shortname}, {key(v.obj)})"
    if isinstance(v, Partial):
        return "partial(" + ", ".join([key(v.f)] + [key(a) for a in v.args] + [f"{n}={key(x)}" for n, x in v.kwargs]) + ")"
    return repr(v)


NEG, ZER, POS, UNO = "neg", "zero", "pos", "nan"
ALL = frozenset((NEG, ZER, POS, UNO))
TRUE_SET = {"<": frozenset((NEG,)), "<=": frozenset((NEG, ZER)), ">": frozenset((POS,)), ">=": frozenset((POS, ZER)),
            "==": frozenset((ZER,)), "!=": frozenset((NEG, POS, UNO))}
FLIP = {"<": ">", "<=": ">=", ">": "<", ">=": "<=", "==": "==", "!=": "!="}
OPNAME = {ast.Lt: "<", ast.LtE: "<=", ast.Gt: ">", ast.GtE: ">=", ast.Eq: "==", ast.NotEq: "!=", ast.Is: "==", ast.IsNot: "!=",
          ast.In: "in", ast.NotIn: "not in"}


def normalize_diff(p: Poly):
    """(p / lc, lc < 0) with lc the coefficient of the highest monomial: the canonical representative of {c*p}"""
    m = max(p.t, key=_mono_key)
    lc = p.t[m]
    return Poly({k: c / lc for k, c in p.t.items()}), lc < 0


class _PList:
    """persistent append-only list"""
    __slots__ = ("item", "prev", "n")

    def __init__(self, item=None, prev=None):
        self.item, self.prev = item, prev
        self.n = 0 if prev is None and item is None else (prev.n if prev is not None else 0) + 1

    def add(self, item):
        return _PList(item, self)

    def to_list(self):
        out = []
        p = self
        while p is not None and p.n > 0:
            out.append(p.item)
            p = p.prev
        out.reverse()
        return out


EMPTY = _PList()


class Event:
    __slots__ = ("seq", "fn", "args", "kwargs", "node", "result", "heap", "top", "depth")

    def __init__(self, seq, fn, args, kwargs, node, result, heap, top, depth):
        self.seq, self.fn, self.args, self.kwargs, self.node, self.result, self.heap, self.top, self.depth = \
            seq, fn, args, kwargs, node, result, heap, top, depth

    def __repr__(self):
        return f"<event {key(self.fn)}({', '.join(key(a) for a in self.args)})>"


class Frame:
    __slots__ = ("vars", "parent", "owner")

    def __init__(self, vars_, parent, owner):
        self.vars, self.parent, self.owner = vars_, parent, owner


class State:
    def __init__(self):
        self.frames = {}
        self.next_fid = 1
        self.rel = {}         # canonical difference key -> (Poly, allowed outcomes)
        self.truths = {}      # opaque truth key -> bool
        self.eqc = {}         # key of a value -> constant it is known to equal
        self.heap = {}        # (object key, attribute) -> value
        self.epochs = {}      # object key -> number of attribute stores on that object so far
        self.ghost = {}
        self.events = EMPTY
        self.writes = EMPTY   # (name, value, node) of root-frame assignments
        self.decisions = EMPTY
        self.log = EMPTY      # records appended by hooks (path-local)
        self.escaped = frozenset()   # watched values that were handed to code that is not analysed
        self.origin = "entry"  # where the path-local lists (events, writes, decisions, log) start: 'entry', a loop header idx, or a join tag
        self.top = None
        self.root = None

    def copy(self):
        s = State.__new__(State)
        s.frames = {k: Frame(dict(f.vars), f.parent, f.owner) for k, f in self.frames.items()}
        s.next_fid = self.next_fid
        s.rel = dict(self.rel)
        s.truths = dict(self.truths)
        s.eqc = dict(self.eqc)
        s.heap = dict(self.heap)
        s.epochs = dict(self.epochs)
        s.ghost = dict(self.ghost)
        s.events, s.writes, s.decisions, s.log = self.events, self.writes, self.decisions, self.log
        s.top = self.top
        s.root = self.root
        s.origin = self.origin
        s.escaped = self.escaped
        return s

    def rootvars(self):
        return self.frames[self.root].vars


def shape_of(v):
    """('t', n) for a tuple of n non-tuple values, ('r', type name, fields) for a complete record; None otherwise"""
    if isinstance(v, tuple) and 1 <= len(v) <= 16 and not any(isinstance(x, (tuple, Rec)) for x in v):
        return ("t", len(v))
    if isinstance(v, Rec) and v.base is None and all(f in v.vals for f in v.fields) and not any(isinstance(x, (tuple, Rec)) for x in v.vals.values()):
        return ("r", v.tname, v.fields)
    if isinstance(v, DictV) and v.base is None and 1 <= len(v.items) <= 24 and not any(isinstance(x, (tuple, Rec, DictV)) for x in v.items.values()):
        return ("d", tuple(sorted(v.items, key=repr)))
    return None


def shape_keys(sh):
    return range(sh[1]) if sh[0] == "t" else sh[2] if sh[0] == "r" else sh[1]


def vars_get(rootvars, ghost, ref):
    """value of a variable ('v', name), a ghost ('g', name) or a component ('c', name, index / field) of a tuple- or record-valued variable"""
    if ref[0] == "g":
        return ghost.get(ref[1])
    if ref[0] == "h":
        return None
    v = rootvars.get(ref[1])
    if ref[0] == "v":
        return v
    k = ref[2]
    if isinstance(v, tuple) and isinstance(k, int) and k < len(v):
        return v[k]
    if isinstance(v, Rec) and k in v.fields:
        return v.vals.get(k)
    if isinstance(v, DictV) and k in v.items:
        return v.items[k]
    return None


def ref_get(st, ref):
    """like vars_get, plus attribute cells ('h', object key, attribute) of objects"""
    if ref[0] == "h":
        return st.heap.get((ref[1], ref[2]))
    return vars_get(st.rootvars(), st.ghost, ref)


def ref_name(ref):
    if ref[0] == "h":
        return f"{ref[1]}.{ref[2]}"
    if len(ref) == 2:
        return ref[1]
    return f"{ref[1]}[{ref[2]!r}]" if not isinstance(ref[2], str) else f"{ref[1]}.{ref[2]}"


class Decider:
    def __init__(self, script, work):
        self.script, self.work, self.cur = script, work, 0

    def choose(self):
        if self.cur < len(self.script):
            v = self.script[self.cur]
        else:
            v = True
            self.work.append(self.script[:self.cur] + [False])
            self.script.append(True)
        self.cur += 1
        return v


class PathEnd:
    __slots__ = ("kind", "st", "node", "value", "loop")

    def __init__(self, kind, st, node=None, value=None, loop=None):
        self.kind, self.st, self.node, self.value, self.loop = kind, st, node, value, loop


class LoopInfo:
    def __init__(self, header):
        self.header = header
        self.pre = None
        self.head = None
        self.kept = []       # [(var, template value, deps)]
        self.dropped = []    # [(var, template, deps, witness PathEnd)]
        self.mod = set()
        self.fresh = {}      # ref -> unknown introduced for it at the head
        self.entry = None    # the state in which the loop is first reached (differs from `pre` when the first iteration was peeled)
        self.conts = []      # back-edge states (final round) from which the loop goes on


class _Return(Exception):
    def __init__(self, value):
        self.value = value


def _loop_free(fn_node):
    for n in ast.walk(fn_node):
        if isinstance(n, (ast.For, ast.While, ast.AsyncFor, ast.ListComp, ast.SetComp, ast.DictComp, ast.GeneratorExp, ast.Try, ast.With,
                          ast.Yield, ast.YieldFrom, ast.Await)):
            return False
    return True


def _branch_count(fn_node):
    return sum(1 for n in ast.walk(fn_node) if isinstance(n, (ast.If, ast.IfExp, ast.BoolOp)))


def _output_only(fn_node):
    """a function that only prints: no value is returned and every call it makes is to print / str formatting"""
    if isinstance(fn_node, ast.Lambda):
        return False
    calls = 0
    for n in ast.walk(fn_node):
        if isinstance(n, ast.Return) and n.value is not None:
            return False
        if isinstance(n, ast.Call):
            calls += 1
            if not (isinstance(n.func, ast.Name) and n.func.id in ("print", "str", "repr", "format", "len", "float", "int")):
                return False
        if isinstance(n, (ast.Attribute,)) and isinstance(n.ctx, ast.Store):
            return False
    return calls > 0


def _keeps_constant(loop_stmt, name, const, unchanged=False, closure_node=None):
    """cheap filter for candidate relations `name == const` (or, with unchanged=True, `name == its value on loop entry`) that are meant
    for the states that go on iterating: every assignment to `name` in the loop body either assigns that constant or sits in a block
    that also leaves the loop (break / return / continue / raise) or assigns a variable the loop test reads.  The relation itself is
    verified path by path afterwards; this only avoids hopeless candidates."""
    ok = [True]
    test = getattr(loop_stmt, "test", None)
    test_names = {n.id for n in ast.walk(test) if isinstance(n, ast.Name)} if test is not None else set()

    def same_const(e):
        if unchanged:
            # re-creating the very same closure (a lambda / def that is evaluated again) keeps the value
            return isinstance(e, ast.Lambda) and closure_node is not None and e is closure_node
        if isinstance(e, ast.Constant):
            if isinstance(const, bool) or isinstance(e.value, bool) or const is None or e.value is None or isinstance(const, str):
                return type(e.value) is type(const) and e.value == const
            try:
                return Fraction(repr(e.value)) == Fraction(const)
            except Exception:
                return False
        return False

    def leaves(stmts):
        for x in stmts:
            if isinstance(x, (ast.Break, ast.Return, ast.Raise, ast.Continue)):
                return True
            if isinstance(x, (ast.Assign, ast.AugAssign, ast.AnnAssign)) and (assigned_names([x]) & test_names) - {name}:
                return True
        return False

    def block(stmts):
        for i, st in enumerate(stmts):
            hits = False
            if isinstance(st, ast.Assign):
                if name in assigned_names([st]):
                    if not (len(st.targets) == 1 and isinstance(st.targets[0], ast.Name) and same_const(st.value)):
                        hits = True
            elif isinstance(st, (ast.AugAssign, ast.AnnAssign, ast.FunctionDef, ast.ClassDef)):
                if name in assigned_names([st]) and not (unchanged and st is closure_node):
                    hits = True
            if isinstance(st, (ast.For, ast.AsyncFor)) and name in assigned_names([ast.Assign(targets=[st.target], value=ast.Constant(value=0))]):
                hits = True
            if isinstance(st, (ast.With, ast.AsyncWith)) and name in assigned_names([ast.With(items=st.items, body=[])]):
                hits = True
            if hits and not leaves(stmts):
                ok[0] = False
            for fld in ("body", "orelse", "finalbody"):
                sub = getattr(st, fld, None)
                if isinstance(sub, list) and sub and isinstance(sub[0], ast.stmt) and not isinstance(st, (ast.FunctionDef, ast.ClassDef)):
                    block(sub)
            for h in getattr(st, "handlers", []) or []:
                block(h.body)
    block(loop_stmt.body)
    return ok[0]


def name_assigned_in(loop_stmt, name):
    return name in assigned_names(loop_stmt.body)


def assigned_names(stmts):
    """names (re)bound by the statements, nested scopes excluded"""
    out = set()

    def tgt(t):
        if isinstance(t, ast.Name):
            out.add(t.id)
        elif isinstance(t, (ast.Tuple, ast.List)):
            for e in t.elts:
                tgt(e)
        elif isinstance(t, ast.Starred):
            tgt(t.value)
        elif isinstance(t, ast.Subscript):
            d = t.value
            while isinstance(d, (ast.Subscript, ast.Attribute)):
                d = d.value
            if isinstance(d, ast.Name):
                out.add(d.id)

    def walk(n):
        if isinstance(n, (ast.FunctionDef, ast.AsyncFunctionDef, ast.ClassDef)):
            out.add(n.name)
            return
        if isinstance(n, ast.Lambda):
            return
        if isinstance(n, ast.Assign):
            for t in n.targets:
                tgt(t)
        elif isinstance(n, (ast.AugAssign, ast.AnnAssign)):
            tgt(n.target)
        elif isinstance(n, (ast.For, ast.AsyncFor)):
            tgt(n.target)
        elif isinstance(n, (ast.With, ast.AsyncWith)):
            for it in n.items:
                if it.optional_vars is not None:
                    tgt(it.optional_vars)
        elif isinstance(n, ast.NamedExpr):
            tgt(n.target)
        for c in ast.iter_child_nodes(n):
            walk(c)
    for s in stmts:
        walk(s)
    return out


# ------------------------------------------------------------------ helpers with loops: spliced into the caller's CFG

class _Rename(ast.NodeTransformer):
    def __init__(self, mapping):
        self.mapping = mapping

    def visit_Name(self, n):
        if n.id in self.mapping:
            return ast.copy_location(ast.Name(id=self.mapping[n.id], ctx=n.ctx), n)
        return n

    def visit_arg(self, n):
        if n.arg in self.mapping:
            return ast.copy_location(ast.arg(arg=self.mapping[n.arg], annotation=None), n)
        return n

    def visit_FunctionDef(self, n):
        self.generic_visit(n)
        if n.name in self.mapping:
            n.name = self.mapping[n.name]
        return n


def _local_names_of(fn_node):
    a = fn_node.args
    names = {x.arg for x in a.posonlyargs + a.args + a.kwonlyargs}
    if a.vararg:
        names.add(a.vararg.arg)
    if a.kwarg:
        names.add(a.kwarg.arg)
    names |= assigned_names(fn_node.body)
    return names


def splice_helper_loops(cfg, scope, repo, can_splice, max_rounds=3):
    """Statement-level calls (`t = f(...)`, `f(...)`, `return f(...)`) of same-module helper functions that contain a loop are replaced,
    in the CFG, by the helper's own CFG: parameters become locals (renamed apart), every `return e` of the helper becomes the assignment
    of the call statement.  The loops of the helper are then analysed like loops of the caller.  Returns the list of spliced scopes."""
    import copy
    spliced = []
    counter = [0]
    for _ in range(max_rounds):
        changed = False
        for n in list(cfg.nodes):
            if n.kind != "stmt" or n.ast is None or getattr(n, "_spliced", False):
                continue
            st = n.ast
            if isinstance(st, ast.Assign) and isinstance(st.value, ast.Call):
                call = st.value
            elif isinstance(st, ast.Expr) and isinstance(st.value, ast.Call):
                call = st.value
            elif isinstance(st, ast.Return) and isinstance(st.value, ast.Call):
                call = st.value
            else:
                continue
            if not isinstance(call.func, ast.Name):
                continue
            callee = can_splice(call.func.id, call)
            if callee is None:
                continue
            fn = callee.node
            a = fn.args
            if a.vararg or a.kwarg or any(isinstance(x, ast.Starred) for x in call.args) or any(k.arg is None for k in call.keywords):
                continue
            if any(isinstance(x, (ast.Global, ast.Yield, ast.YieldFrom)) for x in ast.walk(fn)):
                continue
            outer_names = set()
            for x in ast.walk(fn):
                if isinstance(x, ast.Nonlocal):
                    outer_names |= set(x.names)
            if outer_names and fn not in getattr(scope.node, "body", []):
                continue        # nonlocal makes sense only for a def nested directly in the analysed function
            pos = [x.arg for x in a.posonlyargs + a.args]
            kwo = [x.arg for x in a.kwonlyargs]
            if len(call.args) > len(pos):
                continue
            bound = dict(zip(pos, call.args))
            ok = True
            for k in call.keywords:
                if k.arg in bound or k.arg not in pos + kwo:
                    ok = False
                bound[k.arg] = k.value
            nd = len(a.defaults)
            for i, p_ in enumerate(pos):
                if p_ not in bound:
                    j = i - (len(pos) - nd)
                    if j < 0:
                        ok = False
                    else:
                        bound[p_] = a.defaults[j]
            for p_, d in zip(kwo, a.kw_defaults):
                if p_ not in bound:
                    if d is None:
                        ok = False
                    else:
                        bound[p_] = d
            if not ok:
                continue
            counter[0] += 1
            tag = f"${counter[0]}"
            mapping = {nm: nm + tag for nm in _local_names_of(fn) - outer_names}
            body = _Rename(mapping).visit(copy.deepcopy(fn))
            ast.fix_missing_locations(body)
            sub = CFG(body)
            params = pos + kwo
            # parameter binding: evaluated in the caller's scope, all at once
            bind = ast.Assign(targets=[ast.Tuple(elts=[ast.Name(id=mapping[p_], ctx=ast.Store()) for p_ in params], ctx=ast.Store())],
                              value=ast.Tuple(elts=[bound[p_] for p_ in params], ctx=ast.Load()))
            if not params:
                bind = ast.Pass()
            ast.copy_location(bind, st)
            ast.fix_missing_locations(bind)
            after = list(n.succ)
            base = len(cfg.nodes)

            def result_stmt(value):
                v = value if value is not None else ast.Constant(value=None)
                if isinstance(st, ast.Assign):
                    r = ast.Assign(targets=st.targets, value=v)
                elif isinstance(st, ast.Return):
                    r = ast.Return(value=v)
                else:
                    r = ast.Expr(value=v)
                ast.copy_location(r, st)
                ast.fix_missing_locations(r)
                return r
            # the call statement node becomes the binding node
            n.ast = bind
            n._spliced = True
            n.succ = []
            newnodes = [m for m in sub.nodes if m not in (sub.entry, sub.exit, sub.raise_exit)]
            for i, m in enumerate(newnodes):
                m.idx = base + i
                m.loops = tuple(n.loops) + tuple(m.loops)
                m.loop_depth = len(m.loops)
                cfg.nodes.append(m)
            fall = None      # node for falling off the end of the helper

            def leave_targets(src_node, lab):
                for (t, l2) in after:
                    src_node.succ.append((t, lab if l2 is None else l2))
                    t.pred.append((src_node, lab if l2 is None else l2))
            first = sub.entry.succ[0][0] if sub.entry.succ else sub.exit
            for m in newnodes:
                is_ret = m.kind == "stmt" and isinstance(m.ast, ast.Return)
                if is_ret:
                    m.ast = result_stmt(m.ast.value)
                    m._spliced = True
                new_succ = []
                for (t, lab) in m.succ:
                    if t is sub.exit:
                        if is_ret:
                            if isinstance(st, ast.Return):
                                new_succ.append((cfg.exit, lab))
                                cfg.exit.pred.append((m, lab))
                            else:
                                for (t2, l2) in after:
                                    new_succ.append((t2, lab if l2 is None else l2))
                                    t2.pred.append((m, lab))
                        else:
                            if fall is None:
                                fall = Node(len(cfg.nodes), "stmt", result_stmt(None))
                                fall.loops = tuple(n.loops)
                                fall.loop_depth = len(fall.loops)
                                fall._spliced = True
                                cfg.nodes.append(fall)
                                if isinstance(st, ast.Return):
                                    fall.succ.append((cfg.exit, None))
                                else:
                                    for (t2, l2) in after:
                                        fall.succ.append((t2, l2))
                                        t2.pred.append((fall, l2))
                            new_succ.append((fall, lab))
                            fall.pred.append((m, lab))
                    elif t is sub.raise_exit:
                        new_succ.append((cfg.raise_exit, lab))
                    else:
                        new_succ.append((t, lab))
                m.succ = new_succ
            if first is sub.exit:
                if fall is None:
                    fall = Node(len(cfg.nodes), "stmt", result_stmt(None))
                    fall.loops = tuple(n.loops)
                    fall._spliced = True
                    cfg.nodes.append(fall)
                    for (t2, l2) in after:
                        fall.succ.append((t2, l2))
                first = fall
            n.succ = [(first, None)]
            for (t, l2) in after:
                t.pred = [(pp, ll) for (pp, ll) in t.pred if pp is not n]
            spliced.append(callee)
            changed = True
        if not changed:
            break
    cfg._dom = None
    cfg._rd = None
    return spliced


# ------------------------------------------------------------------ the executor

class SymX:
    def __init__(self, repo, scope, assumptions=None, opaque=(), hooks=(), inline_level=0, max_steps=400000, inline=True, watch=(),
                 inline_other=None):
        self.repo = repo
        self.inline_other = inline_other               # predicate(scope): loop-free functions of *other* modules that may be inlined too
        self.scope = scope
        self.module = scope.module
        self.assumptions = dict(assumptions or {})     # truth key -> bool
        self.opaque_names = set(opaque)                # qualnames (module:func) never inlined
        self.hooks = list(hooks)
        self.watch = set(watch)
        self._inl = {}
        self.spliced = []
        self.splice_public = False
        self.cls = getattr(scope, "cls", None)      # the class whose method is analysed: members are resolved on `self`
        self.self_key = (scope.params() or [None])[0] if self.cls is not None else None
        self.unbound_reads = set()
        self._fn_locals = None
        self._required_params = set()
        self.peeled = set()
        self.fresh_origin = {}    # key of an unknown introduced at a loop head -> (variable ref, header idx)
        self.visited = {}     # qualname -> Scope of repository functions that were inlined or called
        self.inline_level = inline_level
        self.inline = inline
        self.atoms = {}       # atom name -> Opq
        self.quot = {}        # quotient atom -> (N Poly, M Poly)
        self.tvals = {}       # truth key -> value
        self.steps = 0
        self.max_steps = max_steps
        self.seq = 0
        self.fresh_n = 0
        self._glob = {}
        self._cfgs = {}
        self.loops = {}       # header node idx -> LoopInfo
        self.notes = []
        self.opaque_calls = {}   # qualname -> reason (functions met and not inlined)
        self.unique_frames = False   # True: closures created in different frames (other path, other call) are different values (see run_inline)
        self._gfid = 1 << 20

    def _closure_tag(self, fid):
        return f"#{fid}" if self.unique_frames and fid else ""

    def _mro(self):
        try:
            return list(self.repo.class_mro(self.cls))
        except Exception:
            return [self.cls]

    # ---- value construction
    def num(self, v):
        if isinstance(v, Num):
            return v
        if isinstance(v, bool):
            return Num(Poly.const(1 if v else 0))
        if isinstance(v, int):
            return Num(Poly.const(v))
        if isinstance(v, float):
            if v != v or v in (float("inf"), float("-inf")):
                return self.atomnum(self.sym(repr(v)))
            return Num(Poly.const(Fraction(repr(v))))
        if isinstance(v, Fraction):
            return Num(Poly.const(v))
        if isinstance(v, Opq):
            return self.atomnum(v)
        if isinstance(v, Cmp):
            return self.atomnum(self.opq("op", key(v), ("cmp", v)))
        if isinstance(v, (Closure, FuncRef, Ext, Rec, BoundMethod, NTType, Partial, DictV, ClassRef, SuperRef)):
            return self.atomnum(self.opq("sym", key(v), (v,)))
        if v is None:
            return self.atomnum(self.sym("None"))
        if isinstance(v, str):
            return self.atomnum(self.opq("str", repr(v), (v,)))
        if isinstance(v, tuple):
            return self.atomnum(self.opq("op", key(v), ("tuple", v)))
        raise Unsupported(f"not a number: {v!r}")

    def opq(self, kind, k, parts=()):
        o = self.atoms.get(k)
        if o is None:
            o = Opq(kind, k, parts)
            self.atoms[k] = o
        return o

    def sym(self, name):
        return self.opq("sym", name)

    def fresh(self, hint):
        self.fresh_n += 1
        return self.opq("gen", f"{hint}#{self.fresh_n}")

    def atomnum(self, o: Opq):
        return Num(Poly.atom(o.key))

    def simplify(self, v):
        """Num that is a single atom / constant -> the atom's value / python number stays Num; returns canonical python value"""
        if isinstance(v, Num):
            p = v.p
            if len(p.t) == 1:
                (m, c), = p.t.items()
                if c == 1 and len(m) == 1 and m[0][1] == 1:
                    o = self.atoms.get(m[0][0])
                    if o is not None:
                        if o.kind == "str":
                            return o.parts[0]
                        if o.kind == "sym" and o.parts and isinstance(o.parts[0], (Closure, FuncRef, Ext, Rec, BoundMethod, NTType, Partial, DictV, ClassRef)):
                            return o.parts[0]
                        return o
        return v

    @staticmethod
    def const_of(v):
        if isinstance(v, Num):
            p = v.p
            if not p.t:
                return Fraction(0)
            if len(p.t) == 1 and () in p.t:
                return p.t[()]
        return None

    def add(self, a, b):
        if isinstance(a, str) and isinstance(b, str):
            return a + b
        if isinstance(a, tuple) and isinstance(b, tuple):
            return a + b
        return self.simplify(Num(self.num(a).p + self.num(b).p))

    def sub(self, a, b):
        return self.simplify(Num(self.num(a).p - self.num(b).p))

    def neg(self, a):
        return self.simplify(Num(-self.num(a).p))

    def mul(self, a, b):
        return self.simplify(Num(self.num(a).p * self.num(b).p))

    def div(self, a, b):
        n, m = self.num(a).p, self.num(b).p
        if m.is_const() and not m.is_zero():
            c = m.const_value()
            return self.simplify(Num(Poly({k: v / c for k, v in n.t.items()})))
        if n.is_zero() and not m.is_zero():
            return Num(Poly())
        if m.is_zero():
            return self.opq("op", f"({key(Num(n))}/0)", ("div0", Num(n)))
        qx = poly_div_exact(n, m)
        if qx is not None:
            return self.simplify(Num(qx))
        m1, neg1 = normalize_diff(m)
        lc = m.t[max(m.t, key=_mono_key)]
        n1 = Poly({k: v / lc for k, v in n.t.items()})
        # n/m == n1/m1 ; pull the sign / scale of the numerator out as well
        n2, _ = normalize_diff(n1)
        c = n1.t[max(n1.t, key=_mono_key)]
        if n2 == m1:
            return self.simplify(Num(Poly.const(c)))
        name = f"[{key(Num(n2))}/{key(Num(m1))}]"
        if name not in self.quot:
            self.quot[name] = (n2, m1)
            self.opq("quot", name, (Num(n2), Num(m1)))
        return self.simplify(Num(Poly({((name, 1),): c})))

    def power(self, a, b):
        cb = self.const_of(self.num(b)) if not isinstance(b, (str, tuple)) else None
        if cb is not None and cb.denominator == 1 and 0 <= cb <= 8:
            return self.simplify(Num(self.num(a).p.pow(int(cb))))
        return self.binop_opaque("**", a, b)

    def binop_opaque(self, opname, a, b):
        a, b = self.simplify(a) if isinstance(a, Num) else a, self.simplify(b) if isinstance(b, Num) else b
        return self.opq("op", f"({key(a)}{opname}{key(b)})", (opname, a, b))

    def mk_attr(self, obj, name):
        return self.opq("attr", f"{key(obj)}.{name}", (obj, name))

    def mk_item(self, obj, idx):
        return self.opq("item", f"{key(obj)}[{key(idx)}]", (obj, idx))

    def epoch_of(self, f, args, kwargs, st):
        """version tag of a call result: how often the objects the call mentions directly (receiver, arguments) were written to so far"""
        if not st.epochs:
            return 0
        ks = set()
        r_ = f
        while isinstance(r_, Opq) and r_.kind in ("attr", "item"):
            r_ = r_.parts[0]
        if isinstance(r_, Opq):
            ks.add(r_.key)
        if isinstance(f, Partial):
            for a in f.args:
                if isinstance(a, Opq):
                    ks.add(a.key)
        for a in list(args) + [v for _, v in kwargs]:
            if isinstance(a, Opq):
                ks.add(a.key)
        ep = tuple(sorted((k, n) for k, n in st.epochs.items() if n and k in ks))
        return ep if ep else 0

    def mk_call(self, f, args, kwargs, epoch=0):
        k = f"{key(f)}({', '.join([key(a) for a in args] + [f'{n}={key(v)}' for n, v in kwargs])})" + (("#e" + ",".join(f"{a}:{b}" for a, b in epoch) if isinstance(epoch, tuple) else f"#e{epoch}") if epoch else "")
        return self.opq("call", k, (f, tuple(args), tuple(kwargs), epoch))

    # ---- substitution (templates of loop relations)
    def subst(self, v, mp, memo=None):
        """value with every sub-term whose key is in `mp` replaced"""
        if memo is None:
            memo = {}
        if isinstance(v, (str, bool, type(None), Closure, FuncRef, Ext, NTType, BoundMethod, Partial, ClassRef)):
            return v
        k = key(v)
        if k in mp:
            return mp[k]
        if k in memo:
            return memo[k]
        out = v
        if isinstance(v, tuple):
            out = tuple(self.subst(x, mp, memo) for x in v)
        elif isinstance(v, Num):
            if all(a not in mp and self._atom_plain(a) for a in v.p.atoms()):
                out = v
            else:
                tot = Num(Poly())
                for m, c in v.p.t.items():
                    term = Num(Poly.const(c))
                    for a, e in m:
                        av = self.subst(self.atoms.get(a) or self.sym(a), mp, memo)
                        for _ in range(e):
                            term = self.mul(term, av)
                    tot = self.add(tot, term)
                out = tot
        elif isinstance(v, Opq):
            out = self._rebuild(v, mp, memo)
        elif isinstance(v, Rec):
            out = Rec(v.tname, v.fields, {f: self.subst(x, mp, memo) for f, x in v.vals.items()}, self.subst(v.base, mp, memo) if v.base is not None else None)
        elif isinstance(v, Cmp):
            out = Cmp(v.op, self.subst(v.a, mp, memo), self.subst(v.b, mp, memo))
        elif isinstance(v, DictV):
            out = DictV({k_: self.subst(x, mp, memo) for k_, x in v.items.items()}, self.subst(v.base, mp, memo) if v.base is not None else None)
        memo[k] = out
        return out

    def _atom_plain(self, a):
        o = self.atoms.get(a)
        return o is None or o.kind in ("sym", "fresh", "gen", "str")

    def _rebuild(self, o, mp, memo):
        S = lambda x: self.subst(x, mp, memo)
        if o.kind in ("sym", "fresh", "gen", "str"):
            return o
        if o.kind == "attr":
            return self.mk_attr(S(o.parts[0]), o.parts[1])
        if o.kind == "item":
            return self.mk_item(S(o.parts[0]), S(o.parts[1]))
        if o.kind == "call":
            f, args, kwargs, ep = o.parts
            return self.mk_call(S(f), [S(a) for a in args], [(n, S(x)) for n, x in kwargs], ep)
        if o.kind == "quot":
            return self.div(S(o.parts[0]), S(o.parts[1]))
        if o.kind == "op":
            tag = o.parts[0]
            if tag in ("@", "**", "//", "%"):
                a, b = S(o.parts[1]), S(o.parts[2])
                return self.power(a, b) if tag == "**" else self.binop_opaque(tag, a, b)
            return o
        return o

    # ---- names
    def module_global(self, name, module=None):
        module = module or self.module
        ck = (module.name, name)
        if ck in self._glob:
            return self._glob[ck]
        self._glob[ck] = self.sym(name)      # recursion guard
        v = self._module_global(name, module)
        self._glob[ck] = v
        return v

    def _module_global(self, name, module):
        s, bs = self.repo.lookup(name, module.scope)
        if s is None:
            s, bs = self.repo.star_lookup(name, module)
        if s is None or not bs:
            import builtins
            if hasattr(builtins, name):
                return Ext("builtins." + name)
            return self.sym(name)
        b = bs[-1]
        if b.kind == "def":
            return FuncRef(b.extra)
        if b.kind == "class":
            return ClassRef(b.extra)
        if b.kind == "import":
            m = self.repo.modules.get(b.extra)
            return Ext(b.extra) if m is None else self.opq("sym", "module:" + b.extra, (m,))
        if b.kind == "importfrom":
            vals = self.repo._binding_value(name, b, 0, set())
            for v in vals:
                if isinstance(v, FuncVal) and not v.bound and not v.wrappers:
                    return FuncRef(v.scope)
                if isinstance(v, ExtVal):
                    return Ext(canonical_ext(v.name))
                if isinstance(v, ModVal):
                    return self.opq("sym", "module:" + v.module.name, (v.module,))
                if isinstance(v, NamedTupleVal):
                    return NTType(v.name, v.fields)
            modname, attr, level = b.extra
            tm = self.repo.modules.get(modname)
            if tm is not None and attr in tm.scope.bindings:
                return self.module_global(attr, tm)
            return self.sym(name)
        if b.kind in ("assign",) and b.value is not None and b.index is None and s.kind == "module":
            v = b.value
            if isinstance(v, ast.Constant):
                return v.value if isinstance(v.value, (str, bool, type(None))) else self.num(v.value)
            if isinstance(v, ast.Call):
                nt = namedtuple_fields(v) if (dotted(v.func) or "").split(".")[-1] == "namedtuple" else None
                if nt is not None:
                    return NTType(nt.name if nt.name != "?" else name, nt.fields)
            if isinstance(v, (ast.UnaryOp, ast.BinOp, ast.Tuple, ast.List, ast.Set, ast.Name, ast.JoinedStr, ast.Dict, ast.Subscript)) or \
                    (isinstance(v, ast.Call) and isinstance(v.func, ast.Name) and v.func.id in ("tuple", "list", "set", "frozenset", "dict")):
                try:
                    st = State()
                    st.frames[0] = Frame({}, None, s.module)
                    st.root = 0
                    return self.eval(v, st, 0, Decider([], []), s.module)
                except Exception:
                    return self.sym(name)
            return self.sym(name)
        return self.sym(name)

    def lookup(self, name, st, fid, module):
        f = fid
        saw_root = False
        while f is not None:
            fr = st.frames[f]
            if name in fr.vars:
                return fr.vars[name]
            saw_root = saw_root or f == st.root
            f = fr.parent
        if saw_root and self._fn_locals is not None and name in self._fn_locals:
            self.unbound_reads.add(name)        # a local of the analysed function is read before any assignment on this path
        return self.module_global(name, module)

    # ---- truth and comparisons
    def truth(self, v, st, dec, src=None):
        if isinstance(v, bool):
            return v
        if v is None:
            return False
        if isinstance(v, Num):
            c = self.const_of(v)
            if c is not None:
                return c != 0
            v = self.simplify(v)
        if isinstance(v, (str, tuple)):
            return len(v) > 0
        if isinstance(v, DictV) and v.base is None:
            return len(v.items) > 0
        if isinstance(v, (Closure, FuncRef, Ext, NTType, Rec, BoundMethod, Partial, ClassRef)):
            return True
        if isinstance(v, Cmp):
            return self.decide_cmp(v, st, dec, src)
        k = "T:" + key(v)
        if k in st.truths:
            return st.truths[k]
        if k in self.assumptions:
            b = self.assumptions[k]
        else:
            b = dec.choose()
        st.truths[k] = b
        self.tvals[k] = v
        st.decisions = st.decisions.add((src or key(v), b))
        return b

    def decide_cmp(self, c: Cmp, st, dec, src=None):
        op = c.op
        a, b = c.a, c.b
        numeric = not any(isinstance(x, (str, tuple, Closure, FuncRef, Ext, NTType, Rec, BoundMethod, Partial, DictV, ClassRef, bool)) or x is None for x in (a, b))
        if numeric:
            pa = self.num(a).p
            d = pa - self.num(b).p
            if d.is_zero() and not pa.is_const():
                # x == x / x != x: a test for NaN
                k = "nan?" + repr(pa)
                _, allowed = st.rel.get(k, (pa, frozenset((ZER, UNO))))
                ts = TRUE_SET[op]
                if allowed <= ts:
                    return True
                if not (allowed & ts):
                    return False
                res = dec.choose()
                st.rel[k] = (pa, allowed & ts if res else allowed - ts)
                st.decisions = st.decisions.add((src or f"{key(a)} {op} {key(a)}", res))
                return res
            if d.is_const():
                cv = d.const_value()
                out = NEG if cv < 0 else POS if cv > 0 else ZER
                return out in TRUE_SET[op]
            dn, flipped = normalize_diff(d)
            if flipped:
                op = FLIP[op]
            k = repr(dn)
            _, allowed = st.rel.get(k, (dn, ALL))
            ts = TRUE_SET[op]
            if allowed <= ts:
                return True
            if not (allowed & ts):
                return False
            tk = f"C:{k} {op} 0"
            if tk in self.assumptions:
                res = self.assumptions[tk]
            else:
                res = dec.choose()
            st.rel[k] = (dn, allowed & ts if res else allowed - ts)
            st.decisions = st.decisions.add((src or f"{k} {op} 0", res))
            return res
        # equality of non-numeric values
        if op not in ("==", "!="):
            k = "T:" + key(c)
            if k in st.truths:
                return st.truths[k]
            res = dec.choose()
            st.truths[k] = res
            return res
        ka, kb = key(a), key(b)
        conc = lambda x: isinstance(x, (str, bool)) or x is None
        # values that are certainly objects of another kind than None / a bool / a string
        solid = lambda x: isinstance(x, (tuple, Closure, FuncRef, Ext, NTType, Rec, BoundMethod, Partial, DictV, ClassRef)) or (isinstance(x, Num) and self.const_of(x) is not None)
        if conc(a) and conc(b):
            eq = (a == b) and (type(a) is type(b))
        elif ka == kb:
            eq = True
        elif (solid(a) and (b is None or isinstance(b, str))) or (solid(b) and (a is None or isinstance(a, str))):
            eq = False
        elif isinstance(a, tuple) and isinstance(b, tuple) and len(a) != len(b):
            eq = False
        else:
            if conc(a):
                a, b, ka, kb = b, a, kb, ka
            eq = None
            if conc(b):
                if ka in st.eqc:
                    eq = (st.eqc[ka] == kb)
                elif ("ne", ka, kb) in st.truths:
                    eq = False
                elif b is None or b is False:
                    # a value known (or assumed) to be truthy is neither None nor False
                    tk = "T:" + ka
                    if st.truths.get(tk, self.assumptions.get(tk)) is True:
                        eq = False
                    elif b is None and ka in self._required_params:
                        eq = False      # a parameter without default is an actual argument of the kind the function works on
                    elif b is None and isinstance(a, (Num, Opq)) and not (isinstance(a, Opq) and a.kind in ("sym", "fresh", "gen", "attr", "item")):
                        eq = False      # the result of arithmetic / of a call that was used as a number
            if eq is None:
                k = "T:(" + " == ".join(sorted((ka, kb))) + ")"
                if k in st.truths:
                    eq = st.truths[k]
                elif k in self.assumptions:
                    eq = self.assumptions[k]
                    st.truths[k] = eq
                else:
                    eq = dec.choose()
                    st.truths[k] = eq
                    st.decisions = st.decisions.add((src or k[2:], eq))
                self.tvals[k] = Cmp("==", a, b)
                if conc(b):
                    if eq:
                        st.eqc[ka] = kb
                        if b is None or b is False:
                            st.truths["T:" + ka] = False
                    else:
                        st.truths[("ne", ka, kb)] = True
                elif eq:
                    self.identify(st, a, b)
        return eq if op == "==" else (not eq)

    def identify(self, st, a, b):
        """the path has decided that two symbolic values are the same object / equal: when one of them is a plain unknown it is replaced by
        the other everywhere in the state (so that later code sees one value, as the real execution does)"""
        def plain(x):
            return isinstance(x, Opq) and x.kind in ("fresh", "gen")
        if isinstance(a, Num):
            a = self.simplify(a)
        if isinstance(b, Num):
            b = self.simplify(b)
        if plain(b) and not plain(a):
            a, b = b, a
        if not plain(a) or self.occurs(a.key, b):
            return
        mp = {a.key: b}
        memo = {}
        for fr in st.frames.values():
            for n, v in list(fr.vars.items()):
                if not isinstance(v, (str, bool, type(None), Closure, FuncRef, Ext, NTType, ClassRef)):
                    fr.vars[n] = self.subst(v, mp, memo)
        for k, v in list(st.heap.items()):
            st.heap[k] = self.subst(v, mp, memo)
        for k, v in list(st.ghost.items()):
            st.ghost[k] = self.subst(v, mp, memo)

    # ---- expression evaluation
    def eval(self, e, st, fid, dec, module):
        m = getattr(self, "e_" + type(e).__name__, None)
        if m is None:
            return self.opq("op", "expr:" + norm_src(e), ("expr",))
        return m(e, st, fid, dec, module)

    def e_Constant(self, e, st, fid, dec, module):
        v = e.value
        if isinstance(v, (str, bool)) or v is None:
            return v
        if isinstance(v, (int, float)):
            return self.num(v)
        return self.sym(repr(v))

    def e_Name(self, e, st, fid, dec, module):
        return self.lookup(e.id, st, fid, module)

    def e_Tuple(self, e, st, fid, dec, module):
        return tuple(self.eval(x, st, fid, dec, module) for x in e.elts)

    e_List = e_Tuple

    def e_JoinedStr(self, e, st, fid, dec, module):
        parts = []
        for v in e.values:
            if isinstance(v, ast.Constant):
                parts.append(str(v.value))
            else:
                parts.append("{" + key(self.eval(v.value, st, fid, dec, module)) + "}")
        return self.opq("op", "fstr:" + "".join(parts), ("fstr",))

    def e_Lambda(self, e, st, fid, dec, module):
        return Closure(e, fid, self.repo.scope_of(e), "lambda", self.eval_defaults(e.args, st, fid, dec, module), self._closure_tag(fid))

    def eval_defaults(self, fnargs, st, fid, dec, module):
        """default values are evaluated when the function object is created"""
        if not fnargs.defaults and not any(d is not None for d in fnargs.kw_defaults):
            return None
        return ([self.eval(d, st, fid, dec, module) for d in fnargs.defaults],
                [self.eval(d, st, fid, dec, module) if d is not None else None for d in fnargs.kw_defaults])

    def e_IfExp(self, e, st, fid, dec, module):
        if self.truth(self.eval(e.test, st, fid, dec, module), st, dec, norm_src(e.test)):
            return self.eval(e.body, st, fid, dec, module)
        return self.eval(e.orelse, st, fid, dec, module)

    def e_UnaryOp(self, e, st, fid, dec, module):
        v = self.eval(e.operand, st, fid, dec, module)
        if isinstance(e.op, ast.Not):
            return not self.truth(v, st, dec, norm_src(e.operand))
        if isinstance(e.op, ast.USub):
            return self.neg(v)
        if isinstance(e.op, ast.UAdd):
            return v
        return self.opq("op", f"(~{key(v)})", ("~", v))

    def e_BoolOp(self, e, st, fid, dec, module):
        is_and = isinstance(e.op, ast.And)
        v = None
        for x in e.values:
            v = self.eval(x, st, fid, dec, module)
            t = self.truth(v, st, dec, norm_src(x))
            if is_and and not t:
                return v if isinstance(v, bool) or not isinstance(v, Cmp) else False
            if not is_and and t:
                return v if isinstance(v, bool) or not isinstance(v, Cmp) else True
        return v if not isinstance(v, Cmp) else (is_and)

    def e_BinOp(self, e, st, fid, dec, module):
        a = self.eval(e.left, st, fid, dec, module)
        b = self.eval(e.right, st, fid, dec, module)
        op = e.op
        try:
            if isinstance(op, ast.Add):
                return self.add(a, b)
            if isinstance(op, ast.Sub):
                return self.sub(a, b)
            if isinstance(op, ast.Mult):
                return self.mul(a, b)
            if isinstance(op, ast.Div):
                return self.div(a, b)
            if isinstance(op, ast.Pow):
                return self.power(a, b)
        except Unsupported:
            pass
        name = {ast.MatMult: "@", ast.FloorDiv: "//", ast.Mod: "%", ast.Add: "+", ast.Sub: "-", ast.Mult: "*", ast.Div: "/", ast.Pow: "**"}.get(type(op), type(op).__name__)
        return self.binop_opaque(name, a, b)

    def e_Compare(self, e, st, fid, dec, module):
        left = self.eval(e.left, st, fid, dec, module)
        res = True
        for op, comp in zip(e.ops, e.comparators):
            right = self.eval(comp, st, fid, dec, module)
            opn = OPNAME.get(type(op))
            if opn in ("in", "not in"):
                r = self.contains(left, right, st, dec)
                if opn == "not in":
                    r = not r
            elif opn is None:
                r = self.truth(self.opq("op", f"({key(left)} {type(op).__name__} {key(right)})", ("cmpx",)), st, dec)
            else:
                c = Cmp(opn, left, right)
                if len(e.ops) == 1:
                    # a single comparison stays symbolic until its truth value is needed
                    cl = self._concrete_cmp(c)
                    return c if cl is None else cl
                r = self.truth(c, st, dec, norm_src(e))
            if not r:
                return False
            left = right
        return res

    def _concrete_cmp(self, c):
        a, b = c.a, c.b
        conc = lambda x: isinstance(x, (str, bool)) or x is None
        if conc(a) and conc(b) and c.op in ("==", "!="):
            eq = (a == b) and (type(a) is type(b))
            return eq if c.op == "==" else not eq
        if isinstance(a, Num) and isinstance(b, Num):
            d = a.p - b.p
            if d.is_const() and (a.p.is_const() or not d.is_zero()):
                cv = d.const_value()
                out = NEG if cv < 0 else POS if cv > 0 else ZER
                return out in TRUE_SET[c.op]
        return None

    def contains(self, x, cont, st, dec):
        if isinstance(cont, tuple):
            for y in cont:
                if self.truth(Cmp("==", x, y), st, dec):
                    return True
            return False
        if isinstance(cont, Rec):
            return self.contains(x, tuple(cont.vals.get(f) for f in cont.fields), st, dec)
        return self.truth(self.opq("op", f"({key(x)} in {key(cont)})", ("in",)), st, dec)

    def e_Set(self, e, st, fid, dec, module):
        return tuple(self.eval(x, st, fid, dec, module) for x in e.elts)

    def e_Subscript(self, e, st, fid, dec, module):
        base = self.eval(e.value, st, fid, dec, module)
        if isinstance(e.slice, ast.Slice):
            return self.opq("op", f"{key(base)}[{norm_src(e.slice)}]", ("slice",))
        idx = self.eval(e.slice, st, fid, dec, module)
        return self.getitem(base, idx)

    def getitem(self, base, idx):
        if isinstance(base, DictV) and isinstance(idx, Num) and self.const_of(idx) is not None and self.const_of(idx).denominator == 1:
            idx = int(self.const_of(idx))
        if isinstance(base, DictV) and (isinstance(idx, (str, bool, int)) or idx is None):
            if idx in base.items:
                return base.items[idx]
            if base.base is not None:
                return self.getattr_value(base.base, idx, None) if isinstance(base.base, (Opq, Rec)) else self.mk_item(base.base, idx)
        ci = self.const_of(idx) if isinstance(idx, Num) else None
        if ci is not None and ci.denominator == 1:
            i = int(ci)
            if isinstance(base, tuple) and -len(base) <= i < len(base):
                return base[i]
            if isinstance(base, Rec) and -len(base.fields) <= i < len(base.fields):
                return self.rec_field(base, base.fields[i])
        return self.mk_item(base, idx)

    def rec_field(self, r: Rec, f):
        if f in r.vals:
            return r.vals[f]
        if r.base is not None:
            return self.getattr_value(r.base, f, None)
        return self.mk_attr(self.sym(r.tname + "?"), f)

    def e_Attribute(self, e, st, fid, dec, module):
        base = self.eval(e.value, st, fid, dec, module)
        if self.cls is not None and isinstance(base, Opq) and base.key == self.self_key:
            m = self.class_member(e.attr)
            if m is not None:
                decs = [dotted(d) or "" for d in m.node.decorator_list]
                if "property" in decs:
                    return self.call(FuncRef(m), [base], [], st, dec, e)
                if (base.key, e.attr) not in st.heap and not any(d.endswith(".setter") for d in decs):
                    return Partial(FuncRef(m), (base,))
        return self.getattr_value(base, e.attr, st)

    def member_of(self, cls, name):
        try:
            mro = self.repo.class_mro(cls)
        except Exception:
            mro = [cls]
        for c in mro:
            hits = [ch for ch in c.children if ch.kind == "function" and ch.name == name]
            if hits:
                return hits[-1]
        return None

    def class_member(self, name, setter=False):
        """function scope of the member `name` of the analysed class (or of a base class in the repository)"""
        try:
            mro = self.repo.class_mro(self.cls)
        except Exception:
            mro = [self.cls]
        for c in mro:
            hits = [ch for ch in c.children if ch.kind == "function" and ch.name == name]
            if setter:
                hits = [ch for ch in hits if any((dotted(d) or "") == f"{name}.setter" for d in ch.node.decorator_list)]
            else:
                hits = [ch for ch in hits if not any((dotted(d) or "").endswith(".setter") for d in ch.node.decorator_list)]
            if hits:
                return hits[-1]
        return None

    def _owner_class(self, fn_node):
        """class scope whose body defines the function `fn_node` (None for plain functions)"""
        mp = getattr(self, "_method_cls", None)
        if mp is None:
            mp = {}

            def walk(sc):
                for ch in sc.children:
                    if ch.kind == "function" and ch.cls is not None and ch.parent is ch.cls:
                        mp[id(ch.node)] = ch.cls
                    walk(ch)
            for m in self.repo.modules.values():
                walk(m.scope)
            self._method_cls = mp
        return mp.get(id(fn_node))

    def _super_ref(self, st, fid):
        """zero-argument super() in the frame `fid`: (first parameter of the method, class that defines the method)"""
        fr = st.frames.get(fid)
        if fr is None or not isinstance(fr.owner, (ast.FunctionDef, ast.AsyncFunctionDef)):
            return None
        cls = self._owner_class(fr.owner)
        a = fr.owner.args
        first = [x.arg for x in a.posonlyargs + a.args][:1]
        if cls is None or not first or first[0] not in fr.vars:
            return None
        obj = fr.vars[first[0]]
        if isinstance(obj, Num):
            obj = self.simplify(obj)
        if not isinstance(obj, Opq):
            return None
        return SuperRef(obj, cls)

    def super_member(self, sr, name):
        """function scope of `name` looked up behind sr.cls in the MRO of the class of sr.obj"""
        if sr.obj.kind == "obj" and sr.obj.parts:
            runtime = sr.obj.parts[0]
        elif self.cls is not None and sr.obj.key == self.self_key:
            runtime = self.cls
        else:
            runtime = sr.cls
        try:
            mro = list(self.repo.class_mro(runtime))
        except Exception:
            mro = [runtime]
        if sr.cls not in mro:
            try:
                mro = list(self.repo.class_mro(sr.cls))
            except Exception:
                mro = [sr.cls]
        for c in mro[mro.index(sr.cls) + 1:]:
            hits = [ch for ch in c.children if ch.kind == "function" and ch.name == name]
            if hits:
                return hits[-1]
        return None

    def getattr_value(self, base, attr, st):
        if isinstance(base, Num):
            base = self.simplify(base)
        if isinstance(base, SuperRef):
            m = self.super_member(base, attr)
            if m is not None:
                return Partial(FuncRef(m), (base.obj,))
            return self.mk_attr(self.opq("sym", key(base), (base,)), attr)
        if isinstance(base, ClassRef):
            # Class.method: the plain function (explicit base-class calls `Base.__init__(self, ...)`)
            m = self.member_of(base.scope, attr)
            if m is not None and not any((dotted(d) or "") in ("staticmethod", "classmethod", "property") for d in m.node.decorator_list):
                return FuncRef(m)
        if isinstance(base, NTType) and attr == "_fields":
            return tuple(base.fields)
        if isinstance(base, Opq) and base.kind == "obj":
            if st is not None and (base.key, attr) in st.heap:
                return st.heap[(base.key, attr)]
            m = self.member_of(base.parts[0], attr)
            if m is not None:
                return Partial(FuncRef(m), (base,))
            return self.mk_attr(base, attr)
        if isinstance(base, Rec):
            if attr in base.fields:
                return self.rec_field(base, attr)
            return BoundMethod(base, attr)
        if isinstance(base, Ext):
            return Ext(canonical_ext(base.name + "." + attr))
        if isinstance(base, Opq) and base.kind == "sym" and base.key.startswith("module:") and base.parts:
            return self.module_global(attr, base.parts[0])
        if isinstance(base, Opq):
            if st is not None and (base.key, attr) in st.heap:
                return st.heap[(base.key, attr)]
            if attr in ("_replace", "_asdict", "__dict__"):
                return BoundMethod(base, attr)
            return self.mk_attr(base, attr)
        if isinstance(base, BoundMethod):
            return BoundMethod(base, attr)
        if isinstance(base, (str, tuple, NTType, Closure, FuncRef, DictV, ClassRef, Partial)):
            return BoundMethod(base, attr)
        return self.mk_attr(self.num(base) if not isinstance(base, Opq) else base, attr)

    def e_NamedExpr(self, e, st, fid, dec, module):
        v = self.eval(e.value, st, fid, dec, module)
        self.assign(e.target, v, st, fid, dec, module, e)
        return v

    def e_Starred(self, e, st, fid, dec, module):
        return self.opq("op", "*" + key(self.eval(e.value, st, fid, dec, module)), ("star",))

    def e_Dict(self, e, st, fid, dec, module):
        items, base, plain = {}, None, True
        shown = []
        for k_, v_ in zip(e.keys, e.values):
            val = self.eval(v_, st, fid, dec, module)
            if k_ is None:
                if isinstance(val, DictV) and (val.base is None or (base is None and not items)):
                    items.update(val.items)
                    base = val.base if val.base is not None else base
                else:
                    plain = False
                shown.append(("**", key(val)))
                continue
            kv = self.eval(k_, st, fid, dec, module)
            if isinstance(kv, Num) and self.const_of(kv) is not None and self.const_of(kv).denominator == 1:
                kv = int(self.const_of(kv))
            if isinstance(kv, (str, bool, int)) or kv is None:
                items[kv] = val
            else:
                plain = False
            shown.append((key(kv), key(val)))
        if plain:
            return DictV(items, base)
        return self.opq("op", "{" + ", ".join(f"{a}: {b}" for a, b in shown) + "}", ("dict",))

    # ---- calls
    def e_Call(self, e, st, fid, dec, module):
        f = self.eval(e.func, st, fid, dec, module)
        if isinstance(f, Ext) and f.name == "builtins.super" and not e.args and not e.keywords:
            sr = self._super_ref(st, fid)
            if sr is not None:
                return sr
        args = []
        star = False
        for a in e.args:
            if isinstance(a, ast.Starred):
                v = self.eval(a.value, st, fid, dec, module)
                if isinstance(v, tuple):
                    args.extend(v)
                else:
                    star = True
                    args.append(self.opq("op", "*" + key(v), ("star",)))
            else:
                args.append(self.eval(a, st, fid, dec, module))
        kwargs = []
        for k in e.keywords:
            v = self.eval(k.value, st, fid, dec, module)
            if k.arg is None:
                if isinstance(v, DictV) and v.base is None:
                    kwargs.extend(sorted(v.items.items()))
                elif isinstance(v, DictV) and isinstance(f, NTType):
                    kwargs.extend(sorted(v.items.items()))
                    kwargs.append(("**base", v.base))
                else:
                    star = True
                    kwargs.append(("**", v))
            else:
                kwargs.append((k.arg, v))
        return self.call(f, args, kwargs, st, dec, e, star)

    def callee_params(self, f):
        if isinstance(f, FuncRef):
            return f.scope.node.args
        if isinstance(f, Closure):
            return f.node.args
        return None

    def bind(self, fnargs, args, kwargs, st, fid_def, dec, module, defaults=None):
        """parameter name -> value; None when the call cannot be bound statically"""
        pos = [a.arg for a in fnargs.posonlyargs + fnargs.args]
        kwo = [a.arg for a in fnargs.kwonlyargs]
        if len(args) > len(pos) and fnargs.vararg is None:
            return None
        out = {}
        for p, a in zip(pos, args):
            out[p] = a
        if fnargs.vararg is not None:
            out[fnargs.vararg.arg] = tuple(args[len(pos):])
        extra = {}
        for n, v in kwargs:
            if n == "**":
                return None
            if n in out:
                return None
            if n in pos or n in kwo:
                out[n] = v
            elif fnargs.kwarg is not None:
                extra[n] = v
            else:
                return None
        nd = len(fnargs.defaults)
        for i, p in enumerate(pos):
            if p not in out:
                j = i - (len(pos) - nd)
                if j < 0:
                    return None
                out[p] = defaults[0][j] if defaults is not None else self.eval(fnargs.defaults[j], st, fid_def, dec, module)
        for i, (p, d) in enumerate(zip(kwo, fnargs.kw_defaults)):
            if p not in out:
                if d is None:
                    return None
                out[p] = defaults[1][i] if defaults is not None else self.eval(d, st, fid_def, dec, module)
        if fnargs.kwarg is not None:
            out[fnargs.kwarg.arg] = self.opq("op", "kwargs{" + ", ".join(f"{n}={key(v)}" for n, v in sorted(extra.items())) + "}", ("kwargs",))
        return out

    def may_inline(self, fn_node, scope, depth):
        if not self.inline or depth > 6:
            return False, "depth"
        r = self._inl.get(id(fn_node))
        if r is None:
            r = self._may_inline(fn_node, scope)
            self._inl[id(fn_node)] = r
        return r

    def _may_inline(self, fn_node, scope):
        if not _loop_free(fn_node):
            return False, "contains a loop"
        if isinstance(fn_node, ast.Lambda):
            return True, ""
        if scope is not None and scope.qualname in self.opaque_names:
            return False, "anchor"
        if scope is not None and scope.module is not self.module:
            if self.inline_other is None or scope.qualname in self.opaque_names or not self.inline_other(scope):
                return False, "other module"
            return True, ""
        if _output_only(fn_node):
            return False, "output only"
        nested = scope is None or (scope.parent is not None and scope.parent.kind != "module")
        if nested:
            return True, ""
        if scope.cls is not None:
            # methods are only reached through an object of known class (self of the analysed method, an instance created on the path)
            return True, ""
        if fn_node.name.startswith("_"):
            return True, ""
        nb = _branch_count(fn_node)
        limit = 99 if self.inline_level == 0 else 1
        if nb <= limit and sum(1 for _ in ast.walk(fn_node)) < 900:
            return True, ""
        return False, f"{nb} branch points"

    def call(self, f, args, kwargs, st, dec, node, star=False, depth=None):
        if isinstance(f, Num):
            f = self.simplify(f)
        # records
        if isinstance(f, NTType):
            vals = {}
            base = None
            ok = len(args) <= len(f.fields) and not star
            for fld, a in zip(f.fields, args):
                vals[fld] = a
            for n, v in kwargs:
                if n == "**base":
                    base = v
                elif n in f.fields and n not in vals:
                    vals[n] = v
                else:
                    ok = False
            if ok:
                return Rec(f.name, f.fields, vals, base)
            return self.opaque_call(f, args, kwargs, st, node)
        if isinstance(f, BoundMethod) and isinstance(f.obj, NTType) and f.name == "_make" and len(args) == 1 and isinstance(args[0], tuple) \
                and len(args[0]) == len(f.obj.fields):
            return Rec(f.obj.name, f.obj.fields, dict(zip(f.obj.fields, args[0])))
        if isinstance(f, BoundMethod) and f.name == "_asdict" and not args:
            if isinstance(f.obj, Rec):
                return DictV(f.obj.vals, f.obj.base)
            if isinstance(f.obj, Opq):
                return DictV({}, f.obj)
        if isinstance(f, BoundMethod) and f.name == "update" and isinstance(f.obj, BoundMethod) and f.obj.name == "__dict__" and isinstance(f.obj.obj, Opq) and not star:
            # vars(obj).update(...) / obj.__dict__.update(...): plain attribute stores
            items = {}
            okd = True
            for a in args:
                if isinstance(a, DictV) and a.base is None:
                    items.update(a.items)
                else:
                    okd = False
            items.update(dict(kwargs))
            if okd and all(isinstance(k_, str) for k_ in items):
                for k_, v_ in items.items():
                    self.store_attr(f.obj.obj, k_, v_, st, dec, node)
                return None
        if isinstance(f, BoundMethod) and isinstance(f.obj, DictV):
            if f.name == "get" and args and isinstance(args[0], str):
                if args[0] in f.obj.items:
                    return f.obj.items[args[0]]
                if f.obj.base is None:
                    return args[1] if len(args) > 1 else None
            if f.name == "copy" and not args:
                return f.obj
            if f.name == "keys" and not args and f.obj.base is None:
                return tuple(f.obj.items)
            if f.name == "values" and not args and f.obj.base is None:
                return tuple(f.obj.items.values())
            if f.name == "items" and not args and f.obj.base is None:
                return tuple((k_, v_) for k_, v_ in f.obj.items.items())
        if isinstance(f, BoundMethod):
            if f.name == "_replace" and not args and not star:
                if isinstance(f.obj, Rec):
                    v = dict(f.obj.vals)
                    v.update(dict(kwargs))
                    return Rec(f.obj.tname, f.obj.fields, v, f.obj.base)
                fields = tuple(n for n, _ in kwargs)
                nt = [t for t in (self.module_global(n) for n in list(self.module.scope.bindings)) if isinstance(t, NTType)]
                if len(nt) == 1:
                    return Rec(nt[0].name, nt[0].fields, dict(kwargs), f.obj)
                return Rec("?", fields, dict(kwargs), f.obj)
            return self.opaque_call(self.mk_attr(self.num_or_opq(f.obj), f.name), args, kwargs, st, node)
        if isinstance(f, Opq) and f.kind == "obj" and not star:
            m = self.member_of(f.parts[0], "__call__")
            if m is not None:
                return self.call(FuncRef(m), [f] + list(args), kwargs, st, dec, node, False)
        if isinstance(f, ClassRef) and not star and f.scope.module is self.module:
            init = self.member_of(f.scope, "__init__")
            if (init is None or _loop_free(init.node)) and not any(isinstance(b_, ast.Call) for b_ in f.scope.node.bases):
                obj = self.opq("obj", f"<{f.scope.name}@{getattr(node, 'lineno', 0)}({', '.join(key(a) for a in args)})>", (f.scope,))
                if init is not None:
                    for hk in [hk for hk in st.heap if hk[0] == obj.key]:
                        del st.heap[hk]
                    self.call(FuncRef(init), [obj] + list(args), kwargs, st, dec, node, False)
                return obj
        if isinstance(f, Ext) and not star:
            nm = f.name
            if nm == "builtins.dict":
                if not args:
                    return DictV(dict(kwargs))
                if len(args) == 1 and isinstance(args[0], DictV):
                    d_ = dict(args[0].items)
                    d_.update(dict(kwargs))
                    return DictV(d_, args[0].base)
                if len(args) == 1 and isinstance(args[0], tuple) and all(isinstance(p_, tuple) and len(p_) == 2 and isinstance(p_[0], str) for p_ in args[0]):
                    d_ = {p_[0]: p_[1] for p_ in args[0]}
                    d_.update(dict(kwargs))
                    return DictV(d_)
            if nm == "builtins.bool" and len(args) == 1 and not kwargs:
                return self.truth(args[0], st, dec)
            if nm == "builtins.vars" and len(args) == 1 and isinstance(args[0], Opq):
                return BoundMethod(args[0], "__dict__")
            if nm == "builtins.zip" and not kwargs and len(args) >= 2 and all(isinstance(a, tuple) for a in args):
                return tuple(tuple(a[i] for a in args) for i in range(min(len(a) for a in args)))
            if nm == "builtins.len" and len(args) == 1 and isinstance(args[0], (tuple, str)):
                return self.num(len(args[0]))
            if nm == "builtins.setattr" and len(args) == 3 and isinstance(args[1], str) and isinstance(args[0], (Opq, Num)):
                self.store_attr(args[0], args[1], args[2], st, dec, node)
                return None
            if nm == "builtins.getattr" and len(args) in (2, 3) and isinstance(args[1], str):
                return self.getattr_value(args[0], args[1], st)
            last_ = nm.split(".")[-1]
            if not kwargs and len(args) == 2 and not any(isinstance(a, (str, bool, tuple, type(None))) for a in args):
                if last_ in ("divide", "true_divide"):
                    return self.div(args[0], args[1])
                if last_ == "multiply":
                    return self.mul(args[0], args[1])
                if last_ == "add":
                    return self.add(args[0], args[1])
                if last_ == "subtract":
                    return self.sub(args[0], args[1])
            if not kwargs and len(args) == 1 and last_ == "negative" and not isinstance(args[0], (str, bool, tuple, type(None))):
                return self.neg(args[0])
        if isinstance(f, Partial) and not star:
            return self.call(f.f, list(f.args) + list(args), list(f.kwargs) + [kv for kv in kwargs], st, dec, node, False)
        if isinstance(f, Ext) and f.name == "functools.partial" and args and not star and isinstance(args[0], (FuncRef, Closure, Partial, Opq, Ext)):
            return Partial(args[0], args[1:], kwargs)
        if isinstance(f, Ext) and not star and not kwargs:
            last = f.name.split(".")[-1]
            if f.name in ("builtins.tuple", "builtins.list", "builtins.set", "builtins.frozenset") and len(args) == 1 and isinstance(args[0], tuple):
                return args[0]
            if last == "isnan" and len(args) == 1 and not isinstance(args[0], (str, bool, tuple, type(None))):
                return Cmp("!=", args[0], args[0])
            if last == "square" and len(args) == 1 and not isinstance(args[0], (str, bool, tuple, type(None))):
                return self.mul(args[0], args[0])
            if last in ("dot", "vdot", "inner") and len(args) == 2 and not any(isinstance(x, (str, bool, tuple, type(None))) for x in args):
                return self.binop_opaque("@", args[0], args[1])
            if last in ("logical_and", "logical_or") and len(args) == 2 and all(isinstance(x, (Cmp, bool)) for x in args):
                t0, t1 = self.truth(args[0], st, dec), self.truth(args[1], st, dec)     # no short circuit: both operands are evaluated
                return (t0 and t1) if last == "logical_and" else (t0 or t1)
            if last == "logical_not" and len(args) == 1 and isinstance(args[0], (Cmp, bool)):
                return not self.truth(args[0], st, dec)
            if last in ("where", "if_then_else") and len(args) == 3 and isinstance(args[0], (Cmp, bool)):
                # scalar selection: both alternatives are already evaluated (no short circuit), the result is one of them
                return args[1] if self.truth(args[0], st, dec) else args[2]
        if isinstance(f, (FuncRef, Closure)) and not star:
            fn_node = f.scope.node if isinstance(f, FuncRef) else f.node
            scope = f.scope
            cur_depth = getattr(st, "_depth", 0)
            ok, why = self.may_inline(fn_node, scope, cur_depth)
            if scope is not None and isinstance(f, FuncRef):
                self.visited[scope.qualname] = scope
            if ok:
                mod = scope.module if scope is not None else self.module
                fid_def = f.fid if isinstance(f, Closure) else None
                bound = self.bind(fn_node.args, args, kwargs, st, fid_def, dec, mod, f.defaults if isinstance(f, Closure) else None)
                if bound is not None:
                    return self.run_inline(fn_node, scope, bound, fid_def, st, dec, mod)
                why = "arguments cannot be bound"
            if isinstance(f, FuncRef):
                self.opaque_calls.setdefault(f.scope.qualname, why)
                # canonical positional form for keyword arguments of a known callee
                ps = f.scope.params()
                if kwargs and all(n in ps for n, _ in kwargs) and len(args) + len(kwargs) <= len(ps):
                    m = dict(zip(ps, args))
                    if not any(n in m for n, _ in kwargs):
                        m.update(dict(kwargs))
                        k = 0
                        while k < len(ps) and ps[k] in m:
                            k += 1
                        if k == len(m):
                            args, kwargs = [m[p] for p in ps[:k]], []
        return self.opaque_call(f, args, kwargs, st, node)

    def num_or_opq(self, v):
        if isinstance(v, (Opq, Num)):
            return v
        return self.opq("sym", key(v), (v,))

    def opaque_call(self, f, args, kwargs, st, node):
        args = [self.simplify(a) if isinstance(a, Num) else a for a in args]
        kwargs = [(n, self.simplify(v) if isinstance(v, Num) else v) for n, v in kwargs]
        res = self.mk_call(f, args, kwargs, self.epoch_of(f, args, kwargs, st))
        if self.watch and not (isinstance(f, Ext) and f.name == "builtins.print"):
            for a in list(args) + [v for _, v in kwargs]:
                if not isinstance(a, (str, bool, type(None))) and key(a) in self.watch:
                    st.escaped = st.escaped | {key(a)}
        self.seq += 1
        ev = Event(self.seq, f, tuple(args), tuple(kwargs), node, res, dict(st.heap) if st.heap else {}, st.top, getattr(st, "_depth", 0))
        st.events = st.events.add(ev)
        for h in self.hooks:
            h(self, st, ev)
        return res

    def cfg_for(self, fn_node, scope):
        c = self._cfgs.get(id(fn_node))
        if c is None:
            c = cfg_of(scope) if scope is not None and scope.node is fn_node else CFG(fn_node)
            self._cfgs[id(fn_node)] = c
        return c

    def run_inline(self, fn_node, scope, bound, parent_fid, st, dec, module):
        if self.unique_frames:
            # frame numbers are never reused on another path: a closure (whose text carries the number of its defining frame) denotes one binding
            self._gfid += 1
            fid = self._gfid
        else:
            fid = st.next_fid
            st.next_fid += 1
        st.frames[fid] = Frame(dict(bound), parent_fid, fn_node)
        depth0 = getattr(st, "_depth", 0)
        st._depth = depth0 + 1
        try:
            if isinstance(fn_node, ast.Lambda):
                return self.eval(fn_node.body, st, fid, dec, module)
            cfg = self.cfg_for(fn_node, scope)
            node = cfg.entry
            guard = 0
            while True:
                guard += 1
                if guard > 2000:
                    raise Unsupported("inlined function does not terminate")
                nxt = self.exec_node(cfg, node, st, fid, dec, module)
                if isinstance(nxt, tuple):
                    if nxt[0] == "return":
                        return nxt[1]
                    raise Unsupported("raise in inlined function")
                node = nxt
        finally:
            st._depth = depth0

    # ---- statements
    def assign(self, t, v, st, fid, dec, module, node):
        if isinstance(t, ast.Name):
            st.frames[fid].vars[t.id] = v
            if fid == st.root:
                st.writes = st.writes.add((t.id, v, node))
        elif isinstance(t, (ast.Tuple, ast.List)):
            n = len(t.elts)
            if isinstance(v, tuple) and len(v) == n and not any(isinstance(x, ast.Starred) for x in t.elts):
                for te, ve in zip(t.elts, v):
                    self.assign(te, ve, st, fid, dec, module, node)
            else:
                for i, te in enumerate(t.elts):
                    if isinstance(te, ast.Starred):
                        self.assign(te.value, self.fresh("star"), st, fid, dec, module, node)
                    else:
                        self.assign(te, self.getitem(v, self.num(i)), st, fid, dec, module, node)
        elif isinstance(t, ast.Attribute):
            obj = self.eval(t.value, st, fid, dec, module)
            if isinstance(obj, Num):
                obj = self.simplify(obj)
            self.store_attr(obj, t.attr, v, st, dec, node)
        elif isinstance(t, ast.Subscript) and isinstance(t.value, ast.Name) and isinstance(self.lookup(t.value.id, st, fid, module), DictV) \
                and isinstance(t.slice, ast.Constant) and isinstance(t.slice.value, str):
            old = self.lookup(t.value.id, st, fid, module)
            items = dict(old.items)
            items[t.slice.value] = v
            self.assign(t.value, DictV(items, old.base), st, fid, dec, module, node)
        elif isinstance(t, ast.Subscript):
            base = t.value
            while isinstance(base, (ast.Subscript, ast.Attribute)):
                base = base.value
            if isinstance(base, ast.Name):
                old = self.lookup(base.id, st, fid, module)
                self.assign(base, self.opq("op", f"upd({key(old)}; {norm_src(t.slice)}; {key(v)})", ("upd",)), st, fid, dec, module, node)

    def store_attr(self, obj, attr, v, st, dec, node):
        if isinstance(obj, Num):
            obj = self.simplify(obj)
        if isinstance(obj, Opq) and self.cls is not None and obj.key == self.self_key and self.class_member(attr, setter=True) is not None:
            self.call(FuncRef(self.class_member(attr, setter=True)), [obj, v], [], st, dec, node)
        elif isinstance(obj, Opq):
            st.heap[(obj.key, attr)] = v
            st.writes = st.writes.add((("h", obj.key, attr), v, node))
            st.epochs[obj.key] = st.epochs.get(obj.key, 0) + 1
            self.seq += 1
            ev = Event(self.seq, "store", (obj, attr, v), (), node, None, dict(st.heap), st.top, getattr(st, "_depth", 0))
            st.events = st.events.add(ev)
            for h in self.hooks:
                h(self, st, ev)

    def exec_stmt(self, s, st, fid, dec, module):
        if isinstance(s, ast.Assign):
            v = self.eval(s.value, st, fid, dec, module)
            for t in s.targets:
                self.assign(t, v, st, fid, dec, module, s)
        elif isinstance(s, ast.AugAssign):
            cur = self.eval(_load(s.target), st, fid, dec, module)
            v = self.eval(s.value, st, fid, dec, module)
            r = self._binop_values(s.op, cur, v)
            self.assign(s.target, r, st, fid, dec, module, s)
        elif isinstance(s, ast.AnnAssign):
            if s.value is not None:
                self.assign(s.target, self.eval(s.value, st, fid, dec, module), st, fid, dec, module, s)
        elif isinstance(s, ast.Expr):
            self.eval(s.value, st, fid, dec, module)
        elif isinstance(s, (ast.FunctionDef, ast.AsyncFunctionDef)):
            sc = self.repo.scope_of(s)
            st.frames[fid].vars[s.name] = Closure(s, fid, sc, s.name, self.eval_defaults(s.args, st, fid, dec, module), self._closure_tag(fid))
        elif isinstance(s, ast.Return):
            v = self.eval(s.value, st, fid, dec, module) if s.value is not None else None
            if fid == st.root:
                # a comparison returned by the analysed function itself is decided here (one path per outcome)
                if isinstance(v, Cmp):
                    v = self.truth(v, st, dec, norm_src(s.value))
                elif isinstance(v, tuple) and any(isinstance(x, Cmp) for x in v):
                    v = tuple(self.truth(x, st, dec) if isinstance(x, Cmp) else x for x in v)
            return ("return", v)
        elif isinstance(s, ast.Raise):
            return ("raise", None)
        elif isinstance(s, (ast.With, ast.AsyncWith)):
            for it in s.items:
                v = self.eval(it.context_expr, st, fid, dec, module)
                if it.optional_vars is not None:
                    self.assign(it.optional_vars, v, st, fid, dec, module, s)
        elif isinstance(s, ast.Assert):
            pass
        return None

    def _binop_values(self, op, a, b):
        try:
            if isinstance(op, ast.Add):
                return self.add(a, b)
            if isinstance(op, ast.Sub):
                return self.sub(a, b)
            if isinstance(op, ast.Mult):
                return self.mul(a, b)
            if isinstance(op, ast.Div):
                return self.div(a, b)
            if isinstance(op, ast.Pow):
                return self.power(a, b)
        except Unsupported:
            pass
        return self.binop_opaque(type(op).__name__, a, b)

    def exec_node(self, cfg, node, st, fid, dec, module):
        """execute one CFG node; returns the next node or ('return', value) / ('raise', None)"""
        self.steps += 1
        if self.steps > self.max_steps:
            raise Budget(f"more than {self.max_steps} symbolic steps")
        if node.kind in ("entry", "join"):
            return node.succ[0][0] if node.succ else cfg.exit
        if node is cfg.exit:
            return ("return", None)
        if node is cfg.raise_exit:
            return ("raise", None)
        if node.kind == "cond":
            t = self.truth(self.eval(node.ast, st, fid, dec, module), st, dec, norm_src(node.ast))
            for (m, lab) in node.succ:
                if lab == t:
                    return m
            return cfg.exit
        if node.kind == "for":
            # loop headers of inlined functions are excluded by may_inline; the top-level ones are driven by `explore`
            it = self.eval(node.ast.iter, st, fid, dec, module)
            go = dec.choose()
            st.decisions = st.decisions.add((f"for {norm_src(node.ast.target)} in {norm_src(node.ast.iter)}: next iteration", go))
            if go:
                self.assign(node.ast.target, self.fresh(norm_src(node.ast.target)), st, fid, dec, module, node.ast)
            for (m, lab) in node.succ:
                if lab == go:
                    return m
            return cfg.exit
        r = self.exec_stmt(node.ast, st, fid, dec, module)
        if r is not None:
            return r
        for (m, lab) in node.succ:
            if m is not cfg.raise_exit or len(node.succ) == 1:
                return m
        return cfg.exit

    # ---- path exploration of the top-level function
    def step_all(self, cfg, node, st0, fid, module):
        outs = []
        work = [[]]
        while work:
            script = work.pop()
            st = st0.copy()
            st.top = node
            dec = Decider(script, work)
            nxt = self.exec_node(cfg, node, st, fid, dec, module)
            outs.append((nxt, st))
        return outs

    @staticmethod
    def is_header(node):
        return node.kind == "for" or (node.kind == "cond" and isinstance(node.stmt, ast.While))

    def explore(self, cfg, L, st, start, execute_start):
        """all paths from `start` in the context of loop header L (None: function level) up to: return, back edge to L, leaving L,
        or the header of a directly nested loop"""
        fid, module = st.root, self.module
        work = [(start, st, execute_start)]
        results = []
        while work:
            node, s, first = work.pop()
            if not first:
                if L is not None and node is L:
                    results.append(PathEnd("back", s, node, loop=L))
                    continue
                if L is not None and L not in node.loops:
                    results.append(PathEnd("exit", s, node, loop=L))
                    continue
                if self.is_header(node):
                    results.append(PathEnd("enter", s, node, loop=L))
                    continue
            for (nxt, s2) in self.step_all(cfg, node, s, fid, module):
                if isinstance(nxt, tuple):
                    results.append(PathEnd(nxt[0], s2, node, value=nxt[1], loop=L))
                elif first and L is not None and node is L and not self.in_loop(nxt, L):
                    continue        # leaving from the generalised head state: covered by the exits of the entry state and of the back-edge states
                else:
                    work.append((nxt, s2, False))
        return results

    @staticmethod
    def in_loop(node, L):
        return node is L or L in node.loops

    def header_outcomes(self, cfg, h, st):
        """([states that go on into the body], [(state, node) that leave the loop]) when the header h is executed in state st"""
        go, leave = [], []
        for (nxt, s2) in self.step_all(cfg, h, st, st.root, self.module):
            if isinstance(nxt, tuple):
                leave.append((s2, nxt))
            elif self.in_loop(nxt, h):
                go.append(s2)
            else:
                leave.append((s2, nxt))
        return go, leave

    def run_from(self, cfg, L, st, node, execute_start, records):
        out = []
        if not execute_start and L is not None and node is L:
            return [PathEnd("back", st, node, loop=L)]
        res = self.explore(cfg, L, st, node, execute_start)
        enters = {}
        for r in res:
            if r.kind == "enter":
                enters.setdefault(r.node.idx, (r.node, []))[1].append(r)
            else:
                out.append(r)
        for idx in sorted(enters):
            h, arrivals = enters[idx]
            # arrivals that differ in the value of a flag (a variable holding True / False / None) are not merged
            groups = {}
            for a in arrivals:
                sig = tuple(sorted((n, repr(v)) for n, v in a.st.rootvars().items() if isinstance(v, bool) or v is None))
                groups.setdefault(sig, []).append(a)
            for gi, sig in enumerate(sorted(groups)):
                pre = self.join([a.st for a in groups[sig]], f"j{h.idx}" + (f".{gi}" if gi else ""))
                exits = self.analyse_loop(cfg, h, pre, records)
                # exit states that agree on every value (and on what was reported) differ only in the branch outcomes remembered along
                # the way: they go on as one state that remembers what all of them know
                merged = {}
                for e in exits:
                    if e.kind in ("return", "raise"):
                        out.append(e)
                    else:
                        merged.setdefault((e.node.idx, self.state_sig(e.st)), []).append(e)
                for (_, _), es in merged.items():
                    st1 = es[0].st if len(es) == 1 else self.merge_same_values([e.st for e in es])
                    out += self.run_from(cfg, L, st1, es[0].node, False, records)
        return out

    @staticmethod
    def state_sig(st):
        return (tuple(sorted((n, key(v)) for n, v in st.rootvars().items())), tuple(sorted((g, key(v)) for g, v in st.ghost.items())),
                tuple(sorted((str(k), key(v)) for k, v in st.heap.items())), st.escaped, id(st.log), len(st.frames))

    def merge_same_values(self, states):
        s = states[0].copy()
        s.truths = {k: v for k, v in s.truths.items() if all(o.truths.get(k) == v for o in states[1:])}
        s.eqc = {k: v for k, v in s.eqc.items() if all(o.eqc.get(k) == v for o in states[1:])}
        rel = {}
        for k, (p, al) in s.rel.items():
            u = al
            for o in states[1:]:
                u = u | o.rel.get(k, (p, ALL))[1]
            if u != ALL:
                rel[k] = (p, u)
        s.rel = rel
        return s

    def join(self, states, tag):
        if len(states) == 1:
            s = states[0].copy()
            return s
        s = states[0].copy()
        root = s.root
        for fid, fr in s.frames.items():
            for name in list(fr.vars):
                ks = set()
                for o in states:
                    fo = o.frames.get(fid)
                    ks.add(key(fo.vars[name]) if fo is not None and name in fo.vars else "<unbound>")
                if len(ks) > 1:
                    vals = [o.frames[fid].vars.get(name) if fid in o.frames else None for o in states]
                    if all(isinstance(x, tuple) for x in vals) and len({len(x) for x in vals}) == 1:
                        # tuples of one length are joined component by component
                        fr.vars[name] = tuple(vals[0][i] if len({key(x[i]) for x in vals}) == 1 else self.fresh(f"{name}[{i}]@{tag}") for i in range(len(vals[0])))
                    else:
                        fr.vars[name] = self.fresh(f"{name}@{tag}")
        for o in states[1:]:
            for name in o.frames[root].vars:
                if name not in s.frames[root].vars:
                    s.frames[root].vars[name] = self.fresh(f"{name}@{tag}")
        diff_g = [g for g in s.ghost if len({key(o.ghost.get(g)) for o in states}) > 1]
        for g in diff_g:
            s.ghost[g] = self.fresh(f"{g}@{tag}")
        heap = {}
        diff_h = []
        for k, v in s.heap.items():
            if all(k in o.heap for o in states[1:]):
                if all(key(o.heap[k]) == key(v) for o in states[1:]):
                    heap[k] = v
                else:
                    heap[k] = self.fresh(f"{k[0]}.{k[1]}@{tag}")
                    diff_h.append(k)
        s.heap = heap
        # relations among the differing variables that hold in every joined state are kept: v == F(other differing variables)
        rv0 = states[0].rootvars()
        differing = {n for n in rv0 if all(n in o.rootvars() for o in states) and len({key(o.rootvars()[n]) for o in states}) > 1}
        if differing or diff_h:
            keep = {}
            for (ref, tmpl, deps) in self.candidates(states[0], differing, heap_cells=diff_h):
                if not deps or ref in keep or (ref[0] == "g" and ref[1] not in diff_g):
                    continue
                ok = True
                for o in states[1:]:
                    getter = lambda r, o=o: ref_get(o, r)
                    got = getter(ref)
                    if got is None or any(getter(r) is None for _, r in deps) or key(self.instantiate(tmpl, deps, getter)) != key(got):
                        ok = False
                        break
                if ok:
                    keep[ref] = (tmpl, deps)
            jv = s.frames[root].vars
            memo = {}

            def joined(ref, _stack=()):
                if ref in memo:
                    return memo[ref]
                if ref in keep and ref not in _stack:
                    tmpl, deps = keep[ref]
                    val = self.instantiate(tmpl, deps, lambda r: joined(r, _stack + (ref,)))
                else:
                    val = ref_get(s, ref)
                memo[ref] = val
                return val
            for ref in list(keep):
                v = joined(ref)
                if ref[0] == "v":
                    jv[ref[1]] = v
                elif ref[0] == "g":
                    s.ghost[ref[1]] = v
                elif ref[0] == "h":
                    s.heap[(ref[1], ref[2])] = v
        s.truths = {k: v for k, v in s.truths.items() if all(o.truths.get(k) == v for o in states[1:])}
        s.eqc = {k: v for k, v in s.eqc.items() if all(o.eqc.get(k) == v for o in states[1:])}
        rel = {}
        for k, (p, al) in s.rel.items():
            u = al
            for o in states[1:]:
                u = u | o.rel.get(k, (p, ALL))[1]
            if u != ALL:
                rel[k] = (p, u)
        s.rel = rel
        s.events = EMPTY
        s.writes = EMPTY
        s.decisions = EMPTY
        s.log = EMPTY
        s.origin = tag
        for o in states[1:]:
            s.escaped = s.escaped | o.escaped
        return s

    # ---- loops
    def loop_mod(self, h):
        """names (re)bound by some statement inside the loop (CFG based: statements of spliced helpers count)"""
        cfg = self._cfgs.get(id(self.scope.node))
        names = set()
        if h.kind == "for":
            names |= assigned_names([ast.Assign(targets=[h.ast.target], value=ast.Constant(value=0))])
        nodes = cfg.nodes if cfg is not None else []
        for n in nodes:
            if h not in n.loops or n.ast is None:
                continue
            if n.kind == "stmt":
                if n.succ and all(m is not h and h not in m.loops for (m, _) in n.succ):
                    continue        # executed on the way out of the loop only (e.g. the result assignment of a spliced `return`)
                names |= assigned_names([n.ast])
            elif n.kind == "for":
                names |= assigned_names([ast.Assign(targets=[n.ast.target], value=ast.Constant(value=0))])
            elif n.kind == "cond":
                for w in ast.walk(n.ast):
                    if isinstance(w, ast.NamedExpr):
                        names |= assigned_names([ast.Assign(targets=[w.target], value=ast.Constant(value=0))])
        if cfg is None:
            stmt = h.ast if h.kind == "for" else h.stmt
            names |= assigned_names(stmt.body + (stmt.orelse or []))
        return names

    def candidates(self, pre, mod, loop_stmt=None, shapes=None, heap_cells=None):
        """[(ref, template value, ((key, base ref), ...))]: relations `ref == F(values of other modified variables)` that hold in the
        state `pre` on loop entry.  ref = ('v', name) for a program variable, ('g', name) for a ghost.  The template is the entry value;
        the listed sub-terms (values of other modified variables, larger ones first) are the places where the current value of
        that variable is to be substituted."""
        rv = pre.rootvars()
        shapes = shapes or {}
        refs = []
        for n in sorted(mod):
            if n not in rv:
                continue
            if n in shapes:
                refs += [(("c", n, k), vars_get(rv, pre.ghost, ("c", n, k))) for k in shape_keys(shapes[n])]
            else:
                refs.append((("v", n), rv[n]))
        for hk in sorted(heap_cells or (), key=repr):
            if hk in pre.heap:
                refs.append((("h", hk[0], hk[1]), pre.heap[hk]))
        refs += [(("g", g), pre.ghost[g]) for g in sorted(pre.ghost)]

        def is_base(v):
            if isinstance(v, Opq):
                return v.kind != "str"
            return isinstance(v, Num) and self.const_of(v) is None
        ranked = sorted(((len(key(v)), i, ref, v) for i, (ref, v) in enumerate(refs) if is_base(v)), key=lambda t: (t[0], t[1]))
        bases = []
        cands = []
        # constants that every iteration plausibly keeps (flags that are only changed on the way out of the loop)
        for (ref, v) in refs:
            if ref[0] == "h":
                if is_base(v) or isinstance(v, (bool, str, Closure, FuncRef, Partial)) or v is None or isinstance(v, Num):
                    cands.append((ref, v, ()))      # the cell keeps its entry value while the loop goes on (verified below)
            elif ref[0] in ("v", "c") and (isinstance(v, (bool, str)) or v is None or (isinstance(v, Num) and self.const_of(v) is not None)) \
                    and loop_stmt is not None and _keeps_constant(loop_stmt, ref[1], v if not isinstance(v, Num) else self.const_of(v)):
                cands.append((ref, v, ()))
            elif ref[0] in ("v", "c") and isinstance(v, (Closure, FuncRef, Partial)):
                # a variable holding a function: plausibly the same function in every iteration (verified below)
                cands.append((ref, v, ()))
            elif ref[0] in ("v", "c") and is_base(v) and loop_stmt is not None and _keeps_constant(loop_stmt, ref[1], None, unchanged=True):
                # the variable keeps its entry value in every state that goes on iterating
                cands.append((ref, v, ()))
        for (_, _, ref, v) in ranked:
            k = key(v)
            deps = []
            w = v
            for (bk, bref) in reversed(bases):
                if self.occurs(bk, w):
                    deps.append((bk, bref))
                    w = self.subst(w, {bk: self.sym("\u2022" + ref_name(bref))})
            if deps:
                cands.append((ref, v, tuple(deps)))
            if ref[0] in ("v", "c", "h") and all(bk != k for bk, _ in bases):
                bases.append((k, ref))
        return cands

    def occurs(self, k, v, _memo=None):
        """does a sub-term with key k occur in v (properly or as v itself)"""
        if _memo is None:
            _memo = {}
        if isinstance(v, (str, bool, type(None), Closure, FuncRef, Ext, NTType, BoundMethod, Partial, ClassRef)):
            return False
        kv = key(v)
        if kv == k:
            return True
        if kv in _memo:
            return _memo[kv]
        _memo[kv] = False
        r = False
        if isinstance(v, tuple):
            r = any(self.occurs(k, x, _memo) for x in v)
        elif isinstance(v, Num):
            r = any(a == k or self.occurs(k, self.atoms[a], _memo) for a in v.p.atoms() if a in self.atoms)
        elif isinstance(v, Opq):
            if v.kind == "attr":
                r = self.occurs(k, v.parts[0], _memo)
            elif v.kind == "item":
                r = self.occurs(k, v.parts[0], _memo) or self.occurs(k, v.parts[1], _memo)
            elif v.kind == "call":
                f, args, kwargs, _ = v.parts
                r = self.occurs(k, f, _memo) or any(self.occurs(k, a, _memo) for a in args) or any(self.occurs(k, x, _memo) for _, x in kwargs)
            elif v.kind == "quot":
                r = self.occurs(k, v.parts[0], _memo) or self.occurs(k, v.parts[1], _memo)
            elif v.kind == "op" and v.parts and v.parts[0] in ("@", "**", "//", "%"):
                r = self.occurs(k, v.parts[1], _memo) or self.occurs(k, v.parts[2], _memo)
        elif isinstance(v, Rec):
            r = any(self.occurs(k, x, _memo) for x in v.vals.values())
        elif isinstance(v, Cmp):
            r = self.occurs(k, v.a, _memo) or self.occurs(k, v.b, _memo)
        _memo[kv] = r
        return r

    def possibly_equal(self, a, b, bind=None, depth=0):
        """could the two values coincide for suitable values of the unknowns introduced at loop heads / joins?  (False means the values
        differ in their known structure: a definite difference, not a gap in the inferred loop relations)"""
        if bind is None:
            bind = {}
        if isinstance(a, Num):
            a = self.simplify(a)
        if isinstance(b, Num):
            b = self.simplify(b)
        if a is None or b is None or isinstance(a, (str, bool)) or isinstance(b, (str, bool)):
            if isinstance(a, Opq) and a.kind == "fresh" or isinstance(b, Opq) and b.kind == "fresh":
                return True
            return key(a) == key(b)
        ka, kb = key(a), key(b)
        if ka == kb:
            return True
        if depth > 8:
            return True
        for x, y in ((a, b), (b, a)):
            r_ = x
            while isinstance(r_, Opq) and r_.kind in ("item", "attr"):
                r_ = r_.parts[0]
            if r_ is not x and isinstance(r_, Opq) and r_.kind == "fresh":
                return True         # a component of an unknown record / tuple
            if isinstance(x, Opq) and x.kind == "fresh":
                if x.key in bind:
                    return key(bind[x.key]) == key(y) or self.possibly_equal(bind[x.key], y, bind, depth + 1)
                if self.occurs(x.key, y):
                    return False        # an unknown cannot equal a term that properly contains it
                bind[x.key] = y
                return True
        if isinstance(a, tuple) and isinstance(b, tuple):
            return len(a) == len(b) and all(self.possibly_equal(x, y, bind, depth + 1) for x, y in zip(a, b))
        for x, y in ((a, b), (b, a)):
            r_ = x
            while isinstance(r_, Opq) and r_.kind in ("item", "attr"):
                r_ = r_.parts[0]
            if isinstance(r_, Opq) and r_.kind == "call" and not (isinstance(y, Opq) and y.kind == "call" and r_ is x):
                f_ = r_.parts[0]
                known = isinstance(f_, Opq) and f_.kind == "attr" and isinstance(f_.parts[0], Opq) and f_.parts[0].kind == "sym"
                if not known:
                    return True     # e.g. dict(...)/an un-inlined helper: its result (or a component of it) could be the other value
        if isinstance(a, Num) or isinstance(b, Num):
            d = self.num(a).p - self.num(b).p
            if d.is_zero():
                return True
            # solvable for an unknown that occurs alone and linearly
            for m, c in d.t.items():
                if len(m) == 1 and m[0][1] == 1:
                    o = self.atoms.get(m[0][0])
                    if isinstance(o, Opq) and o.kind == "fresh" and d.degree_in(m[0][0]) == 1 and \
                            sum(1 for mm in d.t if any(x == m[0][0] for x, _ in mm)) == 1 and \
                            not any(self.occurs(o.key, self.atoms[x]) for mm in d.t for x, _ in mm if x != o.key and x in self.atoms):
                        return True
            if len(d.t) == 2:
                (m1, c1), (m2, c2) = d.t.items()
                if c1 + c2 == 0 and len(m1) == 1 and len(m2) == 1 and m1[0][1] == 1 and m2[0][1] == 1 and m1[0][0] in self.atoms and m2[0][0] in self.atoms:
                    return self.possibly_equal(self.atoms[m1[0][0]], self.atoms[m2[0][0]], bind, depth + 1)
            return False
        if isinstance(a, Opq) and isinstance(b, Opq):
            if a.kind != b.kind:
                return False
            P = lambda x, y: self.possibly_equal(x, y, bind, depth + 1)
            if a.kind == "attr":
                return a.parts[1] == b.parts[1] and P(a.parts[0], b.parts[0])
            if a.kind == "item":
                return P(a.parts[0], b.parts[0]) and P(a.parts[1], b.parts[1])
            if a.kind == "call":
                fa, aa, ka_, _ = a.parts
                fb, ab, kb_, _ = b.parts
                return len(aa) == len(ab) and [n for n, _ in ka_] == [n for n, _ in kb_] and P(fa, fb) and \
                    all(P(x, y) for x, y in zip(aa, ab)) and all(P(x[1], y[1]) for x, y in zip(ka_, kb_))
            if a.kind == "quot":
                return P(a.parts[0], b.parts[0]) and P(a.parts[1], b.parts[1])
            if a.kind == "op" and a.parts and b.parts and a.parts[0] == b.parts[0] and a.parts[0] in ("@", "**", "//", "%"):
                return P(a.parts[1], b.parts[1]) and P(a.parts[2], b.parts[2])
            return False
        return False

    def fresh_in(self, v, _memo=None, _out=None):
        """keys of the loop-head unknowns that occur in the value"""
        if _memo is None:
            _memo, _out = set(), set()
        if isinstance(v, (str, bool, type(None), Closure, FuncRef, Ext, NTType, BoundMethod, Partial, ClassRef)):
            return _out
        kv = key(v)
        if kv in _memo:
            return _out
        _memo.add(kv)
        subs = []
        if isinstance(v, tuple):
            subs = list(v)
        elif isinstance(v, Num):
            subs = [self.atoms[a] for a in v.p.atoms() if a in self.atoms]
        elif isinstance(v, Cmp):
            subs = [v.a, v.b]
        elif isinstance(v, Opq):
            if v.kind == "fresh":
                _out.add(v.key)
            elif v.kind == "call":
                f, args, kwargs, _ = v.parts
                subs = [f] + list(args) + [x for _, x in kwargs]
            elif v.kind == "attr":
                subs = [v.parts[0]]
            elif v.kind in ("item", "quot"):
                subs = [v.parts[0], v.parts[1]]
            elif v.kind == "op" and v.parts and v.parts[0] in ("@", "**", "//", "%"):
                subs = [v.parts[1], v.parts[2]]
        for x in subs:
            self.fresh_in(x, _memo, _out)
        return _out

    def definitely_differ(self, a, b, limit=400):
        """(True, witness) if the two values differ in known structure, either as they stand or after one more iteration of a loop whose
        head unknowns they mention: the unknowns are replaced by the values a state that goes on iterating (witness) gives them.
        (False, None): they may coincide as far as this analysis knows."""
        if a is None or b is None:
            return True, None
        if not self.possibly_equal(a, b):
            return True, None
        loops = []
        used = self.fresh_in(a) | self.fresh_in(b)
        for fk in sorted(used):
            org = self.fresh_origin.get(fk)
            if org is not None and org[1] not in loops and org[1] in self.loops:
                loops.append(org[1])
        for hidx in loops:
            info = self.loops[hidx]
            seen = set()
            for o in info.conts:
                mp = {}
                for ref, fo in info.fresh.items():
                    if fo.key not in used:
                        continue
                    val = ref_get(o.st, ref)
                    if val is not None and key(val) != fo.key:
                        mp[fo.key] = val
                if not mp:
                    continue
                sig = tuple(sorted((k_, key(v_)) for k_, v_ in mp.items()))
                if sig in seen:
                    continue
                seen.add(sig)
                if len(seen) > limit:
                    break
                a2, b2 = self.subst(a, mp), self.subst(b, mp)
                if not self.possibly_equal(a2, b2):
                    return True, o
                # ... the iteration before that one being the first: the remaining unknowns of this loop take their values on loop entry
                mp0 = {}
                for ref, fo in info.fresh.items():
                    val = ref_get(info.pre, ref)
                    if val is not None and key(val) != fo.key:
                        mp0[fo.key] = val
                if mp0:
                    a3, b3 = self.subst(a2, mp0), self.subst(b2, mp0)
                    if not self.possibly_equal(a3, b3):
                        return True, o
        return False, None

    def refuted_relations(self, atom_key):
        """For an unknown `v@L` introduced at the head of loop L: the relations of v that hold on loop entry but are definitely violated by
        a state that goes on iterating: [(template, deps, witness path end, value the relation demands, actual value)]"""
        org = self.fresh_origin.get(atom_key)
        if org is None:
            return []
        ref, hidx = org
        info = self.loops.get(hidx)
        if info is None:
            return []
        out = []
        for d in info.dropped:
            if d[0] == ref and d[5] is not None and not self.possibly_equal(d[4], d[5]):
                out.append(d[1:])
        return out

    def unanalysed_calls(self, v, skip=(), _memo=None, _out=None):
        """calls of repository functions that were not inlined and occur in the value"""
        if _memo is None:
            _memo, _out = set(), []
        if isinstance(v, (str, bool, type(None), Closure, FuncRef, Ext, NTType, BoundMethod, Partial, ClassRef)):
            return _out
        kv = key(v)
        if kv in _memo:
            return _out
        _memo.add(kv)
        subs = []
        if isinstance(v, tuple):
            subs = list(v)
        elif isinstance(v, Num):
            subs = [self.atoms[a] for a in v.p.atoms() if a in self.atoms]
        elif isinstance(v, Cmp):
            subs = [v.a, v.b]
        elif isinstance(v, Rec):
            subs = list(v.vals.values())
        elif isinstance(v, Opq):
            if v.kind == "call":
                f, args, kwargs, _ = v.parts
                if isinstance(f, FuncRef) and f.scope.qualname not in skip:
                    _out.append(v)
                subs = [f] + list(args) + [x for _, x in kwargs]
            elif v.kind in ("attr",):
                subs = [v.parts[0]]
            elif v.kind in ("item", "quot"):
                subs = [v.parts[0], v.parts[1]]
            elif v.kind == "op" and v.parts and v.parts[0] in ("@", "**", "//", "%"):
                subs = [v.parts[1], v.parts[2]]
        for x in subs:
            self.unanalysed_calls(x, skip, _memo, _out)
        return _out

    def instantiate(self, tmpl, deps, getter):
        mp = {}
        for (bk, bref) in deps:
            mp[bk] = getter(bref)
        return self.subst(tmpl, mp)

    def analyse_loop(self, cfg, h, pre, records):
        """exits of the loop with header h entered in state `pre`.  The loop is analysed from a generalised head state; when that reads a
        local that is only assigned inside the loop (a block guarded by a first-time flag, ...), the first iteration is executed from
        `pre` itself and the generalisation starts from the states that go on after it."""
        mark = set(self.unbound_reads)
        recs = []
        exits = self._analyse_loop(cfg, h, pre, recs)
        new_unbound = (self.unbound_reads - mark) & self.loop_mod(h)
        if not new_unbound:
            records.extend(recs)
            return exits
        self.unbound_reads = set(mark)
        recs = []
        go0, leave0 = self.header_outcomes(cfg, h, pre)
        out = [PathEnd(nxt[0], s2, h, value=nxt[1], loop=h) if isinstance(nxt, tuple) else PathEnd("exit", s2, nxt, loop=h) for (s2, nxt) in leave0]
        if not go0:
            records.extend(out)
            return out
        first = pre.copy()
        first.origin = f"first{h.idx}"
        outs1 = self.run_from(cfg, h, first, h, True, recs)
        conts = []
        for o in outs1:
            if o.kind != "back":
                out.append(o)
                continue
            go, leave = self.header_outcomes(cfg, h, o.st)
            for (s2, nxt) in leave:
                out.append(PathEnd(nxt[0], s2, h, value=nxt[1], loop=h) if isinstance(nxt, tuple) else PathEnd("exit", s2, nxt, loop=h))
            if go:
                conts.append(o)
        recs.extend(outs1)
        if conts:
            pre2 = self.join([o.st for o in conts], f"p{h.idx}")
            pre2.escaped = frozenset().union(*[o.st.escaped for o in conts])
            out += self._analyse_loop(cfg, h, pre2, recs, skip_entry_exits=True)
        records.extend(recs)
        records.extend([o for o in out if o.kind in ("exit", "return", "raise")])
        self.peeled.add(h.idx)
        if h.idx in self.loops:
            self.loops[h.idx].entry = pre
        return [o for o in out if o.kind in ("exit", "return", "raise")]

    def _analyse_loop(self, cfg, h, pre, records, skip_entry_exits=False):
        info = self.loops.get(h.idx)
        mod = self.loop_mod(h) | set()
        go0, leave0 = self.header_outcomes(cfg, h, pre)
        if not go0:
            # the loop is not entered from this state
            exits = [PathEnd(nxt[0], s2, h, value=nxt[1], loop=h) if isinstance(nxt, tuple) else PathEnd("exit", s2, nxt, loop=h) for (s2, nxt) in leave0]
            records.extend(exits)
            if h.idx not in self.loops:
                info = LoopInfo(h)
                info.pre, info.head, info.mod = pre, pre, mod
                self.loops[h.idx] = info
            return exits
        loop_stmt = h.ast if h.kind == "for" else h.stmt
        noshape = set()
        shapes = {n: shape_of(v) for n, v in pre.rootvars().items() if n in mod and shape_of(v) is not None}
        stored_attrs = set()
        for n_ in (self._cfgs.get(id(self.scope.node)).nodes if id(self.scope.node) in self._cfgs else []):
            if h in n_.loops and n_.ast is not None:
                for w_ in ast.walk(n_.ast):
                    if isinstance(w_, ast.Attribute) and isinstance(w_.ctx, ast.Store):
                        stored_attrs.add(w_.attr)
        if stored_attrs or pre.heap:
            # helpers inlined on the way (methods of objects created before the loop) may store too: every cell of an object whose class
            # lives in this module counts as possibly written
            for (ok_, at_) in pre.heap:
                o_ = self.atoms.get(ok_)
                if isinstance(o_, Opq) and o_.kind == "obj":
                    stored_attrs.add(at_)
        heap_cells = [hk for hk in pre.heap if hk[1] in stored_attrs]
        cands = self.candidates(pre, mod, loop_stmt, shapes, heap_cells)
        dropped = []
        rounds = 0
        esc_extra = frozenset()
        while True:
            rounds += 1
            if rounds > 14:
                raise Budget("loop relations do not stabilise")
            head = pre.copy()
            hv = head.rootvars()
            tag = f"L{h.idx}"
            fresh_of = {}
            for name in sorted(mod):
                if name in shapes:
                    for k in shape_keys(shapes[name]):
                        ref = ("c", name, k)
                        fresh_of[ref] = self.opq("fresh", f"{ref_name(ref)}@{tag}")
                        self.fresh_origin[f"{ref_name(ref)}@{tag}"] = (ref, h.idx)
                else:
                    fresh_of[("v", name)] = self.opq("fresh", f"{name}@{tag}")
                    self.fresh_origin[f"{name}@{tag}"] = (("v", name), h.idx)
            for g in sorted(head.ghost):
                fresh_of[("g", g)] = self.opq("fresh", f"{g}@{tag}")
                self.fresh_origin[f"{g}@{tag}"] = (("g", g), h.idx)
            for hk in heap_cells:
                ref = ("h", hk[0], hk[1])
                fresh_of[ref] = self.opq("fresh", f"{ref_name(ref)}@{tag}")
                self.fresh_origin[f"{ref_name(ref)}@{tag}"] = (ref, h.idx)
            cmap = {}
            for (ref, tmpl, deps) in cands:
                cmap.setdefault(ref, (tmpl, deps))      # the first (most precise) surviving relation defines the head value
            memo = {}

            def head_value(ref, _stack=()):
                if ref in memo:
                    return memo[ref]
                if ref in cmap and ref not in _stack:
                    tmpl, deps = cmap[ref]
                    val = self.instantiate(tmpl, deps, lambda r: head_value(r, _stack + (ref,)))
                elif ref in fresh_of:
                    val = fresh_of[ref]
                else:
                    val = ref_get(pre, ref)
                memo[ref] = val
                return val
            for ref in list(fresh_of):
                v = head_value(ref)
                if ref[0] == "v":
                    if ref[1] in hv or ref in cmap:
                        hv[ref[1]] = v
                    else:
                        hv.pop(ref[1], None)
                elif ref[0] == "g":
                    head.ghost[ref[1]] = v
            for name, sh in shapes.items():
                if sh[0] == "t":
                    hv[name] = tuple(head_value(("c", name, k)) for k in range(sh[1]))
                elif sh[0] == "r":
                    hv[name] = Rec(sh[1], sh[2], {k: head_value(("c", name, k)) for k in sh[2]})
                else:
                    hv[name] = DictV({k: head_value(("c", name, k)) for k in sh[1]})
            # attribute cells stored inside the loop: unknown at the head up to the surviving relations
            for hk in heap_cells:
                head.heap[hk] = head_value(("h", hk[0], hk[1]))
            head.events, head.writes, head.decisions, head.log = EMPTY, EMPTY, EMPTY, EMPTY
            head.origin = h.idx
            head.escaped = head.escaped | esc_extra
            recs = []
            outs = self.run_from(cfg, h, head, h, True, recs)
            bad = {}
            exits = []
            conts = []
            more_esc = frozenset()
            for o in outs:
                if o.kind != "back":
                    continue
                go, leave = self.header_outcomes(cfg, h, o.st)
                for (s2, nxt) in leave:
                    exits.append(PathEnd(nxt[0], s2, h, value=nxt[1], loop=h) if isinstance(nxt, tuple) else PathEnd("exit", s2, nxt, loop=h))
                if not go:
                    continue
                conts.append(o)
                more_esc = more_esc | (o.st.escaped - head.escaped)
                ev = o.st.rootvars()
                for name, sh in shapes.items():
                    if shape_of(ev.get(name)) != sh:
                        noshape.add(name)
                getter = lambda r, o=o: ref_get(o.st, r)
                for (ref, tmpl, deps) in cands:
                    cid = (ref, key(tmpl), deps)
                    if cid in bad:
                        continue
                    want = self.instantiate(tmpl, deps, getter)
                    got = getter(ref)
                    if got is None or key(want) != key(got):
                        bad[cid] = (o, want, got)
            if noshape & set(shapes):
                # a tuple / record valued variable does not keep its shape: it is one unknown
                shapes = {n: sh for n, sh in shapes.items() if n not in noshape}
                cands = self.candidates(pre, mod, loop_stmt, shapes, heap_cells)
                dropped = []
                continue
            if not bad and not more_esc:
                break
            esc_extra = esc_extra | more_esc
            for (ref, tmpl, deps) in cands:
                cid = (ref, key(tmpl), deps)
                if cid in bad:
                    dropped.append((ref, tmpl, deps) + bad[cid])
            cands = [c for c in cands if (c[0], key(c[1]), c[2]) not in bad]
        # the loop is left from the entry state (no iteration) or from a back-edge state
        for (s2, nxt) in ([] if skip_entry_exits else leave0):
            exits.append(PathEnd(nxt[0], s2, h, value=nxt[1], loop=h) if isinstance(nxt, tuple) else PathEnd("exit", s2, nxt, loop=h))
        info = LoopInfo(h)
        info.pre, info.head, info.kept, info.dropped, info.mod = pre, head, cands, dropped, mod
        info.fresh = dict(fresh_of)
        info.conts = conts
        self.loops[h.idx] = info
        records.extend(recs)
        records.extend(outs)
        records.extend(exits)
        return [o for o in outs if o.kind in ("exit", "return", "raise")] + exits

    # ---- entry point
    def analyse(self, ghost=None, param_values=None):
        """symbolic paths of the whole function; returns list of PathEnd (returns, back edges, loop exits of the final rounds)"""
        fn = self.scope.node
        cfg = self.cfg_for(fn, self.scope)
        if self.inline:
            nested_defs = {}
            for c_ in self.scope.children:
                if c_.kind == "function":
                    nested_defs.setdefault(c_.name, []).append(c_)
            own_names = assigned_names(fn.body)

            def can_splice(name, call=None):
                if name in nested_defs:
                    # a nested def of the analysed function that contains a loop and is called as a statement
                    c_ = nested_defs[name]
                    n_bind = sum(1 for x in ast.walk(fn) if isinstance(x, ast.Name) and x.id == name and isinstance(x.ctx, ast.Store)) + \
                        sum(1 for x in ast.walk(fn) if isinstance(x, (ast.FunctionDef, ast.AsyncFunctionDef)) and x.name == name)
                    if len(c_) == 1 and n_bind == 1 and not _loop_free(c_[0].node) and c_[0].node in fn.body:
                        return c_[0]
                    return None
                v = self.module_global(name)
                if not isinstance(v, FuncRef) or v.scope.module is not self.module or v.scope is self.scope or v.scope.cls is not None:
                    return None
                if v.scope.qualname in self.opaque_names or _loop_free(v.scope.node):
                    return None
                gets_watched = call is not None and any(isinstance(x, ast.Name) and x.id in self.watch for x in list(call.args) + [k.value for k in call.keywords])
                if not (v.scope.name.startswith("_") or self.splice_public or gets_watched):
                    return None
                if name in assigned_names(fn.body) or name in [x.arg for x in fn.args.args + fn.args.kwonlyargs]:
                    return None
                return v.scope
            probe = [n for n in ast.walk(fn) if isinstance(n, ast.Call) and isinstance(n.func, ast.Name) and can_splice(n.func.id, n) is not None]
            if probe:
                cfg = CFG(fn)       # private copy: the cached CFG of the scope is shared with other rules
                for sc_ in splice_helper_loops(cfg, self.scope, self.repo, can_splice):
                    self.visited[sc_.qualname] = sc_
                    self.spliced.append(sc_)
                self._cfgs[id(fn)] = cfg
        self._fn_locals = assigned_names(fn.body) if not isinstance(fn, ast.Lambda) else set()
        for n_ in cfg.nodes:
            if getattr(n_, "_spliced", False) and n_.ast is not None:
                self._fn_locals |= assigned_names([n_.ast])
        st = State()
        st.frames[0] = Frame({}, None, fn)
        st.root = 0
        st.next_fid = 1
        a = fn.args
        names = [x.arg for x in a.posonlyargs + a.args + a.kwonlyargs]
        for n in names:
            st.frames[0].vars[n] = (param_values or {}).get(n, self.sym(n))
        npos = len(a.posonlyargs + a.args)
        self._required_params = {x.arg for x in (a.posonlyargs + a.args)[:npos - len(a.defaults)]} - set(param_values or {})
        if a.vararg:
            st.frames[0].vars[a.vararg.arg] = self.sym("*" + a.vararg.arg)
        if a.kwarg:
            st.frames[0].vars[a.kwarg.arg] = self.sym("**" + a.kwarg.arg)
        for g, v in (ghost or {}).items():
            st.ghost[g] = v(st) if callable(v) else v
        records = []
        outs = self.run_from(cfg, None, st, cfg.entry, True, records)
        records.extend(outs)
        self.cfg = cfg
        return records


def _load(t):
    import copy
    t2 = copy.deepcopy(t)
    for n in ast.walk(t2):
        if hasattr(n, "ctx"):
            n.ctx = ast.Load()
    return t2
