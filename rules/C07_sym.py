"""Symbolic term interpreter used by the C07 rules (static: the library source is *interpreted by the analyser on symbols*,
never imported or executed).

Purpose: decide facts about the reverse rules, the derivative operators of Objective, the inverse-helper factories and the
adjoint function-space constructor *by value*, so that the verdict does not depend on how the code is spelled:
local names, temporaries, helper extraction, lambda-vs-def, decorator-vs-call, keyword-vs-positional, tuple unpacking vs
indexing, statement order of independent statements, swapped branches with negated tests, guard clauses, loops over constant
ranges are all executed away.

Domain
  * Python constants, tuples, lists, dicts are concrete;
  * `T` is an immutable opaque term (symbol, application of an un-interpreted function, attribute / item of an opaque value,
    arithmetic on opaque values, derivative terms `vjp` / `jvp`), hash-consed through a canonical nested tuple `T.c`;
  * `Closure`, `Bound`, `Partial`, `Pullback` are callables created by the interpreted code; a closure that escapes into a term
    is canonicalised *extensionally* (applied to fresh symbols), so alpha-equivalent / eta-equivalent callables coincide; a bound
    method of an interpreted instance (`helper.method` of a private helper class, instantiated by running its `__init__`) that escapes
    is canonicalised the same way, under the heap of that moment, so it is the lambda / nested def that makes the same call;
  * `x.shape`-expressions are tuples and broadcasts / mapped results are arrays, hence never `None`: `kw is None` is decided for them;
  * `Obj` is an instance of a repository class with a mutable attribute store (the heap), `Rec` an immutable record
    (namedtuple or field-annotated class instance).
Arrays
  * `jax.vmap(f, in_axes)(*args)` is beta-normalised (`call_vmapped`): unmapped arguments are substituted into the body, mapped ones become
    element symbols in a canonical order; a body equal to a mapped argument is that argument, a body that ignores them a broadcast;
    `broadcast_to(x, (n,) + x.shape)`, `repeat(x[None], n, axis=0)` are the same `bcast` term; len(x) is x.shape[0]; `a, b = x.shape`
    records the number of axes of x; component i of a pull-back with several primals is the single-primal pull-back (`mk_deriv`).
Control
  * a branch on an undecidable condition forks: the function is re-run once per decision vector (`paths`); decisions are
    memoised per path on the *normalised atom* (`x != None`, `x is not None`, `not x is None`, `x == None` share one atom);
  * a `dict` literal indexed by a symbolic key, `x in (literals)` and `match` on literals fork like the if-chain they abbreviate;
    `with` blocks run their body; `try` blocks are followed as long as nothing raises;
  * calls of repository functions are inlined when the policy says so; everything else is an opaque application with the
    arguments bound to the callee's parameter list (keyword / positional / defaults normalised); opaque calls are logged
    as *events* with the callables among the arguments frozen under the heap of that moment;
  * an inlined call that cannot be interpreted falls back to an opaque application (heap and decisions rolled back).
"""
from __future__ import annotations

import ast
import builtins as _bi

from optilint.model import Scope, canonical_ext, norm_src, walk_local


class EvalError(Exception):
    """The interpreter cannot interpret this construct (verdict: undecided, never a violation)."""


class Crash(Exception):
    """The interpreted program would raise at run time for a reason that is visible statically
    (unpack width, call arity, missing record field)."""


class Raised(Exception):
    """The interpreted program executes an explicit `raise`."""


class _Return(Exception):
    def __init__(self, value):
        self.value = value


class _Break(Exception):
    pass


class _Continue(Exception):
    pass


# ------------------------------------------------------------------------------------------------ values

class T:
    """Opaque immutable term.  `op` names the constructor, `args` are the (possibly non-term) operand values, `c` the canonical key."""
    __slots__ = ("op", "args", "c", "extra")

    def __init__(self, op, args, c, extra=None):
        self.op, self.args, self.c, self.extra = op, args, c, extra

    def __eq__(self, o):
        return isinstance(o, T) and self.c == o.c

    def __hash__(self):
        return hash(self.c)

    def __repr__(self):
        return show(self.c)


class Closure:
    def __init__(self, scope: Scope, env, name=None):
        self.scope, self.env, self.name = scope, env, name or scope.name

    def __repr__(self):
        return f"<closure {self.scope.qualname}>"


class Bound:
    """Method of an `Obj` (or of a duck-typed symbol) bound to its receiver."""
    def __init__(self, recv, func: Closure):
        self.recv, self.func = recv, func


class Partial:
    def __init__(self, f, args, kwargs):
        self.f, self.args, self.kwargs = f, list(args), dict(kwargs)


class Pullback:
    """Second component of jax.vjp(f, *primals)."""
    def __init__(self, f, primals, out):
        self.f, self.primals, self.out = f, tuple(primals), out


class Obj:
    def __init__(self, cls: Scope, label: str):
        self.cls, self.label, self.attrs = cls, label, {}

    def __repr__(self):
        return f"<obj {self.label}:{self.cls.name}>"


class Rec:
    def __init__(self, tname, fields, values, ndefaults=0):
        self.tname, self.fields, self.values, self.ndefaults = tname, tuple(fields), tuple(values), ndefaults

    def get(self, name):
        return self.values[self.fields.index(name)]

    def replace(self, **kw):
        vals = list(self.values)
        for k, v in kw.items():
            vals[self.fields.index(k)] = v
        return Rec(self.tname, self.fields, vals, self.ndefaults)

    def __repr__(self):
        return f"{self.tname}({', '.join(self.fields)})"


class NTClass:
    def __init__(self, name, fields, defaults=()):
        self.name, self.fields, self.defaults = name, tuple(fields), tuple(defaults)


class ClassV:
    def __init__(self, scope: Scope):
        self.scope = scope


class ModuleV:
    def __init__(self, module):
        self.module = module


class Env:
    def __init__(self, scope, parent=None):
        self.scope, self.parent, self.vars = scope, parent, {}

    def find(self, name):
        e = self
        while e is not None:
            if name in e.vars:
                return e
            e = e.parent
        return None


def show(c, depth=0) -> str:
    """Readable rendering of a canonical key (for messages only)."""
    if not isinstance(c, tuple) or not c:
        return repr(c)
    k = c[0]
    if depth > 7:
        return "..."
    s = lambda x: show(x, depth + 1)
    raw = lambda x: x[1] if isinstance(x, tuple) and len(x) == 2 and x[0] == "c" else s(x)
    if k == "c":
        return repr(c[1])
    if k == "sym":
        return str(c[1])
    if k in ("ext", "func", "cls"):
        return str(c[1]).split(":")[-1]
    if k == "attr":
        return f"{s(c[1])}.{raw(c[2])}"
    if k == "item":
        return f"{s(c[1])}[{s(c[2])}]"
    if k == "tuple":
        return "(" + ", ".join(s(x) for x in c[1:]) + ")"
    if k == "rec":
        return f"{c[1]}(" + ", ".join(s(x) for x in c[2:]) + ")"
    if k == "app":
        a = [s(x) for x in c[2][1:]] + [f"{raw(kv[1])}={s(kv[2])}" for kv in c[3][1:]]
        return f"{s(c[1])}(" + ", ".join(a) + ")"          # c[4], when present, is the state of the objects passed (not shown)
    if k in ("bin", "cmp"):
        return f"({s(c[2])} {raw(c[1])} {s(c[3])})"
    if k == "un":
        return f"({raw(c[1])} {s(c[2])})"
    if k == "lam":
        return f"(lambda/{c[1]}: {s(c[3])})"
    if k == "vjp":
        return f"vjp({s(c[1])}, *{s(c[2])})[1]({s(c[3])})[{raw(c[4])}]"
    if k == "jvp":
        return f"jvp({s(c[1])}, {s(c[2])}, {s(c[3])})[1]"
    if k == "bound":
        return f"{s(c[1])}.{str(c[2]).split('.')[-1]}"
    if k == "bcast" and len(c) == 3:
        return f"broadcast({s(c[1])}, shape=(" + ", ".join((s(q[1]) if q[0] == "dim" else f"*{s(q[1])}.shape") for q in c[2][1:]) + "))"
    if k == "vmap" and len(c) == 4:
        over = ", ".join(f"{s(e)} in {s(m[1])}" + ("" if m[2] == ("c", 0) else f" axis {raw(m[2])}") for e, m in zip(c[2][1:], c[3][1:]))
        return f"map({s(c[1])} for {over})"
    return str(k) + "(" + ", ".join(s(x) for x in c[1:]) + ")"


def occurs(c, sub) -> bool:
    """canonical key `sub` occurs (free) inside canonical key `c`: a callable ('lam', n, defaults, body, params) that binds `sub` as one
    of its own parameters hides it -- fresh parameter symbols are numbered by nesting depth at creation, so a term built earlier and
    embedded later may reuse the number of an outer binder"""
    if c == sub:
        return True
    if isinstance(c, tuple):
        if len(c) == 5 and c[0] == "lam" and isinstance(c[4], tuple) and sub in c[4]:
            return occurs(c[2], sub)
        return any(occurs(x, sub) for x in c)
    return False


def subst(c, old, new):
    if c == old:
        return new
    if isinstance(c, tuple):
        if len(c) == 5 and c[0] == "lam" and isinstance(c[4], tuple) and old in c[4]:
            return c
        return tuple(subst(x, old, new) for x in c)
    return c


def subst_many(c, mapping):
    """simultaneous substitution of canonical keys (binders of `lam` hide their own parameters)"""
    if c in mapping:
        return mapping[c]
    if isinstance(c, tuple):
        if len(c) == 5 and c[0] == "lam" and isinstance(c[4], tuple) and any(z in mapping for z in c[4]):
            inner = {k: v for k, v in mapping.items() if k not in c[4]}
            return c if not inner else (c[0], c[1], subst_many(c[2], inner), subst_many(c[3], inner), c[4])
        return tuple(subst_many(x, mapping) for x in c)
    return c


def syms_in(c, out=None) -> set:
    out = set() if out is None else out
    if isinstance(c, tuple):
        if len(c) == 2 and c[0] == "sym":
            out.add(c[1])
        else:
            for x in c:
                syms_in(x, out)
    return out


# external callables whose keyword arguments are normalised to positional form: name -> [(param, default or _REQ)]
_REQ = object()
EXT_SIGS = {
    "jax.vmap": [("fun", _REQ), ("in_axes", 0), ("out_axes", 0)],
    "jax.grad": [("fun", _REQ), ("argnums", 0)],
    "jax.jacfwd": [("fun", _REQ), ("argnums", 0)],
    "jax.jacrev": [("fun", _REQ), ("argnums", 0)],
    "jax.hessian": [("fun", _REQ), ("argnums", 0)],
    "jax.value_and_grad": [("fun", _REQ), ("argnums", 0)],
}
TRANSPARENT = {"jax.jit", "jax.custom_jvp", "jax.custom_vjp", "jax.checkpoint", "equinox.filter_jit", "jax.named_call"}
INF_NAMES = {"jax.numpy.inf", "numpy.inf", "jax.numpy.Inf", "numpy.Inf", "math.inf", "jax.numpy.Infinity", "numpy.Infinity", "numpy.PINF", "jax.numpy.PINF"}


class Interp:
    def __init__(self, repo, inline, plan=(), touch=None, max_steps=200000):
        self.repo = repo
        self.inline = inline              # Scope -> bool : interpret the body of this repository function
        self.plan = list(plan)            # decisions for the undecidable conditions, in order of first occurrence
        self.trace = []                   # [(atom key, decision)]
        self.known = {}                   # atom key -> decision
        self.events = []                  # opaque applications, in execution order
        self.modenv = {}
        self.in_canon = 0
        self.depth_bound = 0              # nesting of extensional canonicalisations of bound methods
        self.lamdepth = 0
        self.depth = 0
        self.objs = []
        self.duck = {}                    # symbol name -> class Scope the symbol may be an instance of
        self.duck_obj = {}                # symbol name -> Obj (once an attribute of the class has been used on it)
        self.opaque_attrs = {}            # (canonical base, attr) -> value stored on an opaque value
        self.touch = touch or (lambda s: None)
        self.steps = 0
        self.max_steps = max_steps
        self.fresh_counter = 0
        self.stubs = {}                   # qualname -> python callable(interp, closure, args, kwargs) replacing the body
        self.mute = 0
        self.loop_once = False            # a `for` over an opaque iterable runs its body once on a fresh loop symbol (one generic iteration)
        self.loop_done = []               # local variables at the end of each such generic iteration that ran to its end
        self.sym_types = {}               # symbol name -> (record type name, fields, number of defaulted fields): a symbol known to be such a record
        self.ranks = {}                   # canonical array term -> number of axes (learned from `a, b = x.shape`)
        self.sym_reads = {}               # symbol name -> attribute names read off the symbol (on any path, whatever became of the value)

    # ------------------------------------------------------------------ terms
    def mk(self, op, args, extra=None):
        c = (op,) + tuple(self.canon(a) for a in args)
        return T(op, tuple(args), c, extra)

    def sym(self, name):
        return T("sym", (name,), ("sym", name))

    def ext(self, name):
        name = canonical_ext(name)
        return T("ext", (name,), ("ext", name))

    def typed(self, v):
        """(tname, fields, ndefaults) when v is a symbol known to be a record, else None"""
        if isinstance(v, T) and v.op == "sym":
            return self.sym_types.get(v.args[0])
        return None

    def as_rec(self, v):
        """record view of a typed symbol: field j is the term v[j]"""
        tname, fields, nd = self.typed(v)
        return Rec(tname, fields, [self.mk("item", (v, j)) for j in range(len(fields))], nd)

    def canon(self, v):
        if isinstance(v, T):
            return v.c
        if v is None or isinstance(v, (bool, str)):
            return ("c", v)
        if isinstance(v, (int, float)):
            if isinstance(v, float) and v == v and abs(v) < 1e15 and v == int(v):
                return ("c", int(v))          # 0.0 and 0 denote the same number
            return ("c", v)
        if isinstance(v, (tuple, list)):
            return ("tuple",) + tuple(self.canon(x) for x in v)
        if isinstance(v, dict):
            return ("dict",) + tuple(sorted((self.canon(k), self.canon(x)) for k, x in v.items()))
        if isinstance(v, Rec):
            return self.canon_rec(v.tname, tuple(self.canon(x) for x in v.values))
        if isinstance(v, Obj):
            return ("sym", v.label)
        if isinstance(v, Closure):
            return self.canon_closure(v)[0]
        if isinstance(v, Bound):
            # a bound method whose body is interpreted is the callable `lambda *a: method(recv, *a)` under the heap of this moment:
            # handing `helper.method` on is the same value as handing on the lambda / nested def that makes that call
            if isinstance(v.recv, Obj) and self.depth_bound < 4 and self.should_inline(v.func.scope) and v.func.scope.qualname not in self.stubs:
                n = self.arity(v)
                if n is not None and not v.func.scope.kwonly():
                    self.depth_bound += 1
                    try:
                        c = self.canon_fn(v, n, structural=False)
                    finally:
                        self.depth_bound -= 1
                    if c is not None and not (isinstance(c[3], tuple) and c[3] and c[3][0] == "closure?"):
                        return c
            return ("bound", self.canon(v.recv), v.func.scope.qualname)
        if isinstance(v, Partial):
            n = self.arity(v)
            if n is not None:
                c = self.canon_fn(v, n, structural=False)
                if c is not None:
                    return c
            return ("partial", self.canon(v.f), self.canon(tuple(v.args)), tuple(sorted((k, self.canon(x)) for k, x in v.kwargs.items())))
        if isinstance(v, Pullback):
            return ("pull", self.canon(v.f), self.canon(v.primals))
        if isinstance(v, NTClass):
            return ("ntclass", v.name, v.fields)
        if isinstance(v, ClassV):
            return ("cls", v.scope.qualname)
        if isinstance(v, ModuleV):
            return ("mod", v.module.name)
        if isinstance(v, slice):
            return ("slice", self.canon(v.start), self.canon(v.stop), self.canon(v.step))
        if v is Ellipsis:
            return ("c", "...")
        raise EvalError(f"value {type(v).__name__} has no canonical form")

    def canon_rec(self, tname, vals):
        """canonical key of a record with canonical field values `vals`.  eta: a record whose fields are exactly s[0], ..., s[n-1] of a
        symbol s known to be a record of that type is s itself"""
        if vals and all(isinstance(x, tuple) and len(x) == 3 and x[0] == "item" and x[2] == ("c", j) and x[1] == vals[0][1] for j, x in enumerate(vals)):
            base = vals[0][1]
            if base[0] == "sym" and base[1] in self.sym_types and self.sym_types[base[1]][0] == tname \
                    and len(self.sym_types[base[1]][1]) == len(vals):
                return base
        return ("rec", tname) + tuple(vals)

    def canon_closure(self, cl: Closure):
        """(canonical key, fresh parameter symbols).  Module-level functions are named constants; nested defs / lambdas are
        canonicalised by application to fresh symbols (extensional equality under the current heap)."""
        sc = cl.scope
        if sc.kind == "function" and sc.parent is not None and sc.parent.kind == "module":
            return ("func", sc.qualname), ()
        ps = sc.params()
        if sc.has_varargs() or sc.has_kwargs() or sc.kwonly():
            return ("closure?", sc.qualname), ()
        d = self.lamdepth
        fresh = [self.sym(f"%{d}.{i}") for i in range(len(ps))]
        defaults = []
        for p_ in ps:
            dv = sc.default_of(p_)
            if dv is not None:
                try:
                    defaults.append((ps.index(p_), self.canon(self.eval(dv, cl.env))))
                except (EvalError, Crash, Raised):
                    defaults.append((ps.index(p_), ("c", "?default")))
        snap = self.snapshot()
        self.lamdepth += 1
        self.in_canon += 1
        try:
            body = self.canon(self.call_closure(cl, list(fresh), {}, force=True))
        except (EvalError, Crash, Raised, RecursionError) as ex:
            body = ("closure?", sc.qualname, str(ex)[:60])
        finally:
            self.in_canon -= 1
            self.lamdepth -= 1
            self.restore(snap)
        return ("lam", len(ps), tuple(defaults), body, tuple(x.c for x in fresh)), tuple(fresh)

    def arity(self, f):
        """number of positional arguments a callable still expects (None: unknown)"""
        if isinstance(f, Closure):
            sc = f.scope
            if sc.has_varargs() or sc.has_kwargs():
                return None
            return sc.n_required()
        if isinstance(f, Bound):
            n = self.arity(f.func)
            return None if n is None else n - 1
        if isinstance(f, Partial):
            n = self.arity(f.f)
            if n is None:
                return None
            inner = f.f.func.scope if isinstance(f.f, Bound) else (f.f.scope if isinstance(f.f, Closure) else None)
            req = inner.params()[:inner.n_required()] if inner is not None else []
            return max(0, n - len(f.args) - len([k for k in f.kwargs if k in req]))
        return None

    def canon_fn(self, f, n, structural=True):
        """Canonical key of a callable that is differentiated: always the extensional form ('lam', n, defaults, body, params)
        when the callable can be applied to n fresh symbols (nested closure, partial, bound method, inlinable function, opaque term)."""
        if isinstance(f, Closure) and not (f.scope.kind == "function" and f.scope.parent is not None and f.scope.parent.kind == "module"):
            c, fresh = self.canon_closure(f)
            if c[0] == "lam" and c[1] == n:
                return c
        d = self.lamdepth
        fresh = [self.sym(f"%{d}.{i}") for i in range(n)]
        snap = self.snapshot()
        self.lamdepth += 1
        self.in_canon += 1
        try:
            body = self.canon(self.call(f, list(fresh), {}))
        except (EvalError, Crash, Raised, RecursionError):
            return self.canon(f) if structural else None
        finally:
            self.in_canon -= 1
            self.lamdepth -= 1
            self.restore(snap)
        return ("lam", n, (), body, tuple(x.c for x in fresh))

    def mk_deriv(self, kind, f, primals, other, index=None):
        fc = self.canon_fn(f, len(primals))
        if kind == "vjp":
            pc = self.canon(tuple(primals))
            if len(primals) > 1 and isinstance(fc, tuple) and fc[0] == "lam" and fc[1] == len(primals) and not fc[2] and isinstance(index, int) \
                    and 0 <= index < len(primals):
                # component `index` of the pull-back of f(x0, ..., xn) = pull-back of z -> f(x0, ..., z, ..., xn) at x_index
                zs = fc[4]
                z0 = ("sym", f"%{self.lamdepth}.0")
                mapping = {z: (z0 if j == index else pc[1 + j]) for j, z in enumerate(zs)}
                fc = ("lam", 1, (), subst_many(fc[3], mapping), (z0,))
                pc, index = ("tuple", pc[1 + index]), 0
            c = ("vjp", fc, pc, self.canon(other), ("c", index))
        else:
            c = ("jvp", fc, self.canon(tuple(primals)), self.canon(tuple(other)))
        return T(kind, (f, tuple(primals), other, index), c)

    # ------------------------------------------------------------------ heap snapshots
    def snapshot(self):
        return ([(o, dict(o.attrs)) for o in self.objs], dict(self.opaque_attrs), len(self.events), len(self.trace), dict(self.known),
                len(self.objs), dict(self.duck_obj), dict(self.ranks))

    def restore(self, snap):
        objs, oa, ne, nt, known, nobj, dobj, ranks = snap
        self.ranks = ranks
        for o, a in objs:
            o.attrs = a
        self.opaque_attrs = oa
        del self.events[ne:]
        del self.trace[nt:]
        self.known = known
        del self.objs[nobj:]
        self.duck_obj = dobj

    # ------------------------------------------------------------------ module values
    def module_env(self, module):
        if module.name not in self.modenv:
            self.modenv[module.name] = Env(module.scope, None)
        return self.modenv[module.name]

    def module_value(self, module, name):
        env = self.module_env(module)
        cur = self._cursor.get((module.name, name)) if hasattr(self, "_cursor") else None
        if name in env.vars and cur is None:
            return env.vars[name]
        bs = module.scope.bindings.get(name)
        if cur is not None and bs:
            bs = bs[:cur]           # `f = wrap(f)` at module level: inside the right-hand side the name denotes the earlier binding
        if not bs:
            s2, bs2 = self.repo.star_lookup(name, module)
            if s2 is not None:
                return self.module_value(s2.module, name)
            if hasattr(_bi, name):
                return self.ext("builtins." + name)
            raise EvalError(f"name {name} unbound in {module.name}")
        b = bs[-1]
        if b.kind == "def":
            v = Closure(b.extra, env)
        elif b.kind == "class":
            v = ClassV(b.extra)
        elif b.kind == "import":
            m = self.repo.modules.get(b.extra)
            v = ModuleV(m) if m else self.ext(b.extra)
        elif b.kind == "importfrom":
            modname, attr, level = b.extra
            if level:
                base = module.name.rsplit(".", level)[0]
                modname = base + ("." + modname if modname else "")
            full = f"{modname}.{attr}"
            if full in self.repo.modules:
                v = ModuleV(self.repo.modules[full])
            elif modname in self.repo.modules:
                v = self.module_value(self.repo.modules[modname], attr)
            else:
                v = self.ext(full)
        elif b.kind == "assign" and b.value is not None:
            if not hasattr(self, "_cursor"):
                self._cursor = {}
            key = (module.name, name)
            prev = self._cursor.get(key)
            self._cursor[key] = len(bs) - 1
            try:
                v = self.eval(b.value, env)
            finally:
                if prev is None:
                    self._cursor.pop(key, None)
                else:
                    self._cursor[key] = prev
            if b.index:
                for i in b.index:
                    v = self.getitem(v, i)
        else:
            raise EvalError(f"module binding {name} of kind {b.kind}")
        if cur is None:
            env.vars[name] = v
        return v

    def lookup(self, name, env: Env):
        e = env.find(name)
        if e is not None:
            return e.vars[name]
        root = env
        while root.parent is not None:
            root = root.parent
        module = root.scope.module
        # a local that is assigned somewhere in the function but not yet bound on this path
        e2 = env
        while e2 is not None and e2.scope.kind != "module":
            if e2.scope.kind in ("function", "lambda") and name in e2.scope.bindings and name not in e2.scope.globals_:
                raise Crash(f"local `{name}` is read before it is bound on this path")
            e2 = e2.parent
        return self.module_value(module, name)

    # ------------------------------------------------------------------ expressions
    def eval(self, e, env):
        self.steps += 1
        if self.steps > self.max_steps:
            raise EvalError("step budget exhausted")
        m = getattr(self, "e_" + type(e).__name__, None)
        if m is None:
            raise EvalError(f"expression {type(e).__name__}: {norm_src(e)[:50]}")
        return m(e, env)

    def e_Constant(self, e, env):
        return e.value

    def e_Name(self, e, env):
        return self.lookup(e.id, env)

    def e_Tuple(self, e, env):
        out, segs = [], []
        for x in e.elts:
            if isinstance(x, ast.Starred):
                v = self.eval(x.value, env)
                try:
                    out += list(self.iterate(v))
                except EvalError:
                    if not isinstance(v, T):
                        raise
                    # (a, *t) with an opaque sequence t (a shape, ...): the concatenation (a,) + t
                    segs += [tuple(out), v]
                    out = []
            else:
                out.append(self.eval(x, env))
        if not segs:
            return tuple(out)
        if out:
            segs.append(tuple(out))
        segs = [s for s in segs if not (isinstance(s, tuple) and not s)]
        v = segs[0]
        for s in segs[1:]:
            v = self.binop("+", v, s)
        return v

    def e_List(self, e, env):
        return list(self.e_Tuple(e, env))

    def e_Dict(self, e, env):
        out = {}
        for k, v in zip(e.keys, e.values):
            if k is None:
                d = self.eval(v, env)
                if not isinstance(d, dict):
                    raise EvalError("** of a non-dict")
                out.update(d)
            else:
                kk = self.eval(k, env)
                if isinstance(kk, T):
                    raise EvalError("symbolic dict key")
                out[kk] = self.eval(v, env)
        return out

    def e_JoinedStr(self, e, env):
        out = ""
        for v in e.values:
            if isinstance(v, ast.Constant):
                out += str(v.value)
                continue
            x = self.eval(v.value, env)
            if v.format_spec is not None or v.conversion not in (-1, None) or not (x is None or isinstance(x, (bool, int, float, str))):
                return "<fstring>"
            out += str(x)
        return out

    def e_Lambda(self, e, env):
        sc = self.repo.scope_of(e)
        if sc is None:
            raise EvalError("lambda scope")
        return Closure(sc, env)

    def e_IfExp(self, e, env):
        return self.eval(e.body if self.truth(self.eval(e.test, env)) else e.orelse, env)

    def e_BoolOp(self, e, env):
        v = None
        for i, x in enumerate(e.values):
            v = self.eval(x, env)
            if i == len(e.values) - 1:
                return v
            t = self.truth(v)
            if isinstance(e.op, ast.And) and not t:
                return v
            if isinstance(e.op, ast.Or) and t:
                return v
        return v

    def e_UnaryOp(self, e, env):
        v = self.eval(e.operand, env)
        if isinstance(e.op, ast.Not):
            if isinstance(v, T):
                return self.mk("un", ("not", v))
            return not self.truth(v)
        opn = {ast.USub: "-", ast.UAdd: "+", ast.Invert: "~"}[type(e.op)]
        if isinstance(v, (int, float)) and not isinstance(v, bool):
            return -v if opn == "-" else (+v if opn == "+" else ~v)
        if opn == "+":
            return v
        if opn == "-" and isinstance(v, T) and v.op == "un" and v.args[0] == "-":
            return v.args[1]
        return self.mk("un", (opn, v))

    _BIN = {ast.Add: "+", ast.Sub: "-", ast.Mult: "*", ast.Div: "/", ast.Pow: "**", ast.MatMult: "@", ast.Mod: "%", ast.FloorDiv: "//",
            ast.BitAnd: "&", ast.BitOr: "|", ast.BitXor: "^", ast.LShift: "<<", ast.RShift: ">>"}

    def binop(self, opn, a, b):
        num = lambda x: isinstance(x, (int, float)) and not isinstance(x, bool)
        if num(a) and num(b):
            try:
                return {"+": lambda: a + b, "-": lambda: a - b, "*": lambda: a * b, "/": lambda: a / b, "**": lambda: a ** b,
                        "%": lambda: a % b, "//": lambda: a // b}[opn]()
            except (KeyError, ZeroDivisionError, OverflowError):
                pass
        if opn == "+" and isinstance(a, (tuple, list)) and isinstance(b, type(a)):
            return a + b
        if opn == "+" and isinstance(a, str) and isinstance(b, str):
            return a + b
        if opn == "*" and isinstance(a, (tuple, list)) and isinstance(b, int):
            return a * b
        if opn == "%" and isinstance(a, str):
            flat = b if isinstance(b, tuple) else (b,)
            if all(isinstance(x, (int, float, str)) and not isinstance(x, bool) for x in flat):
                try:
                    return a % b
                except (TypeError, ValueError):
                    raise Crash("string formatting with mismatching operands")
            return "<fstring>"
        seq = lambda x: isinstance(x, (tuple, list, str)) or (isinstance(x, T) and (x.op == "attr" and x.args[1] == "shape" or
                                                                                     x.op == "bin" and x.args[0] == "+" and (seq(x.args[1]) or seq(x.args[2]))))
        if opn in ("+", "*") and not (opn == "+" and (seq(a) or seq(b))):
            ca, cb = self.canon(a), self.canon(b)
            if repr(cb) < repr(ca):
                a, b = b, a
        return self.mk("bin", (opn, a, b))

    def e_BinOp(self, e, env):
        return self.binop(self._BIN[type(e.op)], self.eval(e.left, env), self.eval(e.right, env))

    _CMP = {ast.Eq: "==", ast.NotEq: "!=", ast.Lt: "<", ast.LtE: "<=", ast.Gt: ">", ast.GtE: ">=", ast.Is: "is", ast.IsNot: "is not",
            ast.In: "in", ast.NotIn: "not in"}

    def compare(self, opn, a, b):
        conc = lambda x: x is None or isinstance(x, (bool, int, float, str, tuple))
        if conc(a) and conc(b) and not (isinstance(a, tuple) and any(isinstance(x, T) for x in a)) \
                and not (isinstance(b, tuple) and any(isinstance(x, T) for x in b)):
            try:
                return {"==": lambda: a == b, "!=": lambda: a != b, "<": lambda: a < b, "<=": lambda: a <= b, ">": lambda: a > b,
                        ">=": lambda: a >= b, "is": lambda: a is b or (a == b and type(a) is type(b)),
                        "is not": lambda: not (a is b or (a == b and type(a) is type(b))),
                        "in": lambda: a in b, "not in": lambda: a not in b}[opn]()
            except TypeError:
                raise EvalError("comparison of incomparable constants")
        if opn in ("in", "not in") and isinstance(b, (tuple, list, dict)) and conc(a) and all(conc(x) for x in b):
            return (a in b) if opn == "in" else (a not in b)
        if opn in ("in", "not in") and isinstance(b, (tuple, list, dict)) and isinstance(a, T) and all(conc(x) and not isinstance(x, tuple) for x in b) \
                and not self.in_canon:
            # membership of a symbolic value in a literal container: decided like the chain of equalities it abbreviates
            hit = any(self.truth(self.compare("==", a, k)) for k in b)
            return hit if opn == "in" else not hit
        # records, objects, closures are never None / never equal to a constant
        solid = (Rec, Obj, Closure, Bound, Partial, Pullback, NTClass, ClassV, ModuleV, dict, list)
        is_solid = lambda x: isinstance(x, solid) or self.typed(x) is not None
        if opn in ("==", "is", "!=", "is not") and ((is_solid(a) and conc(b)) or (is_solid(b) and conc(a))):
            return opn in ("!=", "is not")
        if opn in ("==", "is", "!=", "is not") and isinstance(a, tuple) and b is None:
            return opn in ("!=", "is not")
        # a shape expression (x.shape, (n,) + x.shape, ...) is a tuple and the result of an array construction (broadcast, mapped
        # computation) is an array: neither is None, so `kw is None` / `kw == None` on such a value is decided -- an optional keyword whose
        # default None stands for "derive it from the other arguments" is followed at every call site that passes the value explicitly
        if opn in ("is", "is not") or (opn in ("==", "!=") and (a is None or b is None)):
            for x, y in ((a, b), (b, a)):
                # (`==` between an array and None is an elementwise comparison: only the identity test is decided for arrays)
                if y is None and isinstance(x, T) and ((opn in ("is", "is not") and x.op in ("bcast", "bcastto", "vmap")) or self.shape_parts(x) is not None):
                    return opn in ("!=", "is not")
        if opn in ("==", "!=") and isinstance(a, tuple) and isinstance(b, tuple) and len(a) != len(b):
            return opn == "!="
        return self.mk("cmp", (opn, a, b))

    def e_Compare(self, e, env):
        left = self.eval(e.left, env)
        res = True
        for op, c in zip(e.ops, e.comparators):
            right = self.eval(c, env)
            r = self.compare(self._CMP[type(op)], left, right)
            if len(e.ops) == 1:
                return r
            if not self.truth(r):
                return False
            left = right
        return res

    # ---- truth and forks
    def atom(self, v):
        """(key, flip): the condition holds iff decision(key) != flip"""
        if isinstance(v, T) and v.op == "un" and v.args[0] == "not":
            k, f = self.atom(v.args[1])
            return k, not f
        if isinstance(v, T) and v.op == "cmp":
            opn, a, b = v.args
            ca, cb = self.canon(a), self.canon(b)
            if opn in ("==", "is", "!=", "is not"):
                lo, hi = sorted([ca, cb], key=repr)
                return ("eq", lo, hi), opn in ("!=", "is not")
            if opn in ("<", ">=", ">", "<="):
                # a < b  <=> not a >= b ;  a > b <=> b < a
                if opn in (">", "<="):
                    ca, cb = cb, ca
                    opn = "<" if opn == ">" else ">="
                return ("lt", ca, cb), opn == ">="
            return ("cmp", opn, ca, cb), False
        return ("truth", self.canon(v)), False

    def truth(self, v):
        if v is None or isinstance(v, (bool, int, float, str, tuple, list, dict)):
            return bool(v)
        if isinstance(v, (Rec,)):
            return len(v.values) > 0
        if isinstance(v, (Obj, Closure, Bound, Partial, Pullback, NTClass, ClassV, ModuleV)):
            return True
        if not isinstance(v, T):
            raise EvalError("truth of unknown value")
        if self.typed(v) is not None:
            return len(self.typed(v)[1]) > 0
        key, flip = self.atom(v)
        if key in self.known:
            return self.known[key] != flip
        if self.in_canon:
            raise EvalError("undecidable branch inside a callable that is being canonicalised")
        k = len(self.trace)
        d = self.plan[k] if k < len(self.plan) else True
        self.trace.append((key, d))
        self.known[key] = d
        return d != flip

    # ---- subscripts / attributes
    def e_Subscript(self, e, env):
        base = self.eval(e.value, env)
        return self.getitem(base, self.eval_index(e.slice, env))

    def eval_index(self, s, env):
        if isinstance(s, ast.Slice):
            f = lambda x: None if x is None else self.eval(x, env)
            return slice(f(s.lower), f(s.upper), f(s.step))
        if isinstance(s, ast.Tuple):
            return tuple(self.eval_index(x, env) for x in s.elts)
        return self.eval(s, env)

    def getitem(self, base, key):
        base = self.deref(base)
        conc_int = isinstance(key, int) and not isinstance(key, bool)
        if isinstance(base, (tuple, list, str)):
            if conc_int:
                if not -len(base) <= key < len(base):
                    raise Crash(f"index {key} out of range for a {len(base)}-sequence")
                return base[key]
            if isinstance(key, slice) and all(x is None or isinstance(x, int) for x in (key.start, key.stop, key.step)):
                return base[key]
            raise EvalError("symbolic index into a concrete sequence")
        if isinstance(base, Rec):
            if conc_int:
                if not -len(base.values) <= key < len(base.values):
                    raise Crash(f"index {key} out of range for {base.tname}")
                return base.values[key]
            if isinstance(key, slice):
                return tuple(base.values)[key]
            raise EvalError("symbolic index into a record")
        if isinstance(base, dict):
            if isinstance(key, T):
                return self.dict_lookup(base, key, None, False)
            if key not in base:
                raise Crash(f"key {key!r} missing")
            return base[key]
        if isinstance(base, T):
            if base.op == "attr" and base.args[1] == "shape" and conc_int and key == 0:
                return self.dim(base.args[0], 0)          # leading extent: known for broadcasts and mapped results
            ty = self.typed(base)
            if ty is not None:
                n = len(ty[1])
                if conc_int:
                    if not -n <= key < n:
                        raise Crash(f"index {key} out of range for {ty[0]}")
                    return self.mk("item", (base, key % n))
                if isinstance(key, slice):
                    return tuple(self.as_rec(base).values)[key]
            return self.mk("item", (base, key))
        raise EvalError(f"subscript of {type(base).__name__}")

    def dict_lookup(self, d, key, default, has_default):
        """d[key] / d.get(key, default) for a symbolic key and literal keys: the chain `if key == k1: ... elif key == k2: ...` (forks)"""
        if self.in_canon or not all(k is None or isinstance(k, (bool, int, float, str)) for k in d):
            raise EvalError("symbolic dict key")
        for k in d:
            if self.truth(self.compare("==", key, k)):
                return d[k]
        if has_default:
            return default
        raise Crash(f"key `{show(self.canon(key))[:40]}` missing (none of {list(d)[:6]})")

    def deref(self, v):
        if isinstance(v, T) and v.op == "sym" and v.args[0] in self.duck_obj:
            return self.duck_obj[v.args[0]]
        return v

    def class_members(self, cls: Scope):
        key = "_c07_members"
        if hasattr(cls, key):
            return getattr(cls, key)
        names = set()
        for c in self.repo.class_mro(cls):
            for ch in c.children:
                if ch.is_function():
                    names.add(ch.name)
                    ps = ch.params()
                    if ps:
                        for st in ast.walk(ch.node):
                            if isinstance(st, ast.Attribute) and isinstance(st.ctx, ast.Store) and isinstance(st.value, ast.Name) and st.value.id == ps[0]:
                                names.add(st.attr)
            for nm in c.bindings:
                names.add(nm)
        setattr(cls, key, names)
        return names

    def commit_duck(self, name):
        """A symbol that may be an instance of a repository class receives that identity the first time a member of the class is
        used on it: its attribute store is initialised by interpreting the constructor on fresh symbols."""
        if name in self.duck_obj:
            return self.duck_obj[name]
        cls = self.duck[name]
        self.mute += 1
        try:
            obj = self.instantiate(cls, None, None, label=name)
        finally:
            self.mute -= 1
        self.duck_obj[name] = obj
        return obj

    def find_method(self, cls: Scope, name):
        for c in self.repo.class_mro(cls):
            hit = None
            for ch in c.children:
                if ch.kind == "function" and ch.name == name:
                    hit = ch
            if hit is not None:
                return hit
        return None

    def getattr(self, base, a):
        if isinstance(base, T) and base.op == "sym" and base.args[0] in self.duck:
            nm = base.args[0]
            if nm in self.duck_obj or a in self.class_members(self.duck[nm]):
                base = self.commit_duck(nm)
        if isinstance(base, ModuleV):
            m = base.module
            sub = self.repo.modules.get(m.name + "." + a)
            try:
                return self.module_value(m, a)
            except EvalError:
                if sub is not None:
                    return ModuleV(sub)
                raise
        if isinstance(base, Obj):
            if a in base.attrs:
                return base.attrs[a]
            meth = self.find_method(base.cls, a)
            if meth is not None:
                decos = [norm_src(d) for d in meth.node.decorator_list]
                cl = Closure(meth, self.module_env(meth.module))
                if "staticmethod" in decos:
                    return cl
                if "property" in decos:
                    return self.call_closure(cl, [base], {})
                return Bound(base, cl)
            for c in self.repo.class_mro(base.cls):
                if a in c.bindings and c.bindings[a][-1].kind == "assign" and c.bindings[a][-1].value is not None:
                    return self.eval(c.bindings[a][-1].value, self.module_env(c.module))
            raise EvalError(f"{base.cls.name} object has no attribute `{a}` that the interpreter knows of")
        if isinstance(base, Rec):
            if a in base.fields:
                return base.get(a)
            if a == "_fields":
                return tuple(base.fields)
            if a in ("_replace", "_asdict"):
                return ("recmethod", base, a)
            raise Crash(f"{base.tname} has no field `{a}`")
        if isinstance(base, NTClass):
            if a == "_fields":
                return tuple(base.fields)
            if a == "_make":
                return ("ntmake", base)
            raise EvalError(f"attribute {a} of namedtuple class")
        if isinstance(base, ClassV):
            meth = self.find_method(base.scope, a)
            if meth is not None:
                return Closure(meth, self.module_env(meth.module))
            raise EvalError(f"class attribute {a}")
        if isinstance(base, T):
            if base.op == "ext":
                return self.ext(base.args[0] + "." + a)
            if base.op == "sym":
                self.sym_reads.setdefault(base.args[0], set()).add(a)
            ty = self.typed(base)
            if ty is not None and (a in ty[1] or a in ("_fields", "_replace", "_asdict")):
                return self.getattr(self.as_rec(base), a)
            k = (base.c, a)
            if k in self.opaque_attrs:
                return self.opaque_attrs[k]
            return self.mk("attr", (base, a))
        if isinstance(base, Closure) and a in ("defvjp", "defjvp", "defjvps"):
            return self.ext("<register>")
        if isinstance(base, (tuple, list, dict, str)):
            return ("pymethod", base, a)
        raise EvalError(f"attribute {a} of {type(base).__name__}")

    def e_Attribute(self, e, env):
        return self.getattr(self.eval(e.value, env), e.attr)

    def setattr(self, base, a, v):
        if isinstance(base, T) and base.op == "sym" and base.args[0] in self.duck:
            nm = base.args[0]
            if nm in self.duck_obj or a in self.class_members(self.duck[nm]):
                base = self.commit_duck(nm)
        if isinstance(base, Obj):
            base.attrs[a] = v
            return
        if isinstance(base, T):
            self.opaque_attrs[(base.c, a)] = v
            return
        raise EvalError(f"attribute store on {type(base).__name__}")

    # ---- comprehensions
    def iterate(self, v):
        v = self.deref(v)
        if self.typed(v) is not None:
            v = self.as_rec(v)
        if isinstance(v, (tuple, list)):
            return list(v)
        if isinstance(v, Rec):
            return list(v.values)
        if isinstance(v, dict):
            return list(v.keys())
        if isinstance(v, str):
            return list(v)
        raise EvalError("iteration over an opaque value")

    def _comp(self, e, env, elt):
        out = []

        def rec(k, env_k):
            if k == len(e.generators):
                out.append(elt(env_k))
                return
            g = e.generators[k]
            e2 = Env(env_k.scope, env_k)
            for x in self.iterate(self.eval(g.iter, env_k)):
                self.assign(g.target, x, e2)
                if all(self.truth(self.eval(c, e2)) for c in g.ifs):
                    rec(k + 1, e2)
        rec(0, env)
        return out

    def e_ListComp(self, e, env):
        return self._comp(e, env, lambda en: self.eval(e.elt, en))

    def e_GeneratorExp(self, e, env):
        return tuple(self._comp(e, env, lambda en: self.eval(e.elt, en)))

    def e_SetComp(self, e, env):
        return tuple(self._comp(e, env, lambda en: self.eval(e.elt, en)))

    def e_DictComp(self, e, env):
        return dict(self._comp(e, env, lambda en: (self.eval(e.key, en), self.eval(e.value, en))))

    def e_Starred(self, e, env):
        raise EvalError("starred expression outside a call / tuple")

    def e_NamedExpr(self, e, env):
        v = self.eval(e.value, env)
        self.assign(e.target, v, env)
        return v

    # ------------------------------------------------------------------ calls
    def e_Call(self, e, env):
        f = self.eval(e.func, env)
        args = []
        for a in e.args:
            if isinstance(a, ast.Starred):
                v = self.eval(a.value, env)
                try:
                    args += list(self.iterate(v))
                except EvalError:
                    args.append(self.mk("star", (v,)))
            else:
                args.append(self.eval(a, env))
        kwargs = {}
        for k in e.keywords:
            if k.arg is None:
                d = self.eval(k.value, env)
                if not isinstance(d, dict):
                    raise EvalError("** of a non-dict value")
                kwargs.update(d)
            else:
                kwargs[k.arg] = self.eval(k.value, env)
        return self.call(f, args, kwargs)

    def state_of(self, values):
        """canonical data state of the repository objects among `values` (directly, as receivers of bound methods, or as committed duck
        symbols): what an un-interpreted callee can read through them"""
        seen, out = set(), []

        def visit(v):
            v = self.deref(v)
            if isinstance(v, Bound):
                visit(v.recv)
            elif isinstance(v, Partial):
                visit(v.f)
                for a in v.args:
                    visit(a)
            elif isinstance(v, Obj) and id(v) not in seen:
                seen.add(id(v))
                cells = []
                for a in sorted(v.attrs):
                    x = v.attrs[a]
                    if x is None or isinstance(x, (bool, int, float, str, T, Rec, tuple)):
                        try:
                            cells.append((a, self.canon(x)))
                        except EvalError:
                            pass
                out.append((v.label, tuple(cells)))
            elif isinstance(v, (tuple, list)):
                for a in v:
                    visit(a)
        for v in values:
            visit(v)
        return tuple(out)

    def opaque(self, f, args, kwargs, params=None):
        st = self.state_of(list(args) + list(kwargs.values()))
        t = self.mk("app", (f, tuple(args), tuple(sorted(kwargs.items()))), extra={"params": params})
        if st:
            t = T("app", t.args, t.c + (("state",) + st,), t.extra)
        if not self.in_canon and not self.mute:
            self.events.append(t)
        return t

    def call(self, f, args, kwargs):
        if isinstance(f, Closure):
            return self.call_closure(f, args, kwargs)
        if isinstance(f, Bound):
            return self.call_closure(f.func, [f.recv] + list(args), kwargs, bound=f)
        if isinstance(f, Partial):
            kw = dict(f.kwargs)
            kw.update(kwargs)
            return self.call(f.f, list(f.args) + list(args), kw)
        if isinstance(f, Pullback):
            if len(args) != 1 or kwargs:
                raise Crash("a vjp pullback takes exactly one cotangent")
            return tuple(self.mk_deriv("vjp", f.f, f.primals, args[0], i) for i in range(len(f.primals)))
        if isinstance(f, NTClass):
            return self.make_record(f, args, kwargs)
        if isinstance(f, ClassV):
            return self.instantiate(f.scope, args, kwargs)
        if isinstance(f, tuple) and f and f[0] == "recmethod":
            if f[2] == "_replace":
                bad = [k for k in kwargs if k not in f[1].fields]
                if bad or args:
                    raise Crash(f"_replace with unknown field {bad}")
                return f[1].replace(**kwargs)
            return dict(zip(f[1].fields, f[1].values))
        if isinstance(f, tuple) and f and f[0] == "ntmake":
            return self.make_record(f[1], list(self.iterate(args[0])), {})
        if isinstance(f, tuple) and f and f[0] == "pymethod":
            return self.call_pymethod(f[1], f[2], args, kwargs)
        if isinstance(f, T):
            if f.op == "ext":
                return self.call_ext(f.args[0], args, kwargs)
            if f.op == "app" and isinstance(f.args[0], T) and f.args[0].op == "ext" and f.args[0].args[0] == "jax.vmap" and len(f.args[1]) == 3 and not f.args[2]:
                r = self.call_vmapped(f, args, kwargs)
                if r is not None:
                    return r
            return self.opaque(f, args, kwargs)
        raise EvalError(f"call of {type(f).__name__}")

    # ------------------------------------------------------------------ mapped computations and broadcasts (array-shape semantics)
    def mk_bcast(self, v, n):
        """`v` replicated along a new leading axis of length `n`"""
        vc = self.canon(v)
        return T("bcast", (v, n), ("bcast", vc, ("tuple", ("dim", self.canon(n)), ("all", vc))))

    def dim(self, x, axis):
        """term for the extent of array `x` along `axis`; len(x), x.shape[0], the length of a broadcast / of a mapped result coincide"""
        if isinstance(x, T) and axis == 0:
            if x.op == "bcast":
                return x.args[1]
            if x.op == "vmap":
                return x.args[1]
        return self.mk("item", (self.mk("attr", (x, "shape")), axis))

    def call_vmapped(self, vt, args, kwargs):
        """jax.vmap(fun, in_axes, out_axes)(*args) in normal form.  Arguments with axis None are constants of the map: they are
        substituted into the body (so closing over them, binding them with partial or passing them with in_axes=None is one and the same
        value); the mapped arguments become element symbols, numbered in a canonical order.  A body that is one of its mapped arguments
        is that argument; a body that uses no mapped argument is a broadcast of its value along the mapped extent.  None: not understood
        (the caller keeps the opaque application)."""
        fun, in_axes, out_axes = vt.args[1]
        if kwargs or not (isinstance(out_axes, int) and not isinstance(out_axes, bool) and out_axes == 0):
            return None
        n = len(args)
        if in_axes is None or (isinstance(in_axes, int) and not isinstance(in_axes, bool)):
            axes = [in_axes] * n
        elif isinstance(in_axes, (tuple, list)) and len(in_axes) == n and all(a is None or (isinstance(a, int) and not isinstance(a, bool)) for a in in_axes):
            axes = list(in_axes)
        else:
            return None
        if any(isinstance(a, T) and a.op == "star" for a in args) or all(a is None for a in axes):
            return None
        vals = list(args)
        try:
            first = next(i for i in range(n) if axes[i] is not None)
            extent = self.dim(vals[first], axes[first])
            for i in range(n):
                if axes[i] == 0 and isinstance(vals[i], T) and vals[i].op == "bcast":
                    vals[i], axes[i] = vals[i].args[0], None          # mapping over a broadcast: a constant of the map
            keys = {}
            for i in range(n):
                if axes[i] is not None:
                    keys.setdefault((self.canon(vals[i]), axes[i]), vals[i])
        except EvalError:
            return None
        order = sorted(keys, key=repr)
        d = self.lamdepth
        esym = {k: self.sym(f"%v{d}.{j}") for j, k in enumerate(order)}
        actual = [vals[i] if axes[i] is None else esym[(self.canon(vals[i]), axes[i])] for i in range(n)]
        snap = self.snapshot()
        self.lamdepth += 1
        self.in_canon += 1
        try:
            body = self.call(fun, actual, {})
            flat = list(body) if isinstance(body, (tuple, list)) else [body]
            cs = [self.canon(b) for b in flat]
        except (EvalError, Crash, Raised, RecursionError):
            return None
        finally:
            self.in_canon -= 1
            self.lamdepth -= 1
            self.restore(snap)
        if any(isinstance(b, (Rec, Obj, dict, Closure, Bound, Partial, Pullback)) for b in flat):
            return None
        elems = tuple(esym[k].c for k in order)
        mapped = tuple(("tuple", k[0], ("c", k[1])) for k in order)
        out = []
        for b, c in zip(flat, cs):
            hit = [k for k in order if esym[k].c == c]
            if hit and hit[0][1] == 0:
                out.append(keys[hit[0]])                              # identity map
            elif not any(occurs(c, e) for e in elems):
                out.append(self.mk_bcast(b, extent))                  # the body ignores the mapped arguments: a broadcast
            else:
                out.append(T("vmap", (b, extent, tuple(keys[k] for k in order)), ("vmap", c, ("tuple",) + elems, ("tuple",) + mapped)))
        return tuple(out) if isinstance(body, (tuple, list)) else out[0]

    def rank_of(self, x):
        return self.ranks.get(self.canon(x))

    def shape_parts(self, v):
        """a shape expression as a list of ('dim', extent) / ('all', array) segments (`(n,) + x.shape`, `(n, *x.shape)`, `(n, a, b)` with
        `a, b = x.shape`), None when it is not understood"""
        if isinstance(v, (tuple, list)):
            parts = [("dim", x) for x in v]
        elif isinstance(v, T) and v.op == "attr" and v.args[1] == "shape":
            parts = [("all", v.args[0])]
        elif isinstance(v, T) and v.op == "bin" and v.args[0] == "+":
            a, b = self.shape_parts(v.args[1]), self.shape_parts(v.args[2])
            if a is None or b is None:
                return None
            parts = a + b
        else:
            return None
        # x.shape[0], ..., x.shape[k-1] with rank(x) == k known: all of x.shape
        out, i = [], 0
        while i < len(parts):
            kind, x = parts[i]
            if kind == "dim" and isinstance(x, T) and x.op == "item" and x.args[1] == 0 and isinstance(x.args[0], T) and x.args[0].op == "attr" \
                    and x.args[0].args[1] == "shape":
                arr = x.args[0].args[0]
                k = self.rank_of(arr)
                if k is not None and i + k <= len(parts) and all(parts[i + j][0] == "dim" and self.canon(parts[i + j][1]) == self.canon(self.dim(arr, j)) for j in range(k)):
                    out.append(("all", arr))
                    i += k
                    continue
            out.append(parts[i])
            i += 1
        return out

    def strip_newaxis(self, x):
        """x0 when x is x0 with a new leading axis of length one (x0[None], x0[None, ...], expand_dims(x0, 0)), else None"""
        if not isinstance(x, T):
            return None
        isnone = lambda k: k is None or (isinstance(k, T) and k.op == "ext" and k.args[0].split(".")[-1] == "newaxis")
        if x.op == "item":
            k = x.args[1]
            if isnone(k) or (isinstance(k, tuple) and len(k) == 2 and isnone(k[0]) and k[1] is Ellipsis):
                return x.args[0]
        if x.op == "app" and isinstance(x.args[0], T) and x.args[0].op == "ext" and x.args[0].args[0].split(".")[-1] == "expand_dims":
            a, kw = list(x.args[1]), dict(x.args[2])
            axis = a[1] if len(a) > 1 else kw.get("axis")
            if a and isinstance(axis, int) and not isinstance(axis, bool) and axis == 0:
                return a[0]
        return None

    def as_broadcast(self, x, shape):
        """broadcast_to(x, shape) as a replication of x along a new leading axis, when shape is (n,) + x.shape"""
        parts = self.shape_parts(shape)
        if parts is None:
            return None
        if len(parts) == 2 and parts[0][0] == "dim" and parts[1][0] == "all":
            x0 = self.strip_newaxis(x)
            tgt = self.canon(parts[1][1])
            if self.canon(x) == tgt:
                return self.mk_bcast(x, parts[0][1])
            if x0 is not None and self.canon(x0) == tgt:
                return self.mk_bcast(x0, parts[0][1])
        # any other target shape that is understood: same constructor, so that two broadcasts of one array differ in a named extent
        return T("bcastto", (x, parts), ("bcast", self.canon(x), ("tuple",) + tuple((k, self.canon(v)) for k, v in parts)))

    def call_pymethod(self, base, name, args, kwargs):
        if isinstance(base, dict):
            if name == "get":
                if isinstance(args[0], T):
                    return self.dict_lookup(base, args[0], args[1] if len(args) > 1 else None, True)
                return base.get(args[0], args[1] if len(args) > 1 else None)
            if name == "items":
                return list(base.items())
            if name == "keys":
                return list(base.keys())
            if name == "values":
                return list(base.values())
            if name == "copy" and not args:
                return dict(base)
            if name == "update" and len(args) <= 1:
                if args and not isinstance(args[0], dict):
                    raise EvalError("dict.update with a non-dict argument")
                for d in list(args) + [kwargs]:
                    if any(isinstance(k, T) for k in d):
                        raise EvalError("symbolic dict key")
                    base.update(d)
                return None
            if name == "pop" and args and not isinstance(args[0], T):
                if args[0] in base:
                    return base.pop(args[0])
                if len(args) > 1:
                    return args[1]
                raise Crash(f"key {args[0]!r} missing")
            if name == "setdefault" and args and not isinstance(args[0], T):
                return base.setdefault(args[0], args[1] if len(args) > 1 else None)
        if isinstance(base, (tuple, list)) and name == "index" and len(args) == 1 and not isinstance(args[0], T):
            return list(base).index(args[0])
        if isinstance(base, list) and name == "append":
            base.append(args[0])
            return None
        if isinstance(base, str) and name == "format" and all(isinstance(x, (int, float, str)) and not isinstance(x, bool) for x in list(args) + list(kwargs.values())):
            try:
                return base.format(*args, **kwargs)
            except (IndexError, KeyError, ValueError):
                raise Crash("str.format with mismatching arguments")
        if isinstance(base, str) and name in ("format", "join", "lower", "upper", "strip"):
            return "<fstring>" if name in ("format", "join") else getattr(base, name)()
        raise EvalError(f"method {name} of {type(base).__name__}")

    def make_record(self, nt: NTClass, args, kwargs):
        if any(isinstance(a, T) and a.op == "star" for a in args):
            raise EvalError(f"{nt.name}(*opaque sequence)")
        if len(args) > len(nt.fields):
            raise Crash(f"{nt.name} takes {len(nt.fields)} fields, {len(args)} given")
        vals = {f: a for f, a in zip(nt.fields, args)}
        for k, v in kwargs.items():
            if k not in nt.fields or k in vals:
                raise Crash(f"{nt.name}: unexpected / duplicate field `{k}`")
            vals[k] = v
        nd = len(nt.defaults)
        for i, f in enumerate(nt.fields):
            if f not in vals:
                j = i - (len(nt.fields) - nd)
                if j < 0:
                    raise Crash(f"{nt.name}: required field `{f}` missing")
                vals[f] = nt.defaults[j]
        return Rec(nt.name, nt.fields, [vals[f] for f in nt.fields], nd)

    def instantiate(self, cls: Scope, args, kwargs, label=None):
        init = self.find_method(cls, "__init__")
        if init is None:
            fields, defaults = [], []
            for c in reversed(self.repo.class_mro(cls)):
                for st in c.node.body:
                    if isinstance(st, ast.AnnAssign) and isinstance(st.target, ast.Name):
                        fields.append(st.target.id)
                        if st.value is not None:
                            defaults.append(self.eval(st.value, self.module_env(c.module)))
                        elif defaults:
                            defaults = None
                            break
                if defaults is None:
                    break
            if fields and args is not None:
                return self.make_record(NTClass(cls.name, fields, tuple(defaults or ())), args, kwargs)
            if args is None:
                raise EvalError(f"class {cls.name} has no constructor to initialise a symbolic instance")
            return self.opaque(T("cls", (cls.qualname,), ("cls", cls.qualname)), args, kwargs)
        if not self.inline(init) and label is None:
            return self.opaque(T("cls", (cls.qualname,), ("cls", cls.qualname)), args, kwargs)
        self.fresh_counter += 1
        obj = Obj(cls, label or f"{cls.name}#{self.fresh_counter}")
        self.objs.append(obj)
        ps = init.params()
        if args is None:
            args = [self.sym(f"{obj.label}.init.{p_}") for p_ in ps[1:]]
            kwargs = {}
        # the constructor is interpreted statement by statement; a statement that cannot be interpreted leaves its targets unknown
        self.touch(init)
        env = Env(init, self.module_env(init.module))
        self.bind_params(init, env, [obj] + list(args), kwargs, self.module_env(init.module))
        self.run_tolerant(init.node.body, env)
        return obj

    def run_tolerant(self, body, env):
        for st in body:
            snap = self.snapshot()
            try:
                self.stmt(st, env)
            except _Return:
                return
            except (EvalError,) as ex:
                self.restore(snap)
                for t in ast.walk(st):
                    if isinstance(t, ast.Attribute) and isinstance(t.ctx, ast.Store):
                        try:
                            self.setattr(self.eval(t.value, env), t.attr, self.mk("unknown", (str(ex)[:80],)))
                        except (EvalError, Crash):
                            pass
                    elif isinstance(t, ast.Name) and isinstance(t.ctx, ast.Store):
                        env.vars[t.id] = self.mk("unknown", (str(ex)[:80],))

    def bind_params(self, sc: Scope, env: Env, args, kwargs, defenv):
        ps = sc.params()
        q = sc.qualname
        if any(isinstance(a, T) and a.op == "star" for a in args):
            raise EvalError("starred opaque argument")
        if len(args) > len(ps):
            if not sc.has_varargs():
                raise Crash(f"{sc.name}() takes {len(ps)} positional arguments but {len(args)} were given")
        if sc.has_varargs():
            env.vars[sc.node.args.vararg.arg] = tuple(args[len(ps):])
        for p_, a in zip(ps, args):
            env.vars[p_] = a
        extra = {}
        for k, v in kwargs.items():
            if k not in ps + sc.kwonly():
                if sc.has_kwargs():
                    extra[k] = v
                    continue
                raise Crash(f"{sc.name}() got an unexpected keyword argument `{k}`")
            if k in env.vars:
                raise Crash(f"{sc.name}() got multiple values for argument `{k}`")
            env.vars[k] = v
        if sc.has_kwargs():
            env.vars[sc.node.args.kwarg.arg] = extra
        for p_ in ps + sc.kwonly():
            if p_ not in env.vars:
                d = sc.default_of(p_)
                if d is None:
                    raise Crash(f"{sc.name}() missing required argument `{p_}`")
                env.vars[p_] = self.eval(d, defenv)

    def should_inline(self, sc: Scope):
        s = sc
        while s is not None and s.kind != "module":
            if s.kind in ("function",) and s.parent is not None and s.parent.kind in ("module", "class"):
                return self.inline(s)
            s = s.parent
        return self.inline(sc)

    def call_closure(self, f: Closure, args, kwargs, force=False, bound=None):
        sc = f.scope
        if sc.qualname in self.stubs:
            return self.stubs[sc.qualname](self, f, args, kwargs)
        if not force and not self.should_inline(sc):
            return self.call_opaque_repo(f, args, kwargs, bound)
        if self.depth > 60:
            raise EvalError("recursion too deep")
        snap = self.snapshot() if not force else None
        self.depth += 1
        try:
            env = Env(sc, f.env)
            self.bind_params(sc, env, args, kwargs, f.env)
            if sc.kind == "lambda":
                v = self.eval(sc.node.body, env)
                self.touch(sc)
                return v
            try:
                self.block(sc.node.body, env)
            except _Return as r:
                self.touch(sc)
                return r.value
            self.touch(sc)
            return None
        except EvalError:
            if force or self.in_canon or sc.kind == "lambda" or (sc.parent is not None and sc.parent.kind not in ("module", "class")):
                raise
            # a repository function whose body cannot be interpreted is an opaque function (heap and decisions rolled back)
            self.restore(snap)
            return self.call_opaque_repo(f, args, kwargs, bound)
        finally:
            self.depth -= 1

    def call_opaque_repo(self, f: Closure, args, kwargs, bound=None):
        sc = f.scope
        ps = sc.params()
        fn = T("func", (sc.qualname,), ("func", sc.qualname))
        if sc.has_varargs() or sc.has_kwargs() or any(isinstance(a, T) and a.op == "star" for a in args):
            return self.opaque(fn, args, kwargs)
        env = Env(sc, None)
        try:
            self.bind_params(sc, env, args, kwargs, f.env)
        except EvalError:
            return self.opaque(fn, args, kwargs)
        return self.opaque(fn, [env.vars[p_] for p_ in ps + sc.kwonly()], {}, params=ps + sc.kwonly())

    def call_ext(self, name, args, kwargs):
        if name in TRANSPARENT:
            if not args:
                # jit(static_argnums=...) used as decorator factory
                return Partial(self.ext(name), [], kwargs)
            return args[0]
        if name in ("functools.partial", "jax.tree_util.Partial"):
            if not args:
                raise Crash("partial() without a callable")
            return Partial(args[0], args[1:], kwargs)
        if name == "jax.vjp":
            if not args or "has_aux" in kwargs:
                raise EvalError("vjp with auxiliary output")
            f, primals = args[0], tuple(args[1:])
            if not primals:
                raise Crash("vjp without primal arguments")
            out = self.call(f, list(primals), {})
            return (out, Pullback(f, primals, out))
        if name == "jax.jvp":
            if kwargs or len(args) != 3:
                raise EvalError("jvp call shape")
            f, primals, tangents = args
            pr, tg = tuple(self.iterate(primals)), tuple(self.iterate(tangents))
            if len(pr) != len(tg):
                raise Crash("jvp: primals and tangents differ in length")
            out = self.call(f, list(pr), {})
            return (out, self.mk_deriv("jvp", f, pr, tg))
        if name == "collections.namedtuple":
            fields = kwargs.get("field_names", args[1] if len(args) > 1 else None)
            if isinstance(fields, str):
                fields = fields.replace(",", " ").split()
            if not isinstance(fields, (list, tuple)) or not all(isinstance(x, str) for x in fields):
                raise EvalError("namedtuple with non-literal fields")
            d = kwargs.get("defaults", ())
            return NTClass(args[0] if args and isinstance(args[0], str) else "?", fields, tuple(d) if d is not None else ())
        if name == "builtins.print":
            return None
        last = name.split(".")[-1]
        if name in ("builtins.str", "builtins.int", "builtins.float", "builtins.bool", "builtins.abs", "builtins.repr", "builtins.min", "builtins.max",
                    "builtins.sum", "builtins.sorted", "builtins.any", "builtins.all") and not kwargs:
            flat = []
            for x in args:
                flat += list(x) if isinstance(x, (tuple, list)) else [x]
            if args and all(x is None or isinstance(x, (bool, int, float, str)) for x in flat) and not (name == "builtins.float" and isinstance(args[0], str)):
                try:
                    r = getattr(_bi, last)(*args)
                except (TypeError, ValueError):
                    raise Crash(f"{last}() of these constants raises")
                return list(r) if last == "sorted" else r
        if name.startswith(("jax.numpy.", "numpy.")):
            try:
                if last == "broadcast_to" and len(args) + len(kwargs) == 2:
                    r = self.as_broadcast(args[0], args[1] if len(args) > 1 else kwargs.get("shape"))
                    if r is not None:
                        return r
                if last == "repeat" and args and len(args) <= 3 and set(kwargs) <= {"repeats", "axis"}:
                    reps = args[1] if len(args) > 1 else kwargs.get("repeats")
                    axis = args[2] if len(args) > 2 else kwargs.get("axis")
                    x0 = self.strip_newaxis(args[0])
                    if x0 is not None and reps is not None and isinstance(axis, int) and not isinstance(axis, bool) and axis == 0:
                        return self.mk_bcast(x0, reps)
                if last == "negative" and len(args) == 1 and not kwargs:
                    v = args[0]
                    if isinstance(v, (int, float)) and not isinstance(v, bool):
                        return -v
                    if isinstance(v, T) and v.op == "un" and v.args[0] == "-":
                        return v.args[1]
                    return self.mk("un", ("-", v))
                if last in ("asarray", "array") and len(args) == 1 and not kwargs and isinstance(args[0], T):
                    return args[0]              # the same values (no dtype requested)
                if last == "shape" and len(args) == 1 and not kwargs and isinstance(args[0], T):
                    return self.mk("attr", (args[0], "shape"))
            except EvalError:
                pass
        if name == "builtins.range":
            if all(isinstance(a, int) for a in args):
                return list(range(*args))
            return self.opaque(self.ext(name), args, kwargs)
        if name == "builtins.len":
            a = self.deref(args[0])
            if self.typed(a) is not None:
                return len(self.typed(a)[1])
            if isinstance(a, (tuple, list, dict, str)):
                return len(a)
            if isinstance(a, Rec):
                return len(a.values)
            if isinstance(a, T) and len(args) == 1 and not kwargs:
                return self.dim(a, 0)                 # the length of an array is its leading extent
            return self.opaque(self.ext(name), args, kwargs)
        if name in ("builtins.tuple", "builtins.list"):
            if not args:
                return () if name.endswith("tuple") else []
            try:
                it = self.iterate(args[0])
            except EvalError:
                if name.endswith("tuple") and self.shape_parts(args[0]) is not None:
                    return args[0]                    # tuple(x.shape) is x.shape
                return self.opaque(self.ext(name), args, kwargs)
            return tuple(it) if name.endswith("tuple") else list(it)
        if name == "builtins.enumerate":
            return list(enumerate(self.iterate(args[0]), *args[1:]))
        if name == "builtins.zip":
            return list(zip(*[self.iterate(a) for a in args]))
        if name == "builtins.reversed":
            return list(reversed(self.iterate(args[0])))
        if name == "builtins.dict":
            if not args:
                return dict(kwargs)
            raise EvalError("dict(...)")
        if name == "builtins.float" and len(args) == 1 and isinstance(args[0], str):
            s = args[0].strip().lower().lstrip("+")
            if s in ("inf", "infinity"):
                return self.ext("math.inf")
        if name == "builtins.isinstance":
            raise EvalError("isinstance on symbolic data")
        if name == "builtins.getattr" and len(args) >= 2 and isinstance(args[1], str):
            if len(args) == 3:
                try:
                    return self.getattr(args[0], args[1])
                except Crash:
                    return args[2]
            return self.getattr(args[0], args[1])
        if name == "builtins.setattr" and len(args) == 3 and isinstance(args[1], str):
            self.setattr(args[0], args[1], args[2])
            return None
        if name == "builtins.hasattr":
            raise EvalError("hasattr on symbolic data")
        if name == "builtins.callable":
            return isinstance(args[0], (Closure, Bound, Partial, Pullback)) or self.opaque(self.ext(name), args, kwargs)
        if name == "<register>":
            return None
        if name in EXT_SIGS:
            sig = EXT_SIGS[name]
            names = [n for n, _ in sig]
            if len(args) <= len(sig) and all(k in names for k in kwargs):
                vals = dict(zip(names, args))
                dup = [k for k in kwargs if k in vals]
                if dup:
                    raise Crash(f"{name}: multiple values for `{dup[0]}`")
                vals.update(kwargs)
                full = []
                for n_, d in sig:
                    if n_ in vals:
                        full.append(vals[n_])
                    elif d is _REQ:
                        raise Crash(f"{name}: missing `{n_}`")
                    else:
                        full.append(d)
                return self.opaque(self.ext(name), full, {})
        return self.opaque(self.ext(name), args, kwargs)

    # ------------------------------------------------------------------ statements
    def block(self, body, env):
        for st in body:
            self.stmt(st, env)

    def stmt(self, st, env):
        self.steps += 1
        if self.steps > self.max_steps:
            raise EvalError("step budget exhausted")
        if isinstance(st, ast.Assign):
            v = self.eval(st.value, env)
            for t in st.targets:
                self.assign(t, v, env)
        elif isinstance(st, ast.AnnAssign):
            if st.value is not None:
                self.assign(st.target, self.eval(st.value, env), env)
        elif isinstance(st, ast.AugAssign):
            load = ast.copy_location(type(st.target)(**{k: getattr(st.target, k) for k in st.target._fields if k != "ctx"}, ctx=ast.Load()), st.target) \
                if isinstance(st.target, (ast.Name, ast.Attribute, ast.Subscript)) else None
            if load is None:
                raise EvalError("augmented assignment target")
            cur = self.eval(load, env)
            v = self.binop(self._BIN[type(st.op)], cur, self.eval(st.value, env))
            self.assign(st.target, v, env)
        elif isinstance(st, ast.Return):
            raise _Return(self.eval(st.value, env) if st.value is not None else None)
        elif isinstance(st, ast.If):
            self.block(st.body if self.truth(self.eval(st.test, env)) else st.orelse, env)
        elif isinstance(st, ast.For):
            broke = False
            itv = self.eval(st.iter, env)
            try:
                items = self.iterate(itv)
                generic = False
            except EvalError:
                if not self.loop_once or self.depth > 1:
                    raise                      # the generic iteration is for the loop of the analysed function itself, not for its helpers
                items = [self.sym(f"loop#{len(self.loop_done)}")]
                generic = True
            for x in items:
                self.assign(st.target, x, env)
                try:
                    self.block(st.body, env)
                except _Break:
                    broke = True
                    break
                except _Continue:
                    continue
                if generic:
                    self.loop_done.append(dict(env.vars))
            if not broke:
                self.block(st.orelse, env)
        elif isinstance(st, ast.FunctionDef):
            sc = self.repo.scope_of(st)
            v = Closure(sc, env)
            for d in reversed(st.decorator_list):
                v = self.call(self.eval(d, env), [v], {})
            env.vars[st.name] = v
        elif isinstance(st, ast.Expr):
            if not isinstance(st.value, ast.Constant):
                self.eval(st.value, env)
        elif isinstance(st, ast.Import):
            for al in st.names:
                top = al.name if al.asname else al.name.split(".")[0]
                m = self.repo.modules.get(top)
                env.vars[al.asname or top] = ModuleV(m) if m else self.ext(top)
        elif isinstance(st, ast.ImportFrom):
            root = env
            while root.parent is not None:
                root = root.parent
            modname = st.module or ""
            if st.level:
                base = root.scope.module.name.rsplit(".", st.level)[0]
                modname = base + ("." + modname if modname else "")
            for al in st.names:
                if al.name == "*":
                    raise EvalError("star import inside a function")
                full = f"{modname}.{al.name}"
                if full in self.repo.modules:
                    v = ModuleV(self.repo.modules[full])
                elif modname in self.repo.modules:
                    v = self.module_value(self.repo.modules[modname], al.name)
                else:
                    v = self.ext(full)
                env.vars[al.asname or al.name] = v
        elif isinstance(st, (ast.Pass, ast.Global, ast.Nonlocal)):
            return
        elif isinstance(st, ast.With):
            # a context manager of the numerical libraries (named scope, config override) does not change the values computed in its body
            for it in st.items:
                cm = self.eval(it.context_expr, env)
                if it.optional_vars is not None:
                    self.assign(it.optional_vars, self.mk("entered", (cm,)), env)
            self.block(st.body, env)
        elif isinstance(st, ast.Try):
            try:
                self.block(st.body, env)
            except (Crash, Raised) as ex:
                if st.handlers:
                    raise EvalError(f"exception inside try/except ({str(ex)[:60]}): which handler runs is not decided")
                raise
            self.block(st.orelse, env)
            self.block(st.finalbody, env)
        elif isinstance(st, ast.Match):
            subj = self.eval(st.subject, env)
            for case in st.cases:
                if self.match_pattern(case.pattern, subj, env) and (case.guard is None or self.truth(self.eval(case.guard, env))):
                    self.block(case.body, env)
                    break
        elif isinstance(st, ast.Assert):
            return
        elif isinstance(st, ast.Delete):
            for t in st.targets:
                if isinstance(t, ast.Name):
                    env.vars.pop(t.id, None)
        elif isinstance(st, ast.Raise):
            raise Raised(norm_src(st)[:80])
        elif isinstance(st, ast.Break):
            raise _Break()
        elif isinstance(st, ast.Continue):
            raise _Continue()
        else:
            raise EvalError(f"statement {type(st).__name__}")

    def match_pattern(self, pat, subj, env):
        if isinstance(pat, ast.MatchValue):
            return self.truth(self.compare("==", subj, self.eval(pat.value, env)))
        if isinstance(pat, ast.MatchSingleton):
            return self.truth(self.compare("is", subj, pat.value))
        if isinstance(pat, ast.MatchOr):
            return any(self.match_pattern(q, subj, env) for q in pat.patterns)
        if isinstance(pat, ast.MatchAs):
            if pat.pattern is not None and not self.match_pattern(pat.pattern, subj, env):
                return False
            if pat.name is not None:
                env.vars[pat.name] = subj
            return True
        raise EvalError(f"match pattern {type(pat).__name__}")

    def assign(self, t, v, env):
        if isinstance(t, ast.Name):
            sc = env.scope
            if sc.kind in ("function", "lambda") and (t.id in sc.nonlocals_ or t.id in sc.globals_):
                e = env.parent.find(t.id) if env.parent is not None else None
                if e is None:
                    raise EvalError("nonlocal/global store")
                e.vars[t.id] = v
            else:
                env.vars[t.id] = v
        elif isinstance(t, (ast.Tuple, ast.List)):
            v = self.deref(v)
            if self.typed(v) is not None:
                v = self.as_rec(v)
            star = [i for i, x in enumerate(t.elts) if isinstance(x, ast.Starred)]
            if len(star) > 1:
                raise EvalError("several starred targets")
            nfix = len(t.elts) - len(star)
            if isinstance(v, (tuple, list, Rec)):
                vs = list(v.values) if isinstance(v, Rec) else list(v)
                if (not star and len(vs) != nfix) or (star and len(vs) < nfix):
                    raise Crash(f"cannot unpack {len(vs)} values into {len(t.elts)} targets")
                if star:
                    i = star[0]
                    k = len(vs) - (nfix - i)
                    vs = vs[:i] + [list(vs[i:k])] + vs[k:]
            elif isinstance(v, T):
                if not star and v.op == "attr" and v.args[1] == "shape":
                    self.ranks[self.canon(v.args[0])] = nfix          # `a, b = x.shape` runs only when x has two axes
                if star:
                    i = star[0]
                    after = nfix - i
                    vs = [self.mk("item", (v, j)) for j in range(i)] + [self.mk("item", (v, slice(i, -after if after else None)))] \
                        + [self.mk("item", (v, j - after)) for j in range(after)]
                else:
                    vs = [self.mk("item", (v, i)) for i in range(len(t.elts))]
            else:
                raise Crash(f"cannot unpack a {type(v).__name__}")
            for a, b in zip(t.elts, vs):
                self.assign(a.value if isinstance(a, ast.Starred) else a, b, env)
        elif isinstance(t, ast.Attribute):
            self.setattr(self.eval(t.value, env), t.attr, v)
        elif isinstance(t, ast.Subscript):
            base = self.eval(t.value, env)
            key = self.eval_index(t.slice, env)
            if isinstance(base, (dict, list)) and not isinstance(key, T):
                base[key] = v
            else:
                raise EvalError("subscript store")
        else:
            raise EvalError("assignment target")


# ------------------------------------------------------------------------------------------------ path enumeration

class Path:
    def __init__(self, interp, kind, value, info=""):
        self.I, self.kind, self.value, self.info = interp, kind, value, info     # kind: return | raise | crash | error
        self.trace = list(interp.trace)

    def decided(self, key):
        """decision taken on this path for the atom `key` (None when the atom was never tested)"""
        return self.I.known.get(key)


def paths(make_interp, run, limit=96):
    """Run `run(interp)` once per decision vector.  make_interp(plan) -> fresh Interp."""
    todo = [[]]
    out = []
    seen = set()
    while todo:
        plan = todo.pop()
        if tuple(plan) in seen:
            continue
        seen.add(tuple(plan))
        if len(out) >= limit:
            raise EvalError("too many paths")
        I = make_interp(plan)
        try:
            v = run(I)
            p = Path(I, "return", v)
        except Raised as ex:
            p = Path(I, "raise", None, str(ex))
        except Crash as ex:
            p = Path(I, "crash", None, str(ex))
        except (EvalError, RecursionError) as ex:
            p = Path(I, "error", None, str(ex))
        out.append(p)
        tr = p.trace
        for i in range(len(plan), len(tr)):
            todo.append([d for (_, d) in tr[:i]] + [not tr[i][1]])
    return out
