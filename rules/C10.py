"""C10 -- stress and tangent from autodiff match the energy's derivatives (derivative *wiring* only).

  W1  hand-written derivative rules: every custom_jvp function has a registered rule; its primal output is
      computed by calling the decorated function (higher derivatives attach); the scalar function handed to the
      tangent helper is the one used in the primal; safe_sqrt's rule returns a zero tangent for x <= 0 and
      v/(2 sqrt x) otherwise; the closed-form helpers that autodiff differentiates through satisfy their
      polynomial identities;
  W2  implicit differentiation of the scalar solve: find_root = custom_root(f, x0, solver, y/g(1));
  W3  slot agreement of every derivative operator: stress output is value_and_grad(L, k) with k the position of the
      displacement gradient in L(U, gradU, Q, X, dt) in all three mechanics factories; the flow stress is
      jax.grad(hardening) w.r.t. the plastic strain (argument 0); the plastic residual is d/d(eqps) of the
      incremental potential; the element stiffness is jax.hessian w.r.t. the element nodal field.
Not decided: agreement of delivered derivatives with finite differences (numerical).
"""
from __future__ import annotations

import ast

from optilint.model import dotted, FuncVal, ExtVal
from optilint.core import Incomplete
from optilint.expr import Algebra, NotPolynomial
from .common import src, same, calls_in, const_value
from . import C12, C17, tensorid

LEVEL = "other"
RULE_TEXT = "obligations = (custom derivative rule x protocol clause) + (derivative operator site x differentiated slot)"
EXPLANATION = ("custom_jvp / custom_root protocol checks and slot-index agreement for every derivative operator that produces stresses, "
               "tangents, flow stresses and plastic residuals. Whether the delivered numbers match finite differences is not decided.")

M = "optimism.Mechanics"


def run(ctx):
    for m in (M, "optimism.Math", "optimism.TensorMath", "optimism.ScalarRootFind", "optimism.material.J2Plastic", "optimism.material.Hardening"):
        ctx.need_module(m)
    ctx.guard(C12.jvp_wiring, ctx, "W1/T5-custom-jvp-wiring")
    ctx.guard(safe_sqrt, ctx)
    ctx.guard(tensorid.run_identities, ctx, "W1/T7-differentiated-helper-identities", ["inv", "detpIm1", "det", "deviator", "norm_of_deviator_squared"])
    ctx.guard(C17.o7, _Prefixed(ctx, "W2/"))
    from .common import settings_wiring
    ctx.guard(settings_wiring, ctx, "W2/T5-settings-wiring", "optimism.ScalarRootFind")
    ctx.guard(slots, ctx)
    ctx.guard(no_gradient_cut, ctx)
    ctx.trust("jax.grad / jacfwd / value_and_grad / hessian differentiate w.r.t. the positional argument given by argnums (default 0)")


class _Prefixed:
    """ctx proxy that renames the rule of obligations created by a shared rule function."""
    def __init__(self, ctx, prefix):
        self._c, self._p = ctx, prefix

    def __getattr__(self, k):
        return getattr(self._c, k)

    def decide(self, rule, *a, **kw):
        return self._c.decide(self._p + rule.split("/", 1)[-1], *a, **kw)

    def refuted(self, rule, *a, **kw):
        return self._c.refuted(self._p + rule.split("/", 1)[-1], *a, **kw)

    def undecided(self, rule, *a, **kw):
        return self._c.undecided(self._p + rule.split("/", 1)[-1], *a, **kw)

    def proved(self, rule, *a, **kw):
        return self._c.proved(self._p + rule.split("/", 1)[-1], *a, **kw)


def safe_sqrt(ctx):
    """The derivative rule registered for Math.safe_sqrt, interpreted on symbolic (x, v) in the three situations x > 0, x = 0, x < 0
    (optilint.tensoreval; the predicate of the selection is decided at the situation's sample, values stay symbolic): it must return
    (sqrt(x), v/(2 sqrt(x))) for x > 0 (also for a tiny x = 1e-300) and (sqrt(x), 0) otherwise -- whatever the selection is written with (lax.cond, where, nested defs ...)."""
    rule = "W1/T5-safe-sqrt-rule"
    from fractions import Fraction as F
    from optilint.tensoreval import Interp, Dual, EvalError, Raised, _A
    mod = ctx.need_module("optimism.Math")
    sq = ctx.need("optimism.Math:safe_sqrt")
    # the registered rule: the function decorated with safe_sqrt.defjvp (whatever its name)
    r = None
    for sc in ctx.repo.functions():
        if sc.module is mod and sc.kind == "function" and any(src(d).endswith("safe_sqrt.defjvp") for d in getattr(sc.node, "decorator_list", [])):
            r = sc
    if r is None:
        r = ctx.need("optimism.Math:safe_sqrt_jvp")
    ctx.touch(r)
    ctx.touch(sq)
    res = {}
    for tag, xv in (("x>0", F(4)), ("x>0 tiny", F(1, 10 ** 300)), ("x=0", F(0)), ("x<0", F(-1))):
        I = Interp(ctx.repo)

        def val(d, xv=xv):
            env = {"x": xv, "v": F(3)}
            if any(a not in env for a in d.atoms()):
                return None
            try:
                return _A.eval(d, env)
            except Exception:
                return None
        I.policy = val
        x, v = Dual(_A.atom("x")), Dual(_A.atom("v"))
        try:
            out = I.call(I.module_value(mod, r.name), [(x,), (v,)], {})
            f, df = out
            res[tag] = (I.num(f).a, I.num(df).a)
        except (EvalError, Raised, TypeError, ValueError, KeyError, AttributeError) as ex:
            ctx.undecided(rule, r, None, construct=f"safe_sqrt_jvp[{tag}]", detail=f"cannot interpret the derivative rule: {ex}")
            return
    try:
        root = I.num(I.call(I.module_value(mod, "safe_sqrt"), [Dual(_A.atom("x"))], {})).a
    except (EvalError, Raised, TypeError, ValueError, KeyError, AttributeError) as ex:
        ctx.undecided(rule, sq, None, construct="safe_sqrt", detail=f"cannot interpret safe_sqrt: {ex}")
        return
    vx = _A.atom("v")
    want_pos = _A.norm(vx / (_A.const(2) * root))
    bad = []
    for tag in ("x>0", "x>0 tiny"):
        if not _A.equal(res[tag][1], want_pos):
            bad.append(f"for {tag} (sample x = {'4' if tag == 'x>0' else '1e-300'}) the tangent is {res[tag][1]!r}, not v/(2 sqrt(x)) = {want_pos!r}")
    for tag in ("x=0", "x<0"):
        if not _A.equal(res[tag][1], _A.const(0)):
            bad.append(f"for {tag} the tangent is {res[tag][1]!r}, not 0 (the derivative of sqrt is infinite/NaN there and would poison every gradient through it)")
    ctx.decide(rule, not bad, r, None, construct="safe_sqrt_jvp", detail="tangent = v/(2 sqrt(x)) for x > 0 and 0 for x <= 0",
               bad_detail="safe_sqrt's derivative rule: " + "; ".join(bad))
    okp = all(_A.equal(res[t][0], root) for t in res)
    ctx.decide(rule, okp, r, None, construct="safe_sqrt_jvp:returns-(primal,tangent)", detail="the primal output is safe_sqrt(x) in every situation",
               bad_detail=f"the primal output of the derivative rule is {[repr(res[t][0]) for t in res]}, not safe_sqrt(x) = {root!r}")


def slots(ctx):
    rule = "W3/T5-derivative-slots"
    # stress output: value_and_grad(L, k), k = index of gradU
    adapter = ctx.need(f"{M}:strain_energy_density_to_lagrangian_density")
    L = [c for c in adapter.children if c.kind == "function"]
    if not L:
        raise Incomplete("Lagrangian adapter not found")
    lp = L[0].params()
    # gradU is the parameter forwarded as first argument of the density
    r = L[0].returns()
    gpos = None
    if r and isinstance(r[0], ast.Call) and r[0].args and isinstance(r[0].args[0], ast.Name):
        gpos = lp.index(r[0].args[0].id)
    n = 0
    for fac in ("create_mechanics_functions", "create_multi_block_mechanics_functions", "create_dynamics_functions"):
        fs = ctx.need(f"{M}:{fac}")
        for c in ast.walk(fs.node):
            if isinstance(c, ast.Call) and (dotted(c.func) or "") == "value_and_grad":
                n += 1
                k = const_value(c.args[1]) if len(c.args) > 1 else 0
                ctx.decide(rule, gpos is not None and k == gpos, fs, c, construct=f"{fac}:stress=d(L)/d(gradU)",
                           detail=f"value_and_grad(L, {k}); gradU is parameter {gpos} of L{tuple(lp)}",
                           bad_detail=f"{fac}: stress output differentiates L w.r.t. argument {k}, but the displacement gradient is argument {gpos} of L{tuple(lp)}")
    if n < 3:
        raise Incomplete(f"{n} value_and_grad sites found in the mechanics factories (3 expected)")
    # element hessian w.r.t. argument 0 (checked in C02 too)
    mod = ctx.need_module(M)
    bs = mod.scope.bindings.get("element_hess_func")
    ok = False
    if bs and isinstance(bs[-1].value, ast.Call) and (dotted(bs[-1].value.func) or "") == "hessian":
        a = bs[-1].value.args
        ok = len(a) == 1 or const_value(a[1]) == 0
    ctx.decide(rule, ok, mod.scope, bs[-1].node if bs else None, construct="element_hess_func:w.r.t.-nodal-field", detail="hessian(..., argnums=0)",
               bad_detail="the element stiffness is not the Hessian w.r.t. argument 0 (the element nodal field)")
    # hardening: flow stress = d(hardening)/d(eqps)
    hm = ctx.need("optimism.material.Hardening:create_hardening_model")
    rets = hm.returns()
    ok = False
    shown = src(rets[0]) if rets else "?"
    if rets and isinstance(rets[0], ast.Call) and len(rets[0].args) == 2:
        f0, f1 = rets[0].args
        if isinstance(f1, ast.Call) and (dotted(f1.func) or "").endswith("grad") and same(f1.args[0], f0):
            k = const_value(f1.args[1]) if len(f1.args) > 1 else 0
            inner = [c for c in hm.children if c.kind == "function" and c.name == src(f0)]
            ok = k == 0 and bool(inner) and inner[0].params()[0].lower().startswith("eqps")
    ctx.decide(rule, ok, hm, rets[0] if rets else None, construct="flow-stress=d(hardening)/d(eqps)", detail=shown,
               bad_detail=f"hardening model is `{shown}`; the flow stress must be jax.grad of the hardening energy w.r.t. its first argument (the plastic strain)")
    # J2 residual
    j2 = ctx.need_module("optimism.material.J2Plastic")
    ip = ctx.need("optimism.material.J2Plastic:incremental_potential")
    bs = j2.scope.bindings.get("r")
    ok = False
    shown = "?"
    if bs and isinstance(bs[-1].value, ast.Call):
        v = bs[-1].value
        shown = src(v)
        k = const_value(v.args[1]) if len(v.args) > 1 else 0
        ok = (dotted(v.func) or "").split(".")[-1] in ("jacfwd", "grad", "jacrev") and same(v.args[0], "incremental_potential") and \
            "eqps" in ip.params() and k == ip.params().index("eqps")
    ctx.decide(rule, ok, j2.scope, bs[-1].node if bs else None, construct="plastic-residual=d(potential)/d(eqps)", detail=shown,
               bad_detail=f"`r = {shown}` is not the derivative of incremental_potential w.r.t. its eqps argument")
    # hardening tuple slots used consistently in J2: [ENERGY_DENSITY]=0 is the energy, [FLOW_STRESS]=1 the derivative
    from optilint.tensoreval import Interp
    I = Interp(ctx.repo)
    try:
        e_i, f_i = I.module_value(j2, "ENERGY_DENSITY"), I.module_value(j2, "FLOW_STRESS")
        ok = (e_i, f_i) == (0, 1)
    except Exception:
        ok = None
        e_i = f_i = "?"
    ctx.decide(rule, ok, j2.scope, None, construct="hardening-tuple-slots", detail=f"ENERGY_DENSITY={e_i}, FLOW_STRESS={f_i} match HardeningModel(energy, flow stress)",
               bad_detail=f"J2Plastic indexes the hardening model with ENERGY_DENSITY={e_i}, FLOW_STRESS={f_i} but it is HardeningModel(energy, flow stress)")


CUTS = ("stop_gradient",)
CUSTOM = ("custom_jvp", "custom_vjp", "custom_root", "custom_linear_solve", "custom_gradient")


def _cut_sites(repo, scope):
    """Calls / references in `scope` that resolve to a gradient-cutting jax primitive."""
    from optilint.model import walk_local
    out = []
    for n in walk_local(scope.node):
        if isinstance(n, (ast.Attribute, ast.Name)) and isinstance(getattr(n, "ctx", None), ast.Load):
            d = dotted(n) or ""
            if d.split(".")[-1] in CUTS:
                out.append(n)
                continue
            if isinstance(n, ast.Name):
                for v in repo.resolve(n, scope):
                    if isinstance(v, ExtVal) and v.name.split(".")[-1] in CUTS:
                        out.append(n)
                        break
    return out


def no_gradient_cut(ctx):
    """W4: stress and tangent are jax derivatives of the energy density, so they are consistent with it exactly when nothing in
    the call cone of an energy density hides a dependence from autodiff: no stop_gradient, and no hand-written derivative rule
    other than the ones whose protocol W1/W2 check."""
    rule = "W4/T11-no-gradient-cut-in-energy-cone"
    from .materials import MODELS
    roots = []
    for mod, fac, kind in MODELS:
        roots.append(ctx.need(f"{mod}:{fac}"))
    for fac in ("create_mechanics_functions", "create_multi_block_mechanics_functions", "create_dynamics_functions"):
        roots.append(ctx.need(f"{M}:{fac}"))
    cone = ctx.cg.cone(roots)
    checked = set()
    for mname in ("optimism.TensorMath", "optimism.Math"):
        _, fns = C12._custom_jvp_functions(ctx, mname)
        checked |= {f.qualname for f in fns}
    checked.add("optimism.ScalarRootFind:find_root")
    n = 0
    for s in sorted(cone, key=lambda s: s.qualname):
        if s.kind in ("comp", "class", "module") or s.module.is_test:
            continue
        n += 1
        cuts = _cut_sites(ctx.repo, s)
        for c in cuts:
            ctx.refuted(rule, s, c, construct=f"stop_gradient-in:{s.qualname.split(':')[-1]}",
                        detail=f"`{src(c)}` in the call cone of an energy density: the dependence of the wrapped value on the strain is hidden from "
                               f"jax.grad / jax.hessian, so the delivered stress or tangent is not the derivative of the delivered energy")
        # hand-written derivative rules must be among the checked ones
        custom = []
        for d in getattr(s.node, "decorator_list", []):
            dd = (dotted(d.func) if isinstance(d, ast.Call) else dotted(d)) or ""
            if dd.split(".")[-1] in CUSTOM or any(isinstance(v, ExtVal) and v.name.split(".")[-1] in CUSTOM for v in ctx.repo.resolve(d, s.parent or s)):
                custom.append(dd)
        for c in ast.walk(s.node) if s.kind == "function" else []:
            if isinstance(c, ast.Call) and (dotted(c.func) or "").split(".")[-1] in CUSTOM[2:]:
                custom.append(dotted(c.func))
        if custom and s.qualname not in checked:
            ctx.refuted(rule, s, None, construct=f"unchecked-custom-derivative:{s.qualname.split(':')[-1]}",
                        detail=f"{s.qualname} carries a hand-written derivative rule ({', '.join(custom)}) that is not among the rules verified by W1/W2 "
                               f"({sorted(q.split(':')[-1] for q in checked)})")
        elif not cuts:
            ctx.proved(rule, s, None, construct="no-gradient-cut", detail="no stop_gradient, no unverified custom derivative rule")
    if n < 60:
        raise Incomplete(f"energy-density cone has only {n} scopes; resolver lost the entry points")
    # the matcher must recognise the construct it forbids (expected count on the tree is zero)
    import types
    probe = ast.parse("def f(x):\n    return jax.lax.stop_gradient(x) + lax.stop_gradient(x)\n").body[0]
    hits = [n_ for n_ in ast.walk(probe) if isinstance(n_, ast.Attribute) and (dotted(n_) or "").split(".")[-1] in CUTS]
    if len(hits) != 2:
        raise Incomplete("stop_gradient matcher self-check failed")


def variants(repo):
    from optilint.selftest import Variant, sub, sub_in_func, alpha_rename, reformat
    T = "optimism/TensorMath.py"
    Mth = "optimism/Math.py"
    Me = "optimism/Mechanics.py"
    H = "optimism/material/Hardening.py"
    J = "optimism/material/J2Plastic.py"
    S = "optimism/ScalarRootFind.py"
    return [
        Variant("primal recomputed in sqrt rule", T, sub_in_func("_sqrt_symm_jvp", "    primal_out = sqrt_symm(*primals)", "    primal_out = symmetric_matrix_function(primals[0], Math.safe_sqrt)"), "W1/T5-custom-jvp-wiring"),
        Variant("pow tangent with other exponent", T, sub_in_func("_pow_symm_jvp", "_symmetric_matrix_function_jvp_helper(lambda x: np.power(x, m),", "_symmetric_matrix_function_jvp_helper(lambda x: np.power(x, m - 1),"), "W1/T5-custom-jvp-wiring"),
        Variant("safe_sqrt nonzero tangent at 0", Mth, sub("                       lambda x: 0.,", "                       lambda x: 1.,"), "W1/T5-safe-sqrt-rule"),
        Variant("safe_sqrt guard strict", Mth, sub("    df = v * lax.cond( x <= 0,", "    df = v * lax.cond( x < 0,"), "W1/T5-safe-sqrt-rule"),
        Variant("safe_sqrt derivative factor", Mth, sub("                       lambda x: 0.5/f,", "                       lambda x: 1.0/f,"), "W1/T5-safe-sqrt-rule"),
        Variant("root finder tolerances swapped in get_settings", S, sub("    return Settings(max_iters, x_tol, r_tol)", "    return Settings(max_iters, r_tol, x_tol)"), "W2/T5-settings-wiring"),
        Variant("tangent solve", S, sub("lambda g, y: y/g(1.0)", "lambda g, y: y*g(1.0)"), "W2/T5-custom-root-wiring"),
        Variant("value_and_grad wrt U", Me, sub_in_func("create_mechanics_functions", "    output_constitutive = value_and_grad(output_lagrangian, 1)", "    output_constitutive = value_and_grad(output_lagrangian, 0)"), "W3/T5-derivative-slots"),
        Variant("flow stress wrt eqpsOld", H, sub("    return HardeningModel(hardening, jax.grad(hardening))", "    return HardeningModel(hardening, jax.grad(hardening, 1))"), "W3/T5-derivative-slots"),
        Variant("residual wrt eqpsOld", J, sub("r = jax.jacfwd(incremental_potential, 1)", "r = jax.jacfwd(incremental_potential, 2)"), "W3/T5-derivative-slots"),
        Variant("hardening slots swapped", J, sub("ENERGY_DENSITY  = 0\nFLOW_STRESS     = 1", "ENERGY_DENSITY  = 1\nFLOW_STRESS     = 0"), "W3/T5-derivative-slots"),
        Variant("stop_gradient on the viscous increment", "optimism/material/MultiBranchHyperViscoelastic.py",
                sub("      delta_Ev = _compute_state_increment(Ee_trial, dt, props, _return_Gneq_id_for_branch(n))",
                    "      delta_Ev = jax.lax.stop_gradient(_compute_state_increment(Ee_trial, dt, props, _return_Gneq_id_for_branch(n)))"), "W4/T11-no-gradient-cut-in-energy-cone"),
        Variant("stop_gradient on the plastic multiplier", J, sub("def compute_elastic_strain(", "from jax.lax import stop_gradient as _sg\ndef _frozen(x):\n    return _sg(x)\ndef compute_elastic_strain("), None),
        Variant("reformat Math", Mth, reformat(), None),
        Variant("reformat Mechanics", Me, reformat(), None),
    ]
