"""C10 -- stress and tangent from autodiff match the energy's derivatives (derivative *wiring* only).

  W1  hand-written derivative rules: every custom_jvp function has a registered rule; its primal output is
      computed by calling the decorated function (higher derivatives attach); the scalar function handed to the
      tangent helper is the one used in the primal; safe_sqrt's rule returns a zero tangent for x <= 0 and
      v/(2 sqrt x) otherwise; the closed-form helpers that autodiff differentiates through satisfy their
      polynomial identities;
  W2  implicit differentiation of the scalar solve: find_root = custom_root(f, x0, solver, y/g(1));
  W3  slot agreement of every derivative operator: stress output is value_and_grad(L, k) with k the position of the
      displacement gradient in L(U, gradU, Q, X, dt) in all three mechanics factories; the flow stress is
      jax.grad(hardening) w.r.t. the plastic strain (argument 0); the plastic residual is d/d(eqps) of the
      incremental potential; the element stiffness is jax.hessian w.r.t. the element nodal field.
Not decided: agreement of delivered derivatives with finite differences (numerical).
"""
from __future__ import annotations

import ast

from optilint.model import dotted, FuncVal, ExtVal
from optilint.core import Incomplete
from optilint.expr import Algebra, NotPolynomial
from .common import src, same, calls_in, const_value
from . import C12, C17, tensorid

LEVEL = "other"
RULE_TEXT = "obligations = (custom derivative rule x protocol clause) + (derivative operator site x differentiated slot)"
EXPLANATION = ("custom_jvp / custom_root protocol checks and slot-index agreement for every derivative operator that produces stresses, "
               "tangents, flow stresses and plastic residuals. Whether the delivered numbers match finite differences is not decided.")

M = "optimism.Mechanics"


def run(ctx):
    for m in (M, "optimism.Math", "optimism.TensorMath", "optimism.ScalarRootFind", "optimism.material.J2Plastic", "optimism.material.Hardening"):
        ctx.need_module(m)
    ctx.guard(C12.jvp_wiring, ctx, "W1/T5-custom-jvp-wiring")
    ctx.guard(safe_sqrt, ctx)
    ctx.guard(tensorid.run_identities, ctx, "W1/T7-differentiated-helper-identities", ["inv", "detpIm1", "det", "deviator", "norm_of_deviator_squared"])
    ctx.guard(C17.o7, _Prefixed(ctx, "W2/"))
    from .common import settings_wiring
    ctx.guard(settings_wiring, ctx, "W2/T5-settings-wiring", "optimism.ScalarRootFind")
    ctx.guard(slots, ctx)
    ctx.guard(no_gradient_cut, ctx)
    ctx.trust("jax.grad / jacfwd / value_and_grad / hessian differentiate w.r.t. the positional argument given by argnums (default 0)")


class _Prefixed:
    """ctx proxy that renames the rule of obligations created by a shared rule function."""
    def __init__(self, ctx, prefix):
        self._c, self._p = ctx, prefix

    def __getattr__(self, k):
        return getattr(self._c, k)

    def decide(self, rule, *a, **kw):
        return self._c.decide(self._p + rule.split("/", 1)[-1], *a, **kw)

    def refuted(self, rule, *a, **kw):
        return self._c.refuted(self._p + rule.split("/", 1)[-1], *a, **kw)

    def undecided(self, rule, *a, **kw):
        return self._c.undecided(self._p + rule.split("/", 1)[-1], *a, **kw)

    def proved(self, rule, *a, **kw):
        return self._c.proved(self._p + rule.split("/", 1)[-1], *a, **kw)


def safe_sqrt(ctx):
    """The derivative rule registered for Math.safe_sqrt, interpreted on symbolic (x, v) in the three situations x > 0, x = 0, x < 0
    (optilint.tensoreval; the predicate of the selection is decided at the situation's sample, values stay symbolic): it must return
    (sqrt(x), v/(2 sqrt(x))) for x > 0 (also for a tiny x = 1e-300) and (sqrt(x), 0) otherwise -- whatever the selection is written with (lax.cond, where, nested defs ...)."""
    rule = "W1/T5-safe-sqrt-rule"
    from fractions import Fraction as F
    from optilint.tensoreval import Interp, Dual, EvalError, Raised, _A
    mod = ctx.need_module("optimism.Math")
    sq = ctx.need("optimism.Math:safe_sqrt")
    # the registered rule: the function decorated with safe_sqrt.defjvp (whatever its name)
    r = None
    for sc in ctx.repo.functions():
        if sc.module is mod and sc.kind == "function" and any(src(d).endswith("safe_sqrt.defjvp") for d in getattr(sc.node, "decorator_list", [])):
            r = sc
    if r is None:
        r = ctx.need("optimism.Math:safe_sqrt_jvp")
    ctx.touch(r)
    ctx.touch(sq)
    res = {}
    for tag, xv in (("x>0", F(4)), ("x>0 tiny", F(1, 10 ** 300)), ("x=0", F(0)), ("x<0", F(-1))):
        I = Interp(ctx.repo)

        def val(d, xv=xv):
            env = {"x": xv, "v": F(3)}
            if any(a not in env for a in d.atoms()):
                return None
            try:
                return _A.eval(d, env)
            except Exception:
                return None
        I.policy = val
        x, v = Dual(_A.atom("x")), Dual(_A.atom("v"))
        try:
            out = I.call(I.module_value(mod, r.name), [(x,), (v,)], {})
            f, df = out
            res[tag] = (I.num(f).a, I.num(df).a)
        except (EvalError, Raised, TypeError, ValueError, KeyError, AttributeError) as ex:
            ctx.undecided(rule, r, None, construct=f"safe_sqrt_jvp[{tag}]", detail=f"cannot interpret the derivative rule: {ex}")
            return
    try:
        root = I.num(I.call(I.module_value(mod, "safe_sqrt"), [Dual(_A.atom("x"))], {})).a
    except (EvalError, Raised, TypeError, ValueError, KeyError, AttributeError) as ex:
        ctx.undecided(rule, sq, None, construct="safe_sqrt", detail=f"cannot interpret safe_sqrt: {ex}")
        return
    vx = _A.atom("v")
    want_pos = _A.norm(vx / (_A.const(2) * root))
    bad = []
    for tag in ("x>0", "x>0 tiny"):
        if not _A.equal(res[tag][1], want_pos):
            bad.append(f"for {tag} (sample x = {'4' if tag == 'x>0' else '1e-300'}) the tangent is {res[tag][1]!r}, not v/(2 sqrt(x)) = {want_pos!r}")
    for tag in ("x=0", "x<0"):
        if not _A.equal(res[tag][1], _A.const(0)):
            bad.append(f"for {tag} the tangent is {res[tag][1]!r}, not 0 (the derivative of sqrt is infinite/NaN there and would poison every gradient through it)")
    ctx.decide(rule, not bad, r, None, construct="safe_sqrt_jvp", detail="tangent = v/(2 sqrt(x)) for x > 0 and 0 for x <= 0",
               bad_detail="safe_sqrt's derivative rule: " + "; ".join(bad))
    okp = all(_A.equal(res[t][0], root) for t in res)
    ctx.decide(rule, okp, r, None, construct="safe_sqrt_jvp:returns-(primal,tangent)", detail="the primal output is safe_sqrt(x) in every situation",
               bad_detail=f"the primal output of the derivative rule is {[repr(res[t][0]) for t in res]}, not safe_sqrt(x) = {root!r}")


def _argnum(call):
    """differentiated position of a jax derivative operator call: second positional argument or `argnums=`, default 0"""
    if len(call.args) > 1:
        return const_value(call.args[1])
    for k in call.keywords:
        if k.arg == "argnums":
            return const_value(k.value)
    return 0


def _calls_named(scope_node, names):
    return [c for c in ast.walk(scope_node) if isinstance(c, ast.Call) and (dotted(c.func) or "").split(".")[-1] in names]


def slots(ctx):
    """Slot agreement of every derivative operator, decided on *values*: the adapters and factories are interpreted
    (optilint.tensoreval) with recording stand-ins, so closures, lambdas, functools.partial of module-level functions, keyword
    arguments and renamed locals are all the same to the rule."""
    rule = "W3/T5-derivative-slots"
    from optilint.tensoreval import Interp, Dual, PyFunc, EvalError, Raised, _A
    ERR = (EvalError, Raised, KeyError, IndexError, TypeError, AttributeError, ValueError, ZeroDivisionError, RecursionError)
    mod = ctx.need_module(M)
    # --- stress output: value_and_grad(L, k), k = the position at which the Lagrangian-density adapter receives the displacement gradient.
    # The adapter is called with a recording strain-energy density; the Lagrangian it returns is called with five marked arguments.
    adapter = ctx.need(f"{M}:strain_energy_density_to_lagrangian_density")
    gpos, n_par = None, None
    try:
        I = Interp(ctx.repo)
        seen = []
        sed = PyFunc("strain_energy_density", lambda it, a, k: (seen.append(list(a)), Dual(0))[1])
        L = I.call(I.module_value(mod, adapter.name), [sed], {})
        marks = [Dual(_A.atom(f"@arg{k}")) for k in range(5)]
        I.call(L, marks, {})
        if len(seen) == 1 and seen[0]:
            hit = [k for k, m_ in enumerate(marks) if seen[0][0] is m_]
            gpos = hit[0] if len(hit) == 1 else None
    except ERR as ex:
        ctx.undecided(rule, adapter, None, construct="lagrangian-adapter", detail=f"cannot interpret the Lagrangian adapter: {ex}")
    n = 0
    for fs in [s_ for s_ in ctx.repo.functions() if s_.module is mod and s_.kind == "function" and s_.parent is mod.scope]:
        for c in _calls_named(fs.node, ("value_and_grad",)):
            if not c.args:
                continue
            # provenance of the differentiated function: a Lagrangian produced by the adapter (directly or through a local name)
            src_call = c.args[0]
            if isinstance(src_call, ast.Name):
                defs = [a.value for a in ast.walk(fs.node) if isinstance(a, ast.Assign) and any(isinstance(t, ast.Name) and t.id == src_call.id for t in a.targets)]
                src_call = defs[-1] if defs else None
            from_adapter = isinstance(src_call, ast.Call) and any(isinstance(v, FuncVal) and v.scope is adapter for v in ctx.repo.resolve(src_call.func, fs))
            k = _argnum(c)
            if gpos is None or k is None:
                ctx.undecided(rule, fs, c, construct=f"{fs.name}:stress=d(L)/d(gradU)", detail=f"value_and_grad(L, {k}); position of gradU in L: {gpos}")
                continue
            if not from_adapter:
                # not a Lagrangian made by the adapter.  The material interface itself -- model.compute_energy_density(dispGrad, state, dt) -- takes
                # the displacement gradient first; anything else is not understood (the position of gradU in it is unknown)
                if isinstance(src_call, ast.Attribute) and src_call.attr == "compute_energy_density" and k is not None:
                    n += 1
                    ctx.decide(rule, k == 0, fs, c, construct=f"{fs.name}:stress=d(W)/d(dispGrad)",
                               detail=f"value_and_grad({src(src_call)}, {k}): the material energy density takes the displacement gradient as argument 0",
                               bad_detail=f"{fs.name}: `{src(c)[:90]}` differentiates the material energy density w.r.t. argument {k}; the displacement gradient is "
                                          f"argument 0 of compute_energy_density(dispGrad, state, dt) (argument 1 is the internal state), so the reported stress is not dW/d(grad u)")
                else:
                    ctx.undecided(rule, fs, c, construct=f"{fs.name}:stress=d(L)/d(gradU)", detail=f"value_and_grad of a function that is not visibly a Lagrangian density, w.r.t. argument {k}")
                continue
            n += 1
            ctx.decide(rule, k == gpos, fs, c, construct=f"{fs.name}:stress=d(L)/d(gradU)",
                       detail=f"value_and_grad(L, {k}); the adapter hands argument {gpos} of L to the strain energy density as displacement gradient",
                       bad_detail=f"{fs.name}: stress output differentiates L w.r.t. argument {k}, but the displacement gradient is argument {gpos} of the Lagrangian density "
                                  f"(the adapter passes that argument to the strain energy density)")
    if n < 1:
        raise Incomplete(f"{n} value_and_grad sites found in the mechanics factories")
    # --- element stiffness: Hessian w.r.t. the element nodal field = the argument that the element integrator interpolates (argument 0)
    hs = [c for c in _calls_named(mod.tree, ("hessian",)) if c.args]
    if not hs:
        ctx.undecided(rule, mod.scope, None, construct="element_hess_func:w.r.t.-nodal-field", detail="no jax.hessian call found in Mechanics")
    for c in hs:
        k = _argnum(c)
        tgt = [v for v in ctx.repo.resolve(c.args[0], mod.scope) if isinstance(v, FuncVal)]
        p0 = tgt[0].scope.params()[0] if tgt and tgt[0].scope.params() else None
        ctx.decide(rule, (k == 0) if k is not None else None, mod.scope, c, construct="element_hess_func:w.r.t.-nodal-field",
                   detail=f"hessian(..., argnums={k}) of {src(c.args[0])}; argument 0 is `{p0}`",
                   bad_detail=f"the element stiffness `{src(c)}` is not the Hessian w.r.t. argument 0 (the element nodal field `{p0}`)")
    _hardening_and_j2_slots(ctx, rule)


def _hardening_and_j2_slots(ctx, rule):
    """flow stress = d(hardening energy)/d(eqps); plastic residual = d(energy at the updated state)/d(eqps); the J2 model reads the energy
    and the flow stress from the right members of the hardening model.  All decided on interpreted values (rules/C09_sym.py)."""
    from optilint.tensoreval import Dual, EvalError, Raised, _A, rat_is_zero, rat_sign, ONE
    from optilint.expr import simplify
    from . import C09_sym as sym
    from . import C09
    from . import materials as mt
    ERR = sym.INTERP_ERRORS
    hm_sc = ctx.need("optimism.material.Hardening:create_hardening_model")
    hmod = ctx.need_module("optimism.material.Hardening")
    h = sym.Harness(ctx)
    e, eo, dt = sym.atom("@e"), sym.atom("@eo"), sym.atom("dt")

    def hardening(rate):
        I, _, _ = h.interp()
        I.positive.update({"@e", "@eo"})
        sc = h.scenario(None, rate=rate)       # the same constants as the J2 scenarios below (linear hardening, optional constants present)
        hm = I.call(I.module_value(hmod, hm_sc.name), [h.props(I, sc)], {})
        fields = list(getattr(hm, "fields", []))
        en = [k for k, f_ in enumerate(fields) if "energy" in f_.lower()]
        fl = [k for k, f_ in enumerate(fields) if "stress" in f_.lower()]
        if len(en) != 1 or len(fl) != 1:
            raise EvalError(f"members of the hardening model not identified: {fields}")
        return I, hm, en[0], fl[0]
    # flow stress is the derivative of the hardening energy w.r.t. its first argument; with rate sensitivity the derivative w.r.t. the old
    # plastic strain differs, without it the two differ as well (the free energy does not depend on the old value)
    bad, shown = [], ""
    try:
        for rate in (False, True):
            if rate and "rate sensitivity" not in h.presence | h.optional:
                continue
            I, hm, k_en, k_fl = hardening(rate)
            W = I.num(I.call(hm.values[k_en], [Dual(e.a, ONE), eo, dt], {}))
            Y = I.num(I.call(hm.values[k_fl], [e, eo, dt], {}))
            shown = f"members {hm.fields}"
            if not sym.d_equal(Dual(W.b), Y):
                bad.append(f"{'rate-sensitive' if rate else 'rate-independent'} linear hardening: flow stress member returns {sym.short(Y)}, "
                           f"d(energy member)/d(eqps) = {sym.short(Dual(W.b))}")
        ctx.decide(rule, not bad, hm_sc, None, construct="flow-stress=d(hardening)/d(eqps)", detail=f"flow stress(e, e_old, dt) == d/de energy(e, e_old, dt); {shown}",
                   bad_detail="the flow stress of the hardening model is not the derivative of its energy w.r.t. the plastic strain (first argument): " + "; ".join(bad))
    except ERR as ex:
        ctx.undecided(rule, hm_sc, None, construct="flow-stress=d(hardening)/d(eqps)", detail=f"cannot interpret the hardening model: {ex}")
    # J2 residual: stationarity of the energy the model exposes (shared with C09.D3)
    j2 = ctx.need_module("optimism.material.J2Plastic")
    try:
        kin = C09._poly_additive_option(h)
        n_y, bad = 0, []
        for fam in sym.FAMILIES:
            for rate in (False, True):
                if rate and "rate sensitivity" not in h.presence | h.optional:
                    continue
                ny, b_ = C09.stationarity_case(h, kin, fam, "H>0", rate)
                n_y += ny
                bad += b_
        if not n_y:
            raise EvalError("no yielding path")
        ctx.decide(rule, not bad, h.fscope, None, construct="plastic-residual=d(potential)/d(eqps)",
                   detail=f"the function handed to the root finder is k * d(energy density at the updated state)/d(eqps), k > 0 ({n_y} yielding paths)",
                   bad_detail="the plastic residual is not the derivative of the incremental potential w.r.t. the new equivalent plastic strain: " + "; ".join(bad[:2]))
    except (Incomplete,) + ERR as ex:
        ctx.undecided(rule, h.fscope, None, construct="plastic-residual=d(potential)/d(eqps)", detail=str(ex)[:300])
    # members of the hardening model as used by J2: at zero strain the energy density is the hardening energy member at the old plastic
    # strain; the yield test at zero strain amplitude compares with the flow stress member (up to a non-negative tolerance)
    try:
        kin = C09._poly_additive_option(h)
        sc = h.scenario(kin)
        I, hm, k_en, k_fl = hardening(False)
        s0 = sym.atom("s0")
        I.positive.add("s0")
        W_h = I.num(I.call(hm.values[k_en], [s0, s0, dt], {}))
        Y_h = I.num(I.call(hm.values[k_fl], [s0, s0, dt], {}))
        state = h.make_state(kin, s0, sym.zeros3())
        bad = []
        rest = [p for p in h.paths(sc, "compute_energy_density", [sym.zeros3(), state, dt]) if p.error is None and not p.value.solves]
        if not rest:
            raise EvalError("no elastic path at zero strain")
        for p in rest:
            W0 = p.value.interp.num(p.value.value)
            if not sym.d_equal(W0, W_h):
                bad.append(f"energy density at zero elastic strain is {sym.short(W0)}, the energy member of the hardening model gives {sym.short(W_h)}")
                break
        if bad:
            # already a derived contradiction; the second half (which needs the residual, i.e. a derivative through the energy member) is not needed
            ctx.refuted(rule, j2.scope, None, construct="hardening-tuple-slots", detail="J2Plastic uses the members of the hardening model inconsistently: " + "; ".join(bad))
            return
        paths = h.paths(sc, "compute_state_new", [sym.family_matrix("axial"), state, dt])
        reg, _ = C09._direction_split(h, kin, paths, sym.zeros3(), sym.family_matrix("axial"))
        elastic = [p for p in paths if p.error is None and not C09._yielding(h, kin, p.value, None)]
        part = C09._parting(reg[0], elastic) if reg and elastic else None
        if part is None:
            raise EvalError("yield test not identified")
        g = _A.norm(part[0] * _A.const(part[1]))          # yielding <=> g > 0
        pr = reg[0]
        if len(pr.value.solves) != 1:
            raise EvalError("scalar solve on the yielding path not identified")
        fl = h.residual(pr.value, pr.value.solves[0], pr.value.solves[0].lo)
        cg, cf = _A.diff(g, "t"), _A.diff(_A.norm(-fl.a), "t")
        if "t" in cg.atoms() or "t" in cf.atoms() or rat_is_zero(cf):
            raise EvalError("yield test is not affine in the strain amplitude")
        a = _A.norm(simplify(cg / cf))                      # scale of the yield test relative to the residual, > 0
        if rat_sign(a, pr.value.interp.positive) != 1:
            raise EvalError(f"scale of the yield test not positive: {sym.short(a)}")
        # the yield threshold moves with the old plastic strain exactly like the flow stress member:  d g / d s0 = - a * d(flow stress)/d s0
        lhs = _A.norm(simplify(_A.diff(g, "s0")))
        rhs = _A.norm(simplify(-a * _A.diff(Y_h.a, "s0")))
        if not _A.equal(lhs, rhs):
            bad.append(f"the yield threshold changes with the old plastic strain at the rate {sym.short(_A.norm(-lhs / a))}, the flow stress member at the rate "
                       f"{sym.short(_A.diff(Y_h.a, 's0'))}: the yield test does not compare the trial stress with the flow stress member")
        ctx.decide(rule, not bad, j2.scope, None, construct="hardening-tuple-slots",
                   detail="J2 reads the energy and the flow stress from the corresponding members of the hardening model (values compared at zero strain)",
                   bad_detail="J2Plastic uses the members of the hardening model inconsistently: " + "; ".join(bad))
    except (Incomplete,) + ERR as ex:
        ctx.undecided(rule, j2.scope, None, construct="hardening-tuple-slots", detail=str(ex)[:300])


CUTS = ("stop_gradient",)
CUSTOM = ("custom_jvp", "custom_vjp", "custom_root", "custom_linear_solve", "custom_gradient")


def _cut_sites(repo, scope):
    """Calls / references in `scope` that resolve to a gradient-cutting jax primitive."""
    from optilint.model import walk_local
    out = []
    for n in walk_local(scope.node):
        if isinstance(n, (ast.Attribute, ast.Name)) and isinstance(getattr(n, "ctx", None), ast.Load):
            d = dotted(n) or ""
            if d.split(".")[-1] in CUTS:
                out.append(n)
                continue
            if isinstance(n, ast.Name):
                for v in repo.resolve(n, scope):
                    if isinstance(v, ExtVal) and v.name.split(".")[-1] in CUTS:
                        out.append(n)
                        break
    return out


def no_gradient_cut(ctx):
    """W4: stress and tangent are jax derivatives of the energy density, so they are consistent with it exactly when nothing in
    the call cone of an energy density hides a dependence from autodiff: no stop_gradient, and no hand-written derivative rule
    other than the ones whose protocol W1/W2 check."""
    rule = "W4/T11-no-gradient-cut-in-energy-cone"
    from .materials import MODELS
    roots = []
    for mod, fac, kind in MODELS:
        roots.append(ctx.need(f"{mod}:{fac}"))
    for fac in ("create_mechanics_functions", "create_multi_block_mechanics_functions", "create_dynamics_functions"):
        roots.append(ctx.need(f"{M}:{fac}"))
    cone = ctx.cg.cone(roots)
    checked = set()
    for mname in ("optimism.TensorMath", "optimism.Math"):
        _, fns = C12._custom_jvp_functions(ctx, mname)
        checked |= {f.qualname for f in fns}
    checked.add("optimism.ScalarRootFind:find_root")
    n = 0
    for s in sorted(cone, key=lambda s: s.qualname):
        if s.kind in ("comp", "class", "module") or s.module.is_test:
            continue
        n += 1
        cuts = _cut_sites(ctx.repo, s)
        for c in cuts:
            ctx.refuted(rule, s, c, construct=f"stop_gradient-in:{s.qualname.split(':')[-1]}",
                        detail=f"`{src(c)}` in the call cone of an energy density: the dependence of the wrapped value on the strain is hidden from "
                               f"jax.grad / jax.hessian, so the delivered stress or tangent is not the derivative of the delivered energy")
        # hand-written derivative rules must be among the checked ones
        custom = []
        for d in getattr(s.node, "decorator_list", []):
            dd = (dotted(d.func) if isinstance(d, ast.Call) else dotted(d)) or ""
            if dd.split(".")[-1] in CUSTOM or any(isinstance(v, ExtVal) and v.name.split(".")[-1] in CUSTOM for v in ctx.repo.resolve(d, s.parent or s)):
                custom.append(dd)
        for c in ast.walk(s.node) if s.kind == "function" else []:
            if isinstance(c, ast.Call) and (dotted(c.func) or "").split(".")[-1] in CUSTOM[2:]:
                custom.append(dotted(c.func))
        if custom and s.qualname not in checked:
            ctx.refuted(rule, s, None, construct=f"unchecked-custom-derivative:{s.qualname.split(':')[-1]}",
                        detail=f"{s.qualname} carries a hand-written derivative rule ({', '.join(custom)}) that is not among the rules verified by W1/W2 "
                               f"({sorted(q.split(':')[-1] for q in checked)})")
        elif not cuts:
            ctx.proved(rule, s, None, construct="no-gradient-cut", detail="no stop_gradient, no unverified custom derivative rule")
    if n < 60:
        raise Incomplete(f"energy-density cone has only {n} scopes; resolver lost the entry points")
    # the matcher must recognise the construct it forbids (expected count on the tree is zero)
    import types
    probe = ast.parse("def f(x):\n    return jax.lax.stop_gradient(x) + lax.stop_gradient(x)\n").body[0]
    hits = [n_ for n_ in ast.walk(probe) if isinstance(n_, ast.Attribute) and (dotted(n_) or "").split(".")[-1] in CUTS]
    if len(hits) != 2:
        raise Incomplete("stop_gradient matcher self-check failed")


def variants(repo):
    from optilint.selftest import Variant, sub, sub_in_func, alpha_rename, reformat
    T = "optimism/TensorMath.py"
    Mth = "optimism/Math.py"
    Me = "optimism/Mechanics.py"
    H = "optimism/material/Hardening.py"
    J = "optimism/material/J2Plastic.py"
    S = "optimism/ScalarRootFind.py"
    return [
        Variant("stress output differentiates the material energy density w.r.t. the internal state", Me,
                sub_in_func("create_mechanics_functions", "    output_lagrangian = strain_energy_density_to_lagrangian_density(materialModel.compute_energy_density)\n    output_constitutive = value_and_grad(output_lagrangian, 1)\n",
                            "    edas = value_and_grad(materialModel.compute_energy_density, 1)\n    def output_constitutive(U, gradU, Q, X, dt):\n        return edas(gradU, Q, dt)\n"),
                "W3/T5-derivative-slots"),
        Variant("stress output differentiates the material energy density directly, w.r.t. the displacement gradient", Me,
                sub_in_func("create_mechanics_functions", "    output_lagrangian = strain_energy_density_to_lagrangian_density(materialModel.compute_energy_density)\n    output_constitutive = value_and_grad(output_lagrangian, 1)\n",
                            "    edas = value_and_grad(materialModel.compute_energy_density, 0)\n    def output_constitutive(U, gradU, Q, X, dt):\n        return edas(gradU, Q, dt)\n"),
                None),
        Variant("primal recomputed in sqrt rule", T, sub_in_func("_sqrt_symm_jvp", "    primal_out = sqrt_symm(*primals)", "    primal_out = symmetric_matrix_function(primals[0], Math.safe_sqrt)"), "W1/T5-custom-jvp-wiring"),
        Variant("pow tangent with other exponent", T, sub_in_func("_pow_symm_jvp", "_symmetric_matrix_function_jvp_helper(lambda x: np.power(x, m),", "_symmetric_matrix_function_jvp_helper(lambda x: np.power(x, m - 1),"), "W1/T5-custom-jvp-wiring"),
        Variant("safe_sqrt nonzero tangent at 0", Mth, sub("                       lambda x: 0.,", "                       lambda x: 1.,"), "W1/T5-safe-sqrt-rule"),
        Variant("safe_sqrt guard strict", Mth, sub("    df = v * lax.cond( x <= 0,", "    df = v * lax.cond( x < 0,"), "W1/T5-safe-sqrt-rule"),
        Variant("safe_sqrt derivative factor", Mth, sub("                       lambda x: 0.5/f,", "                       lambda x: 1.0/f,"), "W1/T5-safe-sqrt-rule"),
        Variant("root finder tolerances swapped in get_settings", S, sub("    return Settings(max_iters, x_tol, r_tol)", "    return Settings(max_iters, r_tol, x_tol)"), "W2/T5-settings-wiring"),
        Variant("tangent solve", S, sub("lambda g, y: y/g(1.0)", "lambda g, y: y*g(1.0)"), "W2/T5-custom-root-wiring"),
        Variant("value_and_grad wrt U", Me, sub_in_func("create_mechanics_functions", "    output_constitutive = value_and_grad(output_lagrangian, 1)", "    output_constitutive = value_and_grad(output_lagrangian, 0)"), "W3/T5-derivative-slots"),
        Variant("flow stress wrt eqpsOld", H, sub("    return HardeningModel(hardening, jax.grad(hardening))", "    return HardeningModel(hardening, jax.grad(hardening, 1))"), "W3/T5-derivative-slots"),
        Variant("residual wrt eqpsOld", J, sub("r = jax.jacfwd(incremental_potential, 1)", "r = jax.jacfwd(incremental_potential, 2)"), "W3/T5-derivative-slots"),
        Variant("hardening slots swapped", J, sub("ENERGY_DENSITY  = 0\nFLOW_STRESS     = 1", "ENERGY_DENSITY  = 1\nFLOW_STRESS     = 0"), "W3/T5-derivative-slots"),
        Variant("stop_gradient on the viscous increment", "optimism/material/MultiBranchHyperViscoelastic.py",
                sub("      delta_Ev = _compute_state_increment(Ee_trial, dt, props, _return_Gneq_id_for_branch(n))",
                    "      delta_Ev = jax.lax.stop_gradient(_compute_state_increment(Ee_trial, dt, props, _return_Gneq_id_for_branch(n)))"), "W4/T11-no-gradient-cut-in-energy-cone"),
        Variant("stop_gradient on the plastic multiplier", J, sub("def compute_elastic_strain(", "from jax.lax import stop_gradient as _sg\ndef _frozen(x):\n    return _sg(x)\ndef compute_elastic_strain("), None),
        Variant("reformat Math", Mth, reformat(), None),
        Variant("reformat Mechanics", Me, reformat(), None),
    ]
