"""C04 -- augmented-Lagrangian solve returns a KKT point with non-negative multipliers.

  D1  termination only on the full residual: the normal return of augmented_lagrange_solve is dominated
      by `errorNorm < alSettings.tol` (the AL tolerance *parameter*), errorNorm = norm(total_residual(x)) of
      the returned x; total_residual stacks the x-gradient of the augmented Lagrangian and the
      Fischer-Burmeister function of (constraint, multiplier) -- chain checked link by link; the
      Fischer-Burmeister formula has the NCP zero set (identity + sample evaluation of the extracted formula);
  D2  multipliers are non-negative after every outer iteration: the last writer of `.lam` on every path to
      the loop back-edge / normal return is solve_sub_step, whose write is maximum(., 0); other writers in
      the cone are enumerated;
  D3  penalties never decrease: `.kappa` is written in the cone only as kappa.at[m].set(s*kappa[m]) with
      s = alSettings.penalty_scaling (assumed >= 1) and kappa the current penalties; reset_kappa is called
      only before the solve by the bound-constrained front end;
  D4  the penalty term is C1 across its switch and the multiplier update is its negative c-derivative
      (GLUE identities in exact rational-function algebra); preconditioner active-set test agrees.
Not decided: KKT residual values, convex optimum agreement, GMRES behaviour.
"""
from __future__ import annotations

import ast

from optilint.cfg import cfg_of
from optilint.model import dotted, FuncVal, walk_local
from optilint.core import Incomplete
from optilint.expr import Algebra, NotPolynomial, feval
from . import trustregion as tr
from .common import Unifier, src, expand, canon, same, calls_in, single_def, def_value, const_value, actual, cond_atoms

LEVEL = "other"
RULE_TEXT = ("obligations = (exit of the AL driver x guarded return) + (link of the residual chain) + (writer of .lam/.kappa in "
             "the solve cone x required form/order) + GLUE identities of the penalty arms")
EXPLANATION = ("Static analysis of AlSolver.py, ConstrainedObjective.py, BoundConstrained*.py: dominator-based guarded return, "
               "who-may-write analysis of the multiplier and penalty attributes over the call-graph cone, last-writer "
               "analysis on the loop paths, and exact algebraic identities for the augmented-Lagrangian penalty arms. "
               "That the returned numbers satisfy KKT to tolerance is not decided.")

AL = "optimism.AlSolver"
CO = "optimism.ConstrainedObjective"
BCS = "optimism.BoundConstrainedSolver"
BCO = "optimism.BoundConstrainedObjective"


def run(ctx):
    for m in (AL, CO, BCS, BCO, "optimism.NewtonSolver"):
        ctx.need_module(m)
    ctx.guard(d1, ctx)
    ctx.guard(d1_chain, ctx)
    ctx.guard(d2, ctx)
    ctx.guard(d3, ctx)
    ctx.guard(d4, ctx)
    from .common import settings_wiring
    ctx.guard(settings_wiring, ctx, "D3/T5-settings-wiring", AL)
    ctx.guard(d5_scaling, ctx)
    ctx.trust("np.maximum(a, 0.0) >= 0 elementwise")
    ctx.trust("Fischer-Burmeister: sqrt(a^2+b^2) - a - b = 0  <=>  a >= 0, b >= 0, a*b = 0")
    ctx.assume("alSettings.penalty_scaling >= 1 (admissible settings in the property text)")
    ctx.assume("alSettings.use_newton_only is False (that mode has no normal return and is not among the admissible settings)")


def _driver(ctx):
    sc = ctx.need(f"{AL}:augmented_lagrange_solve")
    return sc, cfg_of(sc)


# ------------------------------------------------------------------ D1

def d1(ctx):
    rule = "D1/T1-terminate-on-full-residual"
    sc, cfg = _driver(ctx)
    ps = sc.params()
    obj, xname, als = ps[0], ps[1], ps[3]
    reach = cfg.reachable_entry()
    rets = [r for r in cfg.returns() if id(r) in reach]
    if not rets:
        ctx.undecided(rule, sc, None, construct="returns", detail="no reachable normal return")
    for r in rets:
        v = r.ast.value
        if not isinstance(v, ast.Name):
            ctx.undecided(rule, sc, r.ast, construct="return-shape", detail=f"returns `{src(v)}`")
            continue
        ok = False
        why = []
        for (c, lab) in cfg.edge_facts(r):
            if c.kind != "cond":
                continue
            for (a, pol) in cond_atoms(c.ast, lab):
                if not (isinstance(a, ast.Compare) and len(a.ops) == 1):
                    continue
                l, op, rr = a.left, a.ops[0], a.comparators[0]
                opn = type(op).__name__
                if not pol:
                    opn = {"Lt": "GtE", "LtE": "Gt", "Gt": "LtE", "GtE": "Lt"}.get(opn, "?")
                # tolerance side must be <AL settings parameter>.tol
                def is_tol(e):
                    return isinstance(e, ast.Attribute) and e.attr == "tol" and isinstance(e.value, ast.Name) and e.value.id == als \
                        and [d for d in cfg.reaching(c, als)] == [cfg.entry]
                if is_tol(l) and not is_tol(rr):
                    l, rr = rr, l
                    opn = {"Lt": "Gt", "LtE": "GtE", "Gt": "Lt", "GtE": "LtE"}.get(opn, "?")
                le = expand(cfg, c, l, stop=(v.id,))
                want = f"norm({obj}.total_residual({v.id}))"
                good_meas = same(le, want) or same(le, f"np.linalg.norm({obj}.total_residual({v.id}))")
                if not is_tol(rr):
                    why.append(f"`{src(a)}`: compared against `{src(rr)}`, not the requested AL tolerance `{als}.tol`")
                    continue
                if opn not in ("Lt", "LtE"):
                    why.append(f"`{src(a)}` is not an upper bound")
                    continue
                if not good_meas:
                    why.append(f"`{src(a)}`: measure is `{src(le)}`, not norm of the total residual of the returned point")
                    continue
                if not cfg.same_value(v.id, c, r):
                    why.append("returned point changes after the test")
                    continue
                # the measure's definition must see the same x as the test
                ok = True
        ctx.decide(rule, ok, sc, r.ast, construct=f"return {v.id}",
                   detail=f"return dominated by norm(total_residual({v.id})) < {als}.tol",
                   bad_detail="normal return is not guarded by `norm(total_residual(x)) < alSettings.tol` on the returned x: " + "; ".join(why or ["no tolerance guard dominates the return"]))
    # the only other exit raises
    for n in cfg.raises():
        ctx.proved(rule, sc, n.ast, construct="raise-on-non-convergence", detail="non-converged exit raises")
    # errorNorm definition evaluated after the sub-step of the same iteration (uses current multipliers): the
    # call of total_residual(x) that feeds the guard comes after solve_sub_step on every path
    subs = [n for n in cfg.nodes if n.kind == "stmt" and n.ast is not None and "solve_sub_step" in src(n.ast)]
    for r in rets:
        for (c, lab) in cfg.edge_facts(r):
            if c.kind == "cond" and isinstance(c.ast, ast.Compare) and ".tol" in src(c.ast):
                for nm in [n.id for n in ast.walk(c.ast) if isinstance(n, ast.Name)]:
                    for d in cfg.reaching(c, nm):
                        if d.kind == "stmt" and "total_residual" in src(d.ast):
                            ok = any(cfg.dominates(s, d) and s.loops == d.loops for s in subs)
                            ctx.decide(rule, ok, sc, d.ast, construct="residual-after-substep",
                                       detail="the tested residual is computed after solve_sub_step of the same iteration",
                                       bad_detail="the tested residual is not computed after the multiplier update of the same iteration")


def d1_chain(ctx):
    rule = "D1/T5-residual-chain"
    co = ctx.need(f"{CO}:ConstrainedObjective")
    tot = ctx.need(f"{CO}:ConstrainedObjective.total_residual")
    r = tot.returns()
    ok = len(r) == 1 and same(r[0], "self.constrained_residual(np.hstack((x, self.lam)))")
    ctx.decide(rule, ok, tot, r[0] if r else None, construct="total_residual",
               detail="constrained_residual(hstack(x, lam))", bad_detail=f"total_residual returns `{src(r[0]) if r else '?'}`")
    cr = ctx.need(f"{CO}:ConstrainedObjective.constrained_residual")
    r = cr.returns()
    ok = len(r) == 1 and same(r[0], "self.jit_hres(xl, self.p, self.kappa)")
    ctx.decide(rule, ok, cr, r[0] if r else None, construct="constrained_residual",
               detail="jit_hres(xl, p, kappa)", bad_detail=f"constrained_residual returns `{src(r[0]) if r else '?'}`")
    init = ctx.need(f"{CO}:ConstrainedObjective.__init__")
    icfg = cfg_of(init)
    u = Unifier(init)
    ip = init.params()       # self, objective_func, constraint_func, ...
    attr_def = {}
    for st in walk_local(init.node):
        if isinstance(st, ast.Assign) and isinstance(st.targets[0], ast.Attribute) and isinstance(st.targets[0].value, ast.Name) \
                and st.targets[0].value.id == ip[0]:
            attr_def.setdefault(st.targets[0].attr, []).append(st)
    # locals first (they bind the pattern variables), then the attributes that use them
    for nm, want in (("f", f"{ip[0]}.create_augmented_lagrangian({ip[1]}, {ip[2]})"), ("grad_x", "grad(f, 0)")):
        hit = u.assigns(want, target=nm)
        ctx.decide(rule, len(hit) == 1, init, hit[0] if hit else None, construct=f"init:{nm}", detail=f"{nm} = {want}",
                   bad_detail=f"no unique definition `{nm} = {want}` (up to names of locals) in ConstrainedObjective.__init__")
    for nm, want in (("jit_hres", f"jit({ip[0]}.hres)"),
                     ("hres", "lambda xl, p, k: hres_all_args(xl[:-k.size], p, xl[-k.size:], k)"),
                     ("jit_grad_x", "jit(grad_x)"), ("jit_objective", "jit(f)")):
        lst = attr_def.get(nm, [])
        if len(lst) != 1:
            raise Incomplete(f"ConstrainedObjective.__init__: {len(lst)} definitions of self.{nm}")
        st = lst[0]
        from .common import defs_to_lambdas
        ctx.decide(rule, u.match(st.value, want) or u.match(defs_to_lambdas(st.value, init), want), init, st, construct=f"init:{nm}", detail=f"self.{nm} = {want}",
                   bad_detail=f"self.{nm} is defined as `{src(st.value)}`, expected `{want}` (up to names of locals)")
    # nested helper functions
    kids = {c.name: c for c in init.children if c.kind == "function"}
    for nm, want in (("hres_all_args", "np.hstack((grad_x(x, p, l, k), ncp_func(x, p, l)))"),
                     ("ncp_func", f"vmap(fischer_burmeister)(c, l, {ip[0]}.constraintKappa)")):
        k = kids.get(nm)
        if k is None:
            raise Incomplete(f"ConstrainedObjective.__init__.{nm} not found")
        kcfg = cfg_of(k)
        r = kcfg.returns()
        e = r[0].ast.value if r else None
        uk = Unifier(k)
        uk.bind = {t: a for t, a in u.bind.items()}
        kp = k.params()
        want_k = want
        for old_, new_ in zip(("x", "p", "l", "k"), kp):
            want_k = __import__("re").sub(rf"\b{old_}\b", new_, want_k)
        ctx.decide(rule, len(r) == 1 and uk.match(e, want_k), k, e, construct=f"init:{nm}", detail=want,
                   bad_detail=f"{nm} returns `{src(e)}`, expected `{want}`")
        if nm == "ncp_func" and r:
            cd = uk.def_of("c")
            ok = len(cd) == 1 and uk.match(cd[0].value, f"{ip[2]}({kp[0]}, {kp[1]})")
            ctx.decide(rule, ok, k, cd[0] if cd else None, construct="init:ncp_func:c", detail="c = constraint_func(x, p)",
                       bad_detail="the NCP function is not evaluated on constraint_func(x, p)")
    # Fischer-Burmeister formula
    fb = ctx.need(f"{CO}:fischer_burmeister")
    fcfg = cfg_of(fb)
    fr = fcfg.returns()
    c_, l_, k_ = fb.params()
    e = expand(fcfg, fr[0], fr[0].ast.value, stop=(c_, l_, k_)) if fr else None
    ok = None
    detail = ""
    try:
        pts = [({c_: 1.0, l_: 0.0, k_: 2.0}, True), ({c_: 0.0, l_: 3.0, k_: 2.0}, True), ({c_: 0.0, l_: 0.0, k_: 1.0}, True),
               ({c_: 1.0, l_: 1.0, k_: 2.0}, False), ({c_: -1.0, l_: 0.0, k_: 2.0}, False), ({c_: 0.0, l_: -2.0, k_: 1.0}, False),
               ({c_: 2.0, l_: 0.5, k_: 0.25}, False), ({c_: -0.5, l_: 2.0, k_: 3.0}, False)]
        bad = []
        for env, zero in pts:
            v = feval(e, env)
            if (abs(v) < 1e-12) != zero:
                bad.append((env, v))
        A = Algebra()
        ident = A.equal(A.lower(e), A.lower(ast.parse(f"np.sqrt(({c_}*{k_})**2 + {l_}**2) - {c_}*{k_} - {l_}", mode="eval").body))
        ok = (not bad) and ident
        detail = f"normal form equals sqrt((ck)^2+l^2)-ck-l: {ident}; zero-set samples wrong: {bad[:2]}"
    except (NotPolynomial, KeyError, TypeError) as ex:
        detail = f"cannot evaluate formula: {ex}"
        ok = None
    ctx.decide(rule, ok, fb, fr[0].ast if fr else None, construct="fischer_burmeister", detail=detail,
               bad_detail="fischer_burmeister does not have the NCP zero set {c>=0, l>=0, c*l=0}: " + detail)


# ------------------------------------------------------------------ D2

def _attr_writers(ctx, scopes, attr):
    out = []
    for s in scopes:
        if not s.is_function():
            continue
        for st in walk_local(s.node):
            tg = []
            if isinstance(st, ast.Assign):
                tg = st.targets
            elif isinstance(st, (ast.AugAssign, ast.AnnAssign)):
                tg = [st.target]
            for t in tg:
                if isinstance(t, ast.Attribute) and t.attr == attr:
                    out.append((s, st))
    return out


def d2(ctx):
    rule = "D2/T4-multipliers-nonnegative"
    sc, cfg = _driver(ctx)
    obj = sc.params()[0]
    bcs = ctx.need(f"{BCS}:bound_constrained_solve")
    cone = ctx.cg.cone([sc, bcs], stop=lambda s: s.module.name.startswith(("optimism.phasefield", "optimism.material", "optimism.contact", "optimism.Mechanics", "optimism.FunctionSpace")))
    writers = _attr_writers(ctx, cone, "lam")
    sub = ctx.need(f"{AL}:solve_sub_step")
    allowed_ctor = {f"{CO}:ConstrainedObjective.__init__"}
    helpers = {}        # other functions of the cone that assign `.lam`: a call to one of them from the driver counts as a write there
    for (s, st) in writers:
        if s is sub or s is sc:
            continue
        if s.qualname in allowed_ctor:
            ctx.proved(rule, s, st, construct="writer:constructor", detail="initial multipliers are set by the constructor (caller-supplied)")
            continue
        helpers.setdefault(s, []).append(st)
    # solve_sub_step: every return sees a lam written as maximum(., 0)
    scfg = cfg_of(sub)
    sobj = sub.params()[0]
    cell = f"{sobj}.lam"
    for r in scfg.returns():
        ds = scfg.reaching(r, cell)
        if not ds:
            ctx.refuted(rule, sub, r.ast, construct="sub-step-writes-lam", detail="solve_sub_step returns without updating the multipliers")
            continue
        for d in ds:
            v = d.ast.value if isinstance(d.ast, ast.Assign) else None
            ok = isinstance(v, ast.Call) and (dotted(v.func) or "").split(".")[-1] == "maximum" and len(v.args) == 2 \
                and any(const_value(a) == 0 for a in v.args)
            ctx.decide(rule, ok, sub, d.ast, construct="sub-step-lam-is-max0",
                       detail=f"{src(d.ast)}", bad_detail=f"multiplier update `{src(d.ast)}` is not of the form maximum(., 0): multipliers can become negative")
    # driver: after any write to .lam in the loop, the sub-step runs before the back-edge / normal return
    loops = [n for n in cfg.nodes if n.kind == "for" and not n.loops]
    if len(loops) != 1:
        raise Incomplete("augmented_lagrange_solve: outer loop not found")
    loop = loops[0]
    subcalls = [n for n in cfg.nodes if n.kind == "stmt" and n.ast is not None and
                any(isinstance(c, ast.Call) and isinstance(c.func, ast.Name) and c.func.id == "solve_sub_step" for c in ast.walk(n.ast))]
    if not subcalls:
        ctx.refuted(rule, sc, None, construct="driver-calls-sub-step", detail="augmented_lagrange_solve never calls solve_sub_step")
        return
    # assumption use_newton_only False: remove the False edge of `if not alSettings.use_newton_only`
    removed = []
    for c in cfg.nodes:
        if c.kind == "cond" and "use_newton_only" in src(c.ast) and isinstance(c.ast, ast.UnaryOp):
            for (m, lab) in c.succ:
                if lab is False:
                    removed.append((c, m, lab))
    dw = [n for n in cfg.nodes if n.kind == "stmt" and isinstance(n.ast, (ast.Assign, ast.AugAssign)) and
          any(c == f"{obj}.lam" for (c, w) in cfg.defs_of(n))]
    from .common import find_calls_to
    for h, sts in helpers.items():
        sites = find_calls_to(sc, ctx, h.qualname)
        nodes = [n for n in cfg.nodes if n.ast is not None and n.kind in ("stmt", "cond") and any(x is c_ for c_ in sites for x in ast.walk(n.ast))]
        if not nodes:
            for st in sts:
                ctx.undecided(rule, h, st, construct=f"writer:{h.qualname}", detail="writer of `.lam` inside the solve cone that the driver does not call directly")
            continue
        ctx.touch(h)
        dw += [n for n in nodes if n not in dw]
    reach = cfg.reachable_entry()
    targets = [loop] + [r for r in cfg.returns() if id(r) in reach]
    for w in dw:
        bad = []
        for t in targets:
            r = cfg.reachable_from(w, removed_edges=removed, blocked=subcalls)
            # reached t without passing a sub-step call?
            if id(t) in r and t is not w:
                # t reached possibly via blocked node itself: blocked nodes are included but not expanded
                if t in subcalls:
                    continue
                bad.append(t)
        ctx.decide(rule, not bad, sc, w.ast, construct=f"driver-write-followed-by-sub-step:{src(w.ast)[:50]}",
                   detail="every path from this write to the next outer iteration / return passes through solve_sub_step",
                   bad_detail=f"after `{src(w.ast)}` the next outer iteration or the return can be reached without solve_sub_step: "
                              f"possibly negative multipliers survive the iteration")
    # line search restores the saved multipliers on failure
    for fn in [sc] + list(helpers):
        fcfg = cfg if fn is sc else cfg_of(fn)
        fobj = None
        fw = []
        for n in fcfg.nodes:
            if n.kind == "stmt" and isinstance(n.ast, (ast.Assign, ast.AugAssign)):
                for (c, w_) in fcfg.defs_of(n):
                    if c.endswith(".lam") and c.count(".") == 1:
                        fw.append((n, c.split(".")[0]))
        for (w, o_) in fw:
            saves = [n for n in fcfg.nodes if n.kind == "stmt" and isinstance(n.ast, ast.Assign) and isinstance(n.ast.value, ast.Call)
                     and (same(n.ast.value, f"np.array({o_}.lam)") or same(n.ast.value, f"{o_}.lam.copy()") or same(n.ast.value, f"np.copy({o_}.lam)")
                          or same(n.ast.value, f"onp.array({o_}.lam)"))]
            v = w.ast.value if isinstance(w.ast, ast.Assign) else None
            if isinstance(v, ast.Name):
                ok = any(isinstance(s_.ast.targets[0], ast.Name) and s_.ast.targets[0].id == v.id and fcfg.dominates(s_, w) for s_ in saves)
                ctx.decide(rule, ok, fn, w.ast, construct="line-search-restores-saved-multipliers",
                           detail=f"restored from a copy saved before the line search",
                           bad_detail=f"`{src(w.ast)}` does not restore a copy of the multipliers saved before the line search")


# ------------------------------------------------------------------ D3

def d3(ctx):
    rule = "D3/T3-penalties-never-decrease"
    sc, cfg = _driver(ctx)
    bcs = ctx.need(f"{BCS}:bound_constrained_solve")
    cone = ctx.cg.cone([sc], stop=lambda s: s.module.name.startswith(("optimism.phasefield", "optimism.material", "optimism.contact", "optimism.Mechanics", "optimism.FunctionSpace")))
    sub = ctx.need(f"{AL}:solve_sub_step")
    writers = _attr_writers(ctx, cone, "kappa")
    scfg = cfg_of(sub)
    sobj = sub.params()[0]
    als = sub.params()[3]
    n_sub = 0
    for (s, st) in writers:
        if s.qualname == f"{CO}:ConstrainedObjective.__init__":
            ctx.proved(rule, s, st, construct="writer:constructor", detail="initial penalties set by the constructor")
            continue
        if s.qualname == f"{CO}:ConstrainedObjective.reset_kappa":
            # reachable only through bound_constrained_solve (checked below)
            callers = [c for c in cone if c is not s and any(isinstance(x.func, ast.Attribute) and x.func.attr == "reset_kappa" for x in calls_in(c))]
            ctx.decide(rule, not callers, s, st, construct="writer:reset_kappa",
                       detail="reset_kappa is not called from inside the AL solve cone",
                       bad_detail=f"reset_kappa (which lowers penalties to their initial values) is called inside the solve by {[c.qualname for c in callers]}")
            continue
        if s is not sub:
            ctx.undecided(rule, s, st, construct=f"writer:{s.qualname}", detail="unknown writer of `.kappa` inside the solve cone")
            continue
        n_sub += 1
        node = scfg.node_for(st)
        v = expand(scfg, node, st.value)
        ok = False
        why = "not of the form kappa.at[m].set(s*kappa[m]) / where(m, s*kappa, kappa)"
        cur = f"{sobj}.kappa"
        fac = f"{als}.penalty_scaling"
        if isinstance(v, ast.Call) and isinstance(v.func, ast.Attribute) and v.func.attr == "set" and isinstance(v.func.value, ast.Subscript) \
                and isinstance(v.func.value.value, ast.Attribute) and v.func.value.value.attr == "at" and len(v.args) == 1:
            base = v.func.value.value.value
            idx = v.func.value.slice
            okb = same(base, cur)
            oka = same(v.args[0], f"{fac} * {cur}[{src(idx)}]")
            ok = okb and oka
            why = f"base `{src(base)}` (must be the current {cur}), new entries `{src(v.args[0])}` (must be {fac} * current entries at the same index)"
        elif isinstance(v, ast.Call) and (dotted(v.func) or "").split(".")[-1] in ("where", "if_then_else") and len(v.args) == 3:
            ok = same(v.args[1], f"{fac} * {cur}") and same(v.args[2], cur)
            why = f"selected entries `{src(v.args[1])}` (must be {fac} * {cur}), other entries `{src(v.args[2])}` (must be the current {cur})"
        ctx.decide(rule, ok, sub, st, construct="sub-step-kappa-grows", detail=why,
                   bad_detail=f"penalty update `{src(st)[:120]}`: {why}; a penalty parameter can decrease")
    if n_sub < 1:
        ctx.undecided(rule, sub, None, construct="sub-step-kappa-grows", detail="no penalty update found in solve_sub_step")
    # bound-constrained front end: reset before the solve, never inside a loop
    bcfg = cfg_of(bcs)
    resets = [n for n in bcfg.nodes if n.kind == "stmt" and n.ast is not None and "reset_kappa" in src(n.ast)]
    solves = [n for n in bcfg.nodes if n.kind == "stmt" and n.ast is not None and "augmented_lagrange_solve" in src(n.ast)]
    if not solves:
        raise Incomplete("bound_constrained_solve: AL solve call not found")
    for rn in resets:
        ok = all(bcfg.dominates(rn, s) for s in solves) and not rn.loops
        ctx.decide(rule, ok, bcs, rn.ast, construct="front-end-reset-before-solve",
                   detail="reset_kappa() happens once, before the AL solve",
                   bad_detail="reset_kappa() is not a one-time call preceding the AL solve")


# ------------------------------------------------------------------ D4

def _penalty_where(ctx, fn_qual):
    sc = ctx.need(fn_qual)
    inner = [c for c in sc.children if c.kind == "function"]
    if not inner:
        raise Incomplete(f"{fn_qual}: inner Lagrangian not found")
    f = inner[0]
    fcfg = cfg_of(f)
    for n in fcfg.nodes:
        if n.kind == "stmt" and isinstance(n.ast, ast.Assign) and isinstance(n.ast.value, ast.Call) \
                and (dotted(n.ast.value.func) or "").endswith("where") and len(n.ast.value.args) == 3:
            return f, fcfg, n, n.ast.value
    raise Incomplete(f"{fn_qual}: np.where penalty not found")


def d4(ctx):
    rule = "D4/T7-penalty-glue"
    for qual in (f"{CO}:ConstrainedObjective.create_augmented_lagrangian", f"{CO}:ConstrainedQuasiObjective.create_augmented_lagrangian"):
        f, fcfg, node, w = _penalty_where(ctx, qual)
        ps = f.params()     # x, p, l, k
        lname, kname = ps[2], ps[3]
        cond, arm1, arm2 = w.args
        cname = None
        cdef = None
        for nn in fcfg.nodes:
            if nn.kind == "stmt" and isinstance(nn.ast, ast.Assign) and isinstance(nn.ast.targets[0], ast.Name) \
                    and isinstance(nn.ast.value, ast.Call) and isinstance(nn.ast.value.func, ast.Name) \
                    and nn.ast.value.func.id == f.parent.params()[-1]:
                cname, cdef = nn.ast.targets[0].id, nn
        if cname is None:
            ctx.undecided(rule, f, w, construct="constraint-variable", detail="no `c = constraint_func(x, p)` definition found")
            continue
        # the constraint value is an atom `c`
        A = Algebra()
        try:
            a1, a2 = A.lower(arm1), A.lower(arm2)
        except NotPolynomial as ex:
            ctx.undecided(rule, f, w, construct=f"{f.parent.cls.name if f.parent.cls else ''}:arms", detail=f"cannot normalise: {ex}")
            continue
        cls = f.parent.cls.name if f.parent and f.parent.cls else "?"
        # switching surface from the condition: l >= k*c  / l > k*c
        ok_sw = isinstance(cond, ast.Compare) and len(cond.ops) == 1 and isinstance(cond.ops[0], (ast.GtE, ast.Gt)) \
            and isinstance(cond.left, ast.Name) and cond.left.id == lname
        if not ok_sw:
            ctx.refuted(rule, f, cond, construct=f"{cls}:switch", detail=f"penalty switch `{src(cond)}` is not `{lname} >= {kname}*c`")
            continue
        try:
            surf = A.lower(cond.comparators[0])
        except NotPolynomial as ex:
            ctx.undecided(rule, f, cond, construct=f"{cls}:switch", detail=str(ex))
            continue
        want_surf = A.lower(ast.parse(f"{kname}*{cname}", mode="eval").body)
        ctx.decide(rule, A.equal(surf, want_surf), f, cond, construct=f"{cls}:switch",
                   detail=f"switch at {lname} = {surf}", bad_detail=f"penalty switches at {lname} = {surf}, not at {lname} = {kname}*{cname}")
        # C0
        v1, v2 = A.subst(a1, lname, surf), A.subst(a2, lname, surf)
        ctx.decide(rule, A.equal(v1, v2), f, w, construct=f"{cls}:C0", detail=f"both arms equal {v1} on the switch",
                   bad_detail=f"penalty arms disagree on the switching surface: {v1} vs {v2}")
        # C1 in c and l
        for var in (cname, lname):
            g1, g2 = A.subst(A.diff(a1, var), lname, surf), A.subst(A.diff(a2, var), lname, surf)
            ctx.decide(rule, A.equal(g1, g2), f, w, construct=f"{cls}:C1:d/d{var}",
                       detail=f"derivatives w.r.t. {var} agree on the switch ({g1})",
                       bad_detail=f"d/d{var} of the penalty jumps across the switch: {g1} vs {g2}")
        # multiplier update = -d(arm_active)/dc  ;  inactive arm has zero c-derivative
        upd = A.lower(ast.parse(f"{lname} - {kname}*{cname}", mode="eval").body)
        neg = A.norm(-A.diff(a1, cname))
        ctx.decide(rule, A.equal(neg, upd), f, arm1, construct=f"{cls}:update-is-negative-c-derivative",
                   detail=f"-d(active arm)/dc = {neg}", bad_detail=f"-d(active arm)/dc = {neg}, but the first-order update uses {lname} - {kname}*c")
        ctx.decide(rule, A.is_zero(A.diff(a2, cname)), f, arm2, construct=f"{cls}:inactive-arm-flat-in-c",
                   detail="inactive arm does not depend on c", bad_detail=f"inactive arm depends on c: {A.diff(a2, cname)}")
        # the returned Lagrangian adds sum(penalty) to the objective
        rets = fcfg.returns()
        okr = len(rets) == 1 and isinstance(rets[0].ast.value, ast.BinOp) and isinstance(rets[0].ast.value.op, ast.Add) \
            and any(isinstance(x, ast.Call) and (dotted(x.func) or "").endswith("sum") and len(x.args) == 1 and isinstance(x.args[0], ast.Name)
                    and single_def(fcfg, rets[0], x.args[0].id) is node for x in (rets[0].ast.value.left, rets[0].ast.value.right))
        ctx.decide(rule, okr, f, rets[0].ast if rets else None, construct=f"{cls}:lagrangian=objective+sum-of-penalty",
                   detail=src(rets[0].ast.value) if rets else "", bad_detail=f"augmented Lagrangian returns `{src(rets[0].ast.value) if rets else '?'}`")
        okc = cdef is not None and same(def_value(cdef, cname), f"{f.parent.params()[-1]}({ps[0]}, {ps[1]})") and fcfg.same_value(cname, cdef, node) is not None
        ctx.decide(rule, okc, f, cdef.ast if cdef else None, construct=f"{cls}:c=constraint(x,p)", detail="c = constraint_func(x, p)",
                   bad_detail="penalty is not evaluated on constraint_func(x, p)")
    # first-order update in solve_sub_step matches: maximum(lam - kappa*c, 0)
    sub = ctx.need(f"{AL}:solve_sub_step")
    scfg = cfg_of(sub)
    sobj = sub.params()[0]
    for n in scfg.nodes:
        if n.kind == "stmt" and isinstance(n.ast, ast.Assign) and any(c == f"{sobj}.lam" for (c, w) in scfg.defs_of(n)):
            v = n.ast.value
            if isinstance(v, ast.Call) and len(v.args) == 2:
                a = [x for x in v.args if const_value(x) != 0]
                # the point at which the constraint is evaluated must be the sub-problem solution (returned point)
                rets = scfg.returns()
                X = None
                if rets and isinstance(rets[0].ast.value, ast.Tuple) and isinstance(rets[0].ast.value.elts[0], ast.Name):
                    X = rets[0].ast.value.elts[0].id
                e = expand(scfg, n, a[0], stop=(X,) if X else ()) if a else None
                B = Algebra()
                try:
                    ok = X is not None and B.equal(B.lower(e), B.lower(ast.parse(f"{sobj}.lam - {sobj}.kappa*{sobj}.constraint({X})", mode="eval").body)) \
                        and scfg.same_value(X, n, rets[0])
                except (NotPolynomial, TypeError):
                    ok = None
                ctx.decide("D4/T7-multiplier-update", ok, sub, n.ast, construct="lam<-max(lam-kappa*c,0)",
                           detail=f"update argument normalises to lam - kappa*constraint(x) at the sub-problem solution",
                           bad_detail=f"first-order multiplier update uses `{src(e)}`, not lam - kappa*constraint(x) at the returned point")
    # preconditioner active-set test agrees with the switch
    bco = ctx.need(f"{BCO}:BoundConstrainedObjective.__init__")
    hit = 0
    for c in calls_in(bco, local=False):
        if (dotted(c.func) or "").endswith("where") and len(c.args) == 3:
            t = c.args[0]
            hit += 1
            ok = isinstance(t, ast.Compare) and isinstance(t.ops[0], ast.GtE) and same(t.left, "lam") and \
                (same(t.comparators[0], "c*kappa")) and same(c.args[1], "kappa") and const_value(c.args[2]) == 0
            ctx.decide(rule, ok, bco, c, construct="preconditioner-active-set", detail=f"{src(c)}",
                       bad_detail=f"preconditioner penalty stiffness `{src(c)}` disagrees with the penalty switch lam >= kappa*c (kappa on the active arm, 0 otherwise)")
    if hit == 0:
        ctx.undecided(rule, bco, None, construct="preconditioner-active-set", detail="np.where not found")


def _sdeg(e, leaf, depth=10):
    """Degree of `e` in the diagonal scaling s of the bound-constrained front end (xBar = s*x has degree 1); None if inhomogeneous/unknown."""
    from fractions import Fraction as F
    if depth <= 0:
        return None
    d = leaf(e)
    if d is not None:
        return d if d != "unknown" else None
    if isinstance(e, ast.Constant):
        return "any" if e.value == 0 and not isinstance(e.value, bool) else F(0)
    if isinstance(e, ast.UnaryOp):
        return _sdeg(e.operand, leaf, depth - 1)
    if isinstance(e, ast.BinOp):
        a, b = _sdeg(e.left, leaf, depth - 1), _sdeg(e.right, leaf, depth - 1)
        if a is None or b is None:
            return None
        if isinstance(e.op, (ast.Mult, ast.MatMult, ast.Div)):
            if "any" in (a, b):
                return "any" if a == "any" else None
            return a + b if not isinstance(e.op, ast.Div) else a - b
        if isinstance(e.op, (ast.Add, ast.Sub)):
            if a == "any":
                return b
            if b == "any":
                return a
            return a if a == b else None
        return None
    if isinstance(e, ast.Subscript):
        return _sdeg(e.value, leaf, depth - 1)
    if isinstance(e, ast.Call):
        last = (dotted(e.func) or "").split(".")[-1]
        if last in ("sqrt",) and e.args:
            a = _sdeg(e.args[0], leaf, depth - 1)
            return None if a is None else a / 2
        if last in ("maximum", "minimum", "where") and e.args:
            ds = [_sdeg(a, leaf, depth - 1) for a in e.args[-2:]]
            nz = [d for a, d in zip(e.args[-2:], ds) if not (isinstance(a, ast.Constant) and a.value == 0)]
            if any(d is None for d in nz):
                return None
            return nz[0] if nz and all(d == nz[0] for d in nz) else (F(0) if not nz else None)
        if last in ("ones_like",):
            return F(0)
        if last in ("array", "asarray", "abs") and e.args:
            return _sdeg(e.args[0], leaf, depth - 1)
    return None


def d5_scaling(ctx):
    """Bound-constrained front end: the AL solver works on xBar = s*x (s = diagonal scaling).  Degree typing in s:
    xBar: 1, x: 0, objective arguments: 0, multipliers of the scaled problem: -1 (grad_xBar = grad_x / s), physical multipliers: 0.
    The scaling variable is found by role: the factor s in `xBar0 = s * x0` that reaches the x0 slot of the base constructor."""
    from fractions import Fraction as F
    rule = "D5/T8-scaling-degrees"
    init = ctx.need(f"{BCO}:BoundConstrainedObjective.__init__")
    cfg = cfg_of(init)
    ps = init.params()           # self, objective_func, x0, p, constrainedIndices, ...
    selfn, objf, x0 = ps[0], ps[1], ps[2]
    sup = [c for c in calls_in(init) if isinstance(c.func, ast.Attribute) and c.func.attr == "__init__" and isinstance(c.func.value, ast.Call)
           and src(c.func.value.func) == "super"]
    if len(sup) != 1 or len(sup[0].args) < 5:
        ctx.undecided(rule, init, None, construct="base-constructor-call", detail="super().__init__(objective, constraint, x0, p, lam0, kappa0, ...) not found")
        return
    sup = sup[0]
    node = [n for n in cfg.nodes if n.ast is not None and any(x is sup for x in ast.walk(n.ast))][0]
    xb = expand(cfg, node, sup.args[2], depth=1)
    s_name = None
    if isinstance(xb, ast.BinOp) and isinstance(xb.op, ast.Mult):
        for a, b in ((xb.left, xb.right), (xb.right, xb.left)):
            if isinstance(b, ast.Name) and b.id == x0 and isinstance(a, ast.Name):
                s_name = a.id
    ctx.decide(rule, s_name is not None, init, sup, construct="initial-iterate=s*x0", detail=f"scaled initial iterate `{src(xb)}`",
               bad_detail=f"the initial iterate handed to the AL objective is `{src(xb)}`, not (scaling * x0)")
    if s_name is None:
        return
    # locals: degree table built from definitions (all definitions of a name must agree)
    local_deg = {s_name: F(1), x0: F(0)}

    def leaf_local(e):
        if isinstance(e, ast.Name):
            if e.id in local_deg:
                return local_deg[e.id]
            return None
        if isinstance(e, ast.Call):
            # objective_func / grad(objective_func)(x, p): value or physical gradient of the unscaled objective: degree 0 if its argument is
            f = e.func
            inner = f.func if isinstance(f, ast.Call) else None
            if (isinstance(f, ast.Name) and f.id == objf) or (inner is not None and any(isinstance(a, ast.Name) and a.id == objf for a in f.args)):
                a0 = _sdeg(e.args[0], leaf_local) if e.args else None
                return F(0) if a0 == 0 else "unknown"
        return None
    changed = True
    while changed:
        changed = False
        for st in ast.walk(init.node):
            if isinstance(st, ast.Assign) and len(st.targets) == 1 and isinstance(st.targets[0], ast.Name) and st.targets[0].id not in local_deg:
                if isinstance(st.value, ast.Call) and (dotted(st.value.func) or "").split(".")[-1] == "ones_like":
                    continue
                d = _sdeg(st.value, leaf_local)
                if d is not None:
                    local_deg[st.targets[0].id] = d
                    changed = True
    # inverse scaling is 1/s wherever defined
    inv = [st for st in ast.walk(init.node) if isinstance(st, ast.Assign) and isinstance(st.targets[0], ast.Name)
           and isinstance(st.value, ast.BinOp) and isinstance(st.value.op, ast.Div) and isinstance(st.value.right, ast.Name) and st.value.right.id == s_name]
    # multipliers handed to the base class
    lam_d = _sdeg(expand(cfg, node, sup.args[4], depth=1), leaf_local)
    ctx.decide(rule, lam_d == -1, init, sup, construct="initial-multipliers-degree", detail="lam0 = (grad f(x0) / s)[constrained]: degree -1",
               bad_detail=f"initial multipliers `{src(expand(cfg, node, sup.args[4], depth=1))}` have scaling degree {lam_d}; the multipliers of the scaled problem are grad f / s (degree -1)")
    # scaled objective: objective_func receives a degree-0 argument when xBar has degree 1
    for c in init.children:
        if c.kind != "function":
            continue
        cps = c.params()
        calls = [k for k in calls_in(c) if isinstance(k.func, ast.Name) and k.func.id == objf]
        if not calls:
            continue
        ccfg = cfg_of(c)
        for k in calls:
            nd = [n for n in ccfg.nodes if n.ast is not None and any(x is k for x in ast.walk(n.ast))][0]
            arg = expand(ccfg, nd, k.args[0])
            dd = _sdeg(arg, lambda e: (F(1) if isinstance(e, ast.Name) and e.id == cps[0] else local_deg.get(e.id) if isinstance(e, ast.Name) else None))
            ctx.decide(rule, dd == 0, c, k, construct=f"{c.name}:objective-sees-unscaled-argument", detail=f"objective evaluated at `{src(arg)}` (degree 0)",
                       bad_detail=f"{c.name} evaluates the user objective at `{src(arg)}` which has scaling degree {dd}: the objective must see x = xBar / s")
    # attributes
    attr_deg = {}
    for st in ast.walk(init.node):
        if isinstance(st, ast.Assign) and isinstance(st.targets[0], ast.Attribute) and isinstance(st.targets[0].value, ast.Name) and st.targets[0].value.id == selfn:
            d = _sdeg(st.value, leaf_local)
            if d is not None:
                attr_deg[st.targets[0].attr] = d
    attr_deg["lam"] = F(-1)
    cls = init.parent
    n_m = 0
    for m in cls.children:
        if m.kind != "function" or m is init or not m.name.startswith("get_"):
            continue
        mps = m.params()
        xs = mps[1] if len(mps) > 1 else None

        def leaf_m(e, mps=mps, xs=xs):
            if isinstance(e, ast.Attribute) and isinstance(e.value, ast.Name) and e.value.id == mps[0]:
                return attr_deg.get(e.attr, F(0) if e.attr in ("constrainedIndices",) else "unknown")
            if isinstance(e, ast.Name) and e.id == xs:
                return F(0)
            if isinstance(e, ast.Call) and isinstance(e.func, ast.Attribute) and isinstance(e.func.value, ast.Name) and e.func.value.id == mps[0]:
                # inherited evaluators take the scaled iterate
                a0 = _sdeg(e.args[0], leaf_m) if e.args else None
                return F(0) if a0 == 1 else "unknown"
            return None
        for r in m.returns():
            n_m += 1
            d = _sdeg(r, leaf_m)
            ctx.decide(rule, d == 0, m, r, construct=f"{m.name}:physical-quantity", detail=f"`{src(r)}` has scaling degree 0",
                       bad_detail=f"{m.name} returns `{src(r)}` whose scaling degree is {d}: values handed back to the caller must be in the "
                                  f"caller's unscaled variables (multipliers of the scaled problem are grad f / s, iterates are s * x)")
    if n_m < 4:
        raise Incomplete(f"{n_m} accessor methods of BoundConstrainedObjective typed (4 expected)")
    # front end
    bcs = ctx.need(f"{BCS}:bound_constrained_solve")
    bps = bcs.params()
    bcfg = cfg_of(bcs)

    name_deg = {}

    def leaf_b(e):
        if isinstance(e, ast.Attribute) and isinstance(e.value, ast.Name) and e.value.id == bps[0]:
            return attr_deg.get(e.attr, "unknown")
        if isinstance(e, ast.Name):
            if e.id == bps[1]:
                return F(0)
            if e.id in name_deg:
                return name_deg[e.id]
            return None
        if isinstance(e, ast.Call) and (dotted(e.func) or "").split(".")[-1] in ("augmented_lagrange_solve", "warm_start_increment"):
            # the point argument is the callee's second parameter, however it is passed
            pt_ = e.args[1] if len(e.args) > 1 else None
            if pt_ is None:
                for v_ in ctx.repo.resolve(e.func, bcs):
                    if isinstance(v_, FuncVal) and len(v_.scope.params()) > 1:
                        pt_ = actual(e, v_.scope.params(), v_.scope.params()[1])
            a = _sdeg(pt_, leaf_b) if pt_ is not None else None
            return F(1) if a == 1 else "unknown"
        return None
    # flow-insensitive: every definition of a local must have the same degree (a literal 0 fits any)
    for _ in range(4):
        for st in ast.walk(bcs.node):
            tgt = val = None
            if isinstance(st, ast.Assign) and len(st.targets) == 1 and isinstance(st.targets[0], ast.Name):
                tgt, val = st.targets[0].id, st.value
            elif isinstance(st, ast.AugAssign) and isinstance(st.target, ast.Name) and isinstance(st.op, (ast.Add, ast.Sub)):
                tgt, val = st.target.id, st.value
            if tgt is None:
                continue
            d = _sdeg(val, leaf_b)
            if d is None or d == "any":
                continue
            if tgt in name_deg and name_deg[tgt] != d:
                name_deg[tgt] = "unknown"
            elif tgt not in name_deg:
                name_deg[tgt] = d
    for r in bcs.returns():
        ex = r
        d = _sdeg(ex, leaf_b)
        ctx.decide(rule, d == 0, bcs, r, construct="front-end:returns-unscaled-point", detail=f"`{src(ex)[:90]}` has degree 0",
                   bad_detail=f"bound_constrained_solve returns `{src(ex)[:120]}` with scaling degree {d}: the AL solve works on s*x and the result must be divided by s")


def variants(repo):
    from optilint.selftest import Variant, sub, sub_in_func, alpha_rename, reformat
    A = "optimism/AlSolver.py"
    C = "optimism/ConstrainedObjective.py"
    B = "optimism/BoundConstrainedSolver.py"
    D = "augmented_lagrange_solve"
    return [
        Variant("multipliers unscaled with the inverse", "optimism/BoundConstrainedObjective.py", sub("        return self.lam * self.scaling[self.constrainedIndices]", "        return self.lam * self.invScaling[self.constrainedIndices]"), "D5/T8-scaling-degrees"),
        Variant("objective evaluated at scaled point", "optimism/BoundConstrainedObjective.py", sub("            x = invScaling * xBar\n", "            x = scaling * xBar\n"), "D5/T8-scaling-degrees"),
        Variant("front end returns the scaled point", "optimism/BoundConstrainedSolver.py", sub("    return boundConstrainedObjective.invScaling * xBar", "    return boundConstrainedObjective.scaling * xBar"), "D5/T8-scaling-degrees"),
        Variant("accessor passes unscaled point", "optimism/BoundConstrainedObjective.py", sub("        return self.gradient(self.scaling * x)", "        return self.gradient(x)"), "D5/T8-scaling-degrees"),
        Variant("settings fields swapped", "optimism/AlSolver.py", sub("    return Settings(penalty_scaling,\n                    target_constraint_decrease_factor,", "    return Settings(target_constraint_decrease_factor,\n                    penalty_scaling,"), "D3/T5-settings-wiring"),
        Variant("alpha-rename bound constrained solve", "optimism/BoundConstrainedSolver.py", alpha_rename("bound_constrained_solve"), None),
        Variant("return on force residual", A, sub_in_func(D, "            if errorNorm < alSettings.tol:", "            if forceErrorNorm < alSettings.tol:"), "D1/T1-terminate-on-full-residual"),
        Variant("sub-problem tolerance", A, sub_in_func(D, "            if errorNorm < alSettings.tol:", "            if errorNorm < settings.tol:"), "D1/T1-terminate-on-full-residual"),
        Variant("residual drops NCP block", C, sub("            return np.hstack( (grad_x(x,p,l,k),\n                               ncp_func(x,p,l) ) )", "            return np.hstack( (grad_x(x,p,l,k),\n                               0.0*ncp_func(x,p,l) ) )"), "D1/T5-residual-chain"),
        Variant("FB sign", C, sub("    return np.sqrt(ck**2 + l**2) - ck - l", "    return np.sqrt(ck**2 + l**2) - ck + l"), "D1/T5-residual-chain"),
        Variant("drop maximum", A, sub("alObjective.lam = np.maximum(alObjective.lam-kappa*c, 0.0)", "alObjective.lam = alObjective.lam-kappa*c"), "D2/T4-multipliers-nonnegative"),
        Variant("sign of kappa*c", A, sub("alObjective.lam = np.maximum(alObjective.lam-kappa*c, 0.0)", "alObjective.lam = np.maximum(alObjective.lam+kappa*c, 0.0)"), "D4/T7-multiplier-update"),
        Variant("newton-only style skip of sub step", A, sub_in_func(D, "        if not alSettings.use_newton_only:", "        if not alSettings.use_newton_only and it % 2 == 0:"), "D2/T4-multipliers-nonnegative"),
        Variant("kappa / scaling", A, sub("set(alSettings.penalty_scaling*kappa[poorProgress])", "set(kappa[poorProgress]/alSettings.penalty_scaling)"), "D3/T3-penalties-never-decrease"),
        Variant("scatter into initial kappa", A, sub("alObjective.kappa = kappa.at[poorProgress]", "alObjective.kappa = alObjective.constraintKappa.at[poorProgress]"), "D3/T3-penalties-never-decrease"),
        Variant("reset_kappa in loop", A, sub_in_func(D, "        if callback: callback(x, alObjective.p)\n        \n        updatePrecond=False", "        if callback: callback(x, alObjective.p)\n        alObjective.reset_kappa()\n        updatePrecond=False"), "D3/T3-penalties-never-decrease"),
        Variant("edit active arm", C, sub_in_func("ConstrainedObjective.create_augmented_lagrangian", "-c*l + 0.5*k*c*c", "-c*l + k*c*c"), "D4/T7-penalty-glue"),
        Variant("edit inactive arm", C, sub_in_func("ConstrainedObjective.create_augmented_lagrangian", "-0.5*l*l/k", "-0.5*l*l"), "D4/T7-penalty-glue"),
        Variant("edit switch", C, sub_in_func("ConstrainedObjective.create_augmented_lagrangian", "np.where( l >= k*c,", "np.where( l >= -k*c,"), "D4/T7-penalty-glue"),
        Variant("reformat AlSolver", A, reformat(), None),
        Variant("reformat ConstrainedObjective", C, reformat(), None),
        Variant("alpha-rename driver", A, alpha_rename(D), None),
        Variant("alpha-rename solve_sub_step", A, alpha_rename("solve_sub_step"), None),
    ]
