"""C04 -- augmented-Lagrangian solve returns a KKT point with non-negative multipliers.

Every obligation is decided on *values*: the anchor functions are interpreted by rules/C04_sym.py (symbolic interpreter: exact
rational normal forms over atoms, uninterpreted user functions, mutable objects of the repository classes, merged / forked branches,
generalised loops) on symbolic inputs, and the results are compared with what the property needs.  Nothing refers to local names,
temporaries, helper names, statement shapes or idioms; the anchors are public interface only (the solver entry points and their
parameter positions, the objective classes with their public methods `total_residual`, `constraint`, `create_augmented_lagrangian`
and their multiplier / penalty attributes `lam`, `kappa`, the sub-problem solver protocol `(objective, x, settings, callback)`).

  D1  the normal return of augmented_lagrange_solve: on every path that returns, a decided comparison bounds
      norm(objective.total_residual(x_returned)) -- evaluated in the *state at the return* (current multipliers, penalties,
      parameters) -- by a quantity that is provably <= alSettings.tol (refuted by a point at which every decision of the path
      holds and the norm exceeds tol); the objective's parameters at the return are the argument p; the other exit raises (T1).  total_residual(x), interpreted on an
      objective built by the interpreted constructor from an uninterpreted objective F and constraint G, is the stack of
      d/dx of the augmented Lagrangian made by create_augmented_lagrangian(F, G) at (x, p, lam, kappa) and of the Fischer-Burmeister
      function of (G(x, p), lam, k > 0), whose zero set is the complementarity set (T5);
  D2  multipliers: at the end of every outer iteration (every back edge of the outer loop and the return) the multiplier value
      is provably >= 0 whatever the multipliers at the loop head; rejected second-order steps hand the multipliers of the loop head to the
      sub-problem;
  D3  penalties: at the end of every outer iteration kappa_end - kappa_head >= 0 for penalty_scaling >= 1, kappa > 0; the front end
      writes penalties only before the solve; the settings constructors put every parameter into the field of its name;
  D4  the penalty term is C1 across its switch, the multiplier update of an outer iteration is max(lam - kappa*G(x_sub), 0) =
      the negative c-derivative of the active arm at the sub-problem solution, the preconditioner's constraint stiffness is the
      second c-derivative of the penalty;
  D5  bound-constrained front end: homogeneity degrees in the diagonal scaling.
Not decided: KKT residual values, convex optimum agreement, GMRES behaviour.
"""
from __future__ import annotations

import ast
from fractions import Fraction

from optilint.model import walk_local
from optilint.core import Incomplete
from . import C04_sym as S
from .C04_sym import Num, Bv, EvalError

LEVEL = "other"
RULE_TEXT = ("obligations = (path end of the interpreted AL driver x {residual bound, multiplier sign, penalty monotonicity, multiplier update}) "
             "+ (block of the interpreted total residual) + GLUE identities of the interpreted penalty + scaling degrees of interpreted values")
EXPLANATION = ("Symbolic interpretation (rules/C04_sym.py) of AlSolver.py, ConstrainedObjective.py, BoundConstrained*.py on uninterpreted "
               "objective / constraint / sub-problem solver: path conditions of the normal return, sign proofs and witnesses for the multiplier "
               "and penalty values at the end of a generic outer iteration, exact algebraic identities for the penalty arms, homogeneity degrees "
               "in the diagonal scaling.  That the returned numbers satisfy KKT to tolerance is not decided.")

AL = "optimism.AlSolver"
CO = "optimism.ConstrainedObjective"
BCS = "optimism.BoundConstrainedSolver"
BCO = "optimism.BoundConstrainedObjective"
INLINE = {AL, CO, BCS, BCO, "optimism.NewtonSolver", "optimism.Objective", "optimism.JaxConfig"}
STOP_PREFIX = ("optimism.phasefield", "optimism.material", "optimism.contact", "optimism.Mechanics", "optimism.FunctionSpace")


def run(ctx):
    for m in (AL, CO, BCS, BCO, "optimism.NewtonSolver"):
        ctx.need_module(m)
    _g(ctx, d3_front_end, "D3/T3-penalties-never-decrease")
    _g(ctx, driver_rules, "D1/T1-terminate-on-full-residual")
    _g(ctx, substep_rules, "D2/T4-multipliers-nonnegative")
    _g(ctx, d1_chain, "D1/T5-residual-chain")
    _g(ctx, d3_settings, "D3/T5-settings-wiring")
    _g(ctx, d4, "D4/T7-penalty-glue")
    _g(ctx, d5_scaling, "D5/T8-scaling-degrees")
    ctx.trust("np.maximum(a, 0.0) >= 0 elementwise")
    ctx.trust("Fischer-Burmeister: sqrt(a^2+b^2) - a - b = 0  <=>  a >= 0, b >= 0, a*b = 0")
    ctx.assume("alSettings.penalty_scaling >= 1 (admissible settings in the property text); penalty parameters are positive; tolerances are positive")
    ctx.assume("D2-D4 are stated for iterations with alSettings.use_newton_only False (that mode never solves a sub-problem and is not among the "
               "admissible settings); D1 is decided for every mode: the Newton-only mode must not return normally")
    ctx.assume("multipliers and penalties have one entry per constraint (len(lam) == len(kappa) == len(constraint(x)))")
    ctx.assume("the sub-problem solver, the callbacks and external library calls do not modify the multipliers or penalties of the objective; "
               "residual norms are not NaN (a negated comparison is read as the opposite comparison)")


def _g(ctx, fn, rule):
    """an operation the interpreter does not model makes the rule undecided (exit 2), never a violation"""
    try:
        return ctx.guard(fn, ctx)
    except (EvalError, RecursionError) as e:
        ctx.undecided(rule, None, None, construct=f"{fn.__name__}: not interpretable", detail=f"{type(e).__name__}: {e}")


# ------------------------------------------------------------------ shared machinery

def _attr_writers(scopes, attr):
    out = []
    for s in scopes:
        if not s.is_function():
            continue
        for st in walk_local(s.node):
            tg = []
            if isinstance(st, ast.Assign):
                tg = st.targets
            elif isinstance(st, (ast.AugAssign, ast.AnnAssign)):
                tg = [st.target]
            for t in tg:
                for x in ast.walk(t):
                    if isinstance(x, ast.Attribute) and isinstance(x.ctx, ast.Store) and x.attr == attr:
                        out.append((s, st))
    return out


def _machine(ctx, opaque=()):
    cache = {}

    def effects(scope):
        """attribute names (of the tracked ones) possibly assigned in the call-graph cone of a function that is not interpreted"""
        q = scope.qualname
        if q not in cache:
            cone = ctx.cg.cone([scope], stop=lambda s: s.module.name.startswith(STOP_PREFIX))
            w = set()
            for a in ("lam", "kappa", "p"):
                if _attr_writers(cone, a):
                    w.add(a)
            cache[q] = w
        return cache[q]
    M = S.Exec(ctx.repo, inline_modules=INLINE, effects=effects)
    M.opaque_names = set(opaque)
    orig = M.may_inline
    direct = {}

    def glue(sc):
        """a function of another module that itself assigns one of the tracked attributes (multipliers, penalties, parameters) of an argument
        is load-step glue, not a solver: it is followed, so that the assignment is seen (its own callees stay subject to the policy)"""
        q = sc.qualname
        if q not in direct:
            direct[q] = sc.is_function() and any(_attr_writers([sc], a) for a in ("lam", "kappa", "p"))
        return direct[q]
    def private_helper_module(sc):
        """helpers moved into a private module of the package (`optimism/_xxx.py`) are part of the code that is analysed"""
        return sc.module.name.split(".")[-1].startswith("_") and not sc.module.name.startswith(STOP_PREFIX)
    M.may_inline = lambda sc: sc.qualname not in M.opaque_names and (orig(sc) or glue(sc) or private_helper_module(sc))
    return M


def _closure(M, scope):
    return S.Closure(scope, M.module_frame(scope.module))


def _new_objective(M, cls_scope, label=""):
    """ConstrainedObjective(F, G, x0, p0, lam0, kappa0, precondStrategy) with uninterpreted F, G; returns (obj, symbols)"""
    sy = dict(F=M.sym("F" + label), G=M.sym("G" + label), X0=M.sym("x0" + label, "n"), P0=M.sym("p0" + label),
              L0=M.sym("lam0" + label, "m"), K0=M.sym("kappa0" + label, "m"), PS=M.sym("precondStrategy" + label))
    M.domain[M.single_atom(sy["K0"]).id] = "pos"
    obj = M.call(S.ClassV(cls_scope), [sy["F"], sy["G"], sy["X0"], sy["P0"], sy["L0"], sy["K0"], sy["PS"]], {})
    if not isinstance(obj, S.Obj):
        raise EvalError("constructor did not produce an object")
    return obj, sy


def _storage(M, obj, name):
    """name of the attribute cell in which the public attribute `name` of the object is stored (itself, unless the class routes it
    through a property / setter): found by writing a probe through the public name"""
    try:
        old = M.getattr(obj, name)
        probe = M.sym("probe:" + name)
        M.store_attr(obj, name, probe)
        h = M.st.heap[obj.oid]
        hits = [k for k, v in h.items() if isinstance(v, Num) and M.nkey(v) == M.nkey(probe)]
        M.store_attr(obj, name, old)
    except (EvalError, S._NeedFork):
        return name
    return hits[0] if len(hits) == 1 else name


def _quiet_call(M, f, args):
    """call inside a finished path: no forks"""
    saved = M.dec
    M.dec = S.NoFork()
    try:
        return M.call(f, list(args), {})
    except S._NeedFork:
        raise EvalError("needs a decision")
    finally:
        M.dec = saved


def _differ(M, a, b, log=(), seed=29):
    """False: equal normal forms; True: a witness point where the two values differ; None: neither shown"""
    if M.equal(a, b):
        return False
    try:
        w = S.Sampler(M, seed).witness(lambda s: abs(s.num(a) - s.num(b)) > 1e-9 * (1 + abs(s.num(a))), log=log, tries=80)
    except S.NoSample:
        return None
    return True if w is not None else None


def _tri(differ):
    """verdict of an equality obligation from _differ"""
    return True if differ is False else (False if differ is True else None)


def _touch_visited(ctx, M):
    for q, sc in M.visited.items():
        if sc.kind == "function":
            ctx.touch(sc)


def _short(M, v, n=160):
    s = M.show(v, 3)
    return s if len(s) <= n else s[:n] + "..."


# ------------------------------------------------------------------ the AL driver: D1/T1, D2, D3, D4 multiplier update

class _DriverObs:
    def __init__(self):
        self.obj = None

    def probe(self, M, x):
        o = {}
        try:
            o["tr"] = _quiet_call(M, M.getattr(self.obj, "total_residual"), [x]) if isinstance(x, Num) else None
        except EvalError as e:
            o["tr"], o["tr_err"] = None, str(e)
        return o

    def solver_calls(self, M, events):
        """calls of the sub-problem solver: an uninterpreted parameter applied to (objective, point, ...), positionally or by keyword"""
        out = []
        for ev in events:
            if ev.kind != "call" or not isinstance(ev.fn, Num):
                continue
            vals = list(ev.args) + list(ev.kwargs.values())
            if vals and isinstance(vals[0], S.Obj) and vals[0].oid == self.obj.oid and len(vals) >= 2 and isinstance(vals[1], Num):
                ev.point = vals[1]
                out.append(ev)
        return out

    def at_solution(self, M):
        """constraint values at the point returned by the last sub-problem solve of this path"""
        evs = self.solver_calls(M, M.st.events)
        if not evs:
            return None
        ev = evs[-1]
        try:
            x_new = M.mk_item(ev.result, M.const(0))
            c = _quiet_call(M, M.getattr(self.obj, "constraint"), [x_new])
        except EvalError as e:
            return (ev, None, str(e))
        return (ev, c, None)

    def on_end(self, M, kind, value):
        if kind != "return":
            return {}
        o = self.probe(M, value)
        o["sol"] = self.at_solution(M)
        return o

    def on_backedge(self, M, lid, fr):
        be = M.st.events[-1]
        be.sol = self.at_solution(M)


def _settings_record(ctx, M, als):
    """the AL settings as a record of the type the public constructor get_settings() returns, every field an independent unknown
    `alSettings.<field>` (so that attribute access, indexing, unpacking and _replace all see the same unknowns); the bare symbol when
    the settings are not a record type"""
    gs = ctx.repo.find(f"{AL}:get_settings")
    if gs is None:
        return als
    M2 = _machine(ctx)
    try:
        M2.max_paths = 4
        ends = M2.explore(lambda: M2.call(_closure(M2, gs), [], {}))
    except (EvalError, RecursionError):
        return als
    if len(ends) != 1 or not isinstance(ends[0].value, S.Rec):
        return als
    nt = ends[0].value.nt
    return S.Rec(nt, [M.mk_attr(als, f) for f in nt.fields])


def _run_driver(ctx):
    sc = ctx.need(f"{AL}:augmented_lagrange_solve")
    cls = ctx.need(f"{CO}:ConstrainedObjective")
    M = _machine(ctx)
    ps = sc.params()
    if len(ps) < 5:
        raise Incomplete("augmented_lagrange_solve: fewer than 5 positional parameters")
    obs = _DriverObs()
    M.observer = obs
    info = {}
    als = M.sym("alSettings")
    subs = M.sym("subSettings")
    tol = M.mk_attr(als, "tol")
    M.domain[M.single_atom(tol).id] = "pos"
    M.domain[M.single_atom(M.mk_attr(subs, "tol")).id] = "pos"
    M.domain[M.single_atom(M.mk_attr(als, "penalty_scaling")).id] = ("ge", Fraction(1))
    extra = {n: M.sym("arg:" + n) for n in ps[5:] + sc.kwonly()}
    als_val = _settings_record(ctx, M, als)
    p_arg = M.sym("p")
    info.update(p_arg=p_arg, newton_only=M.truthf(M.mk_attr(als, "use_newton_only")))

    def thunk():
        obj, sy = _new_objective(M, cls)
        obs.obj = obj
        info.update(sy=sy, oid=obj.oid, lam=_storage(M, obj, "lam"), kappa=_storage(M, obj, "kappa"), pcell=_storage(M, obj, "p"))
        args = [obj, M.sym("x", "n"), p_arg, als_val, subs]
        return M.call(_closure(M, sc), args, dict(extra))
    ends = M.explore(thunk)
    _touch_visited(ctx, M)
    info.update(M=M, sc=sc, ends=ends, als=als, subs=subs, tol=tol, extra=extra)
    return info


def _outer_loop(info):
    """the generalised loops of the driver that are not nested in another generalised loop"""
    return sorted(info["M"].cut_loops)


def _bound_from_decision(M, f, val, meas_id):
    """upper bound B with  measure < B  or  measure <= B  implied by the decided comparison atom, else None"""
    if f[0] not in ("lt0", "le0"):
        return None
    d = f[2]
    if d.r.d != S.ONE or d.r.n.degree_in(meas_id) != 1:
        return None
    alpha = Num(S.Rat(d.r.n.diff(meas_id), S.ONE))
    if not M.is_const(alpha):
        return None
    a = M.cval(alpha)
    rest = M.sub(d, M.mul(alpha, M.anum(M.by_id[meas_id])))
    if meas_id in rest.r.n.atoms():
        return None
    if (a > 0) == bool(val):
        return M.div(M.neg(rest), alpha)
    return "lower"          # an understood comparison that bounds the measure from below: no help, but nothing unknown either


def _mentions(M, v, ids, depth=0, seen=None):
    """does the value mention one of the atoms (transitively through atom parts)?"""
    seen = seen if seen is not None else set()
    if isinstance(v, Num):
        for a in M.atoms_of(v):
            if a.id in ids:
                return True
            if a.id in seen:
                continue
            seen.add(a.id)
            if depth < 8 and any(_mentions(M, p, ids, depth + 1, seen) for p in a.parts):
                return True
        return False
    if isinstance(v, (tuple, list)):
        return any(_mentions(M, x, ids, depth + 1, seen) for x in v)
    if isinstance(v, Bv):
        return any(_mentions(M, a[2], ids, depth + 1, seen) for a in S.f_atoms(v.f) if a[0] in ("lt0", "le0", "eq0"))
    if isinstance(v, str) and v.startswith("@"):
        return v in ids
    return False


def _formula_mentions(M, f, ids):
    import re
    for a in S.f_atoms(f):
        if a[0] in ("lt0", "le0", "eq0"):
            if _mentions(M, a[2], ids):
                return True
        else:
            for i in re.findall(r"@\d+", a[1]):
                at = M.by_id.get(i)
                if at is not None and (i in ids or _mentions(M, M.anum(at), ids)):
                    return True
    return False


def driver_rules(ctx):
    info = _run_driver(ctx)
    d1_returns(ctx, info)
    d2_d3_iteration_ends(ctx, info)
    _writers_in_cone(ctx, info)


def d1_returns(ctx, info):
    rule = "D1/T1-terminate-on-full-residual"
    M, sc, ends, tol = info["M"], info["sc"], info["ends"], info["tol"]
    rets = [e for e in ends if e.kind == "return"]
    raises = [e for e in ends if e.kind == "raise"]
    if not rets:
        ctx.undecided(rule, sc, None, construct="returns", detail="no path of the interpreted driver returns normally")
    verdicts, pverdicts = [], []      # (ok, detail)
    for e in rets:
        x = e.value
        tr = e.obs.get("tr")
        if not isinstance(x, Num) or tr is None:
            verdicts.append((None, f"returned value / total residual at the return not evaluable ({e.obs.get('tr_err', type(x).__name__)})"))
            continue
        meas = M.single_atom(M.mk_norm(tr))
        meas2 = M.single_atom(M.mk_n2(tr))
        if meas is None or meas2 is None:
            verdicts.append((None, "norm of the total residual is not an atom"))
            continue
        ids = {meas.id, meas2.id}
        # ---- proof: a decided comparison of the path bounds the measure by something <= tol
        got = None
        for f, val in e.log:
            if f[0] not in ("lt0", "le0"):
                continue
            b = _bound_from_decision(M, f, val, meas.id)
            sq = False
            if b is None:
                b = _bound_from_decision(M, f, val, meas2.id)
                sq = b is not None
            if b is None or isinstance(b, str):
                continue
            if M.nonneg(M.sub(M.mul(tol, tol) if sq else tol, b)):
                got = (True, f"norm(total_residual(x)) at the returned state is bounded by `{_short(M, b)}` <= alSettings.tol")
                break
        # ---- refutation: a point of the admissible domain at which every decision of the path holds and the residual exceeds tol
        if got is None:
            try:
                smp = S.Sampler(M, 7)
                w = smp.witness(lambda s: s.atom(meas) > s.num(tol) * (1 + 1e-6), log=e.log, tries=400,
                                strict=lambda f: _formula_mentions(M, f, ids))
            except S.NoSample as ex:
                w = None
                got = (None, f"a test on this path involves the total residual of the returned state in a form that is not understood ({str(ex)[:80]})")
            if w is not None:
                tested = [_short(M, Bv(f if v else S.f_not(f)), 150) for f, v in e.log if _formula_mentions(M, f, ids | {M.single_atom(tol).id})]
                got = (False, "a path returns normally although the tests decided on it do not bound norm(total_residual(x)) of the returned point, "
                              "taken in the state at the return (current multipliers / penalties / parameters), by alSettings.tol: e.g. norm = "
                              f"{_wval(M, M.anum(meas), w)} with tol = {_wval(M, tol, w)} passes all of them; tests on this path that involve the "
                              "residual or the tolerance: " + ("; ".join(tested[-2:]) or "none"))
            elif got is None:
                got = (None, "no test of this path was recognised as a bound of norm(total_residual(x)) by alSettings.tol, and no witness was found either")
        verdicts.append(got)
        # ---- the residual is the one of the requested problem: the objective's parameters at the return are the argument p
        pcell = info.get("pcell")
        p_now = e.heap.get(info["oid"], {}).get(pcell)
        if isinstance(p_now, Num):
            df = _differ(M, p_now, info["p_arg"], e.log, 37)
            pverdicts.append((_tri(df), "" if df is False else f"at a normal return the objective's parameters are `{_short(M, p_now)}`, not the requested "
                                                           f"`{_short(M, info['p_arg'])}`: the residual that was tested is the one of another problem"))
        else:
            pverdicts.append((None, "parameter attribute of the objective not a value at the return"))
    if verdicts:
        bad = [d for ok, d in verdicts if ok is False]
        und = [d for ok, d in verdicts if ok is None]
        ok = False if bad else (None if und else True)
        ctx.decide(rule, ok, sc, None, construct="normal-return:residual-bound",
                   detail=f"{len(verdicts)} returning path(s): " + verdicts[0][1],
                   bad_detail=(bad or und or [""])[0])
    _agg(ctx, rule, sc, "normal-return:parameters-are-the-requested-ones", pverdicts, "objective.p at the return is the argument p")
    if raises:
        ctx.proved(rule, sc, None, construct="raise-on-non-convergence", detail=f"{len(raises)} path(s) leave the outer loop without convergence: all raise")
    # a path that falls out of the function without return / raise would return None
    none_rets = [e for e in rets if e.value is None]
    if none_rets:
        ctx.refuted(rule, sc, None, construct="implicit-return", detail="a path falls off the end of the driver (returns None) without a convergence test")
    ctx.proved(rule, sc, None, construct="interpreted-paths", detail=f"{len(ends)} paths of the driver interpreted (one generic outer iteration)")


def _wval(M, v, env):
    s = S.Sampler(M, 0)
    s.env = dict(env)
    try:
        return f"{s.num(v):.3g}"
    except Exception:
        return "?"


def _solve_loops(info):
    """the outer-iteration loops: generalised loops of the driver in whose body a sub-problem solve happens on some path"""
    M, obs = info["M"], info["M"].observer
    out = set()
    for e in info["ends"]:
        cur = None
        for ev in e.events:
            if ev.kind == "loophead" and ev.loop in set(_outer_loop(info)):
                cur = ev.loop
            elif ev.kind == "backedge" and ev.loop == cur:
                cur = None
            elif cur is not None and ev.kind == "call" and obs.solver_calls(M, [ev]):
                out.add(cur)
    # a driver that never solves a sub-problem: every loop of the driver counts as the outer iteration
    return out or set(_outer_loop(info))


def _iteration_ends(info):
    """(path end, head cells, end heap cells of the objective, solver info, where) for every end of a generic outer iteration"""
    M, oid = info["M"], info["oid"]
    outer = _solve_loops(info)
    out = []
    for e in info["ends"]:
        if info.get("newton_only") is not None and e.facts.ev(info["newton_only"]) is True:
            continue        # the mode without sub-problem solves: excluded by the stated assumption (it never returns normally: D1)
        head = None
        closed = True
        for ev in e.events:
            if ev.kind == "loophead" and ev.loop in outer:
                head, closed = ev, False
            elif ev.kind == "backedge" and ev.loop in outer and head is not None:
                cells = {n: v for (k, o, n), v in ev.cells.items() if k == "h" and o == oid}
                out.append((e, head, cells, getattr(ev, "sol", None), "back-edge"))
                closed = True
        if e.kind == "return" and head is not None and not closed:
            out.append((e, head, dict(e.heap.get(oid, {})), e.obs.get("sol"), "return"))
    return out


def _leaves(v, depth=0):
    """numeric leaves of a (possibly structured) cell value: record fields, tuple / list items, dict values"""
    if isinstance(v, Num):
        yield v
    elif depth < 4:
        if isinstance(v, (tuple, list)):
            for x in v:
                yield from _leaves(x, depth + 1)
        elif isinstance(v, S.Rec):
            for x in v.values:
                yield from _leaves(x, depth + 1)
        elif isinstance(v, S.PyList):
            for x in v.items:
                yield from _leaves(x, depth + 1)
        elif isinstance(v, S.PyDict):
            for x in v.items.values():
                yield from _leaves(x, depth + 1)


def _agg(ctx, rule, scope, construct, verdicts, good):
    """one obligation per construct: REFUTED if a path derives a contradiction, UNDECIDED if a path is not understood"""
    if not verdicts:
        return
    bad = [d for ok, d in verdicts if ok is False]
    und = [d for ok, d in verdicts if ok is None]
    ok = False if bad else (None if und else True)
    ctx.decide(rule, ok, scope, None, construct=construct, detail=f"{len(verdicts)} path(s): {good}", bad_detail=(bad or und or [""])[0])


def d2_d3_iteration_ends(ctx, info):
    M, sc, oid = info["M"], info["sc"], info["oid"]
    r2 = "D2/T4-multipliers-nonnegative"
    its = _iteration_ends(info)
    if not _solve_loops(info):
        ctx.undecided(r2, sc, None, construct="outer-loop", detail="no loop with a sub-problem solve found in the interpreted driver")
        return
    if not its:
        ctx.undecided(r2, sc, None, construct="outer-iteration-end", detail="no path reaches the end of an outer iteration")
        return
    _check_ends(ctx, M, sc, oid, its, "outer-iteration-end", "an outer iteration", "the outer iteration", info["lam"], info["kappa"])


def _check_ends(ctx, M, sc, oid, its, label, an_iter, the_iter, LAM="lam", KAP="kappa"):
    """its: (path end, head event, objective attributes at the end, solver info, where).  Decides, for every end of an iteration /
    of the sub-step: sign of the multipliers, monotonicity of the penalties, form of the multiplier update, restored multipliers"""
    r2, r3, r4 = "D2/T4-multipliers-nonnegative", "D3/T3-penalties-never-decrease", "D4/T7-multiplier-update"
    v2, v3, v4, vrest = {}, {}, [], []
    for (e, head, cells, sol, where) in its:
        lam_h, kap_h = head.cells.get(("h", oid, LAM)), head.cells.get(("h", oid, KAP))
        lam_e, kap_e = cells.get(LAM), cells.get(KAP)
        if not all(isinstance(v, Num) for v in (lam_h, kap_h, lam_e, kap_e)):
            v2.setdefault(where, []).append((None, "multiplier / penalty attribute is not a numeric value at the end of the iteration"))
            continue
        for a in M.atoms_of(kap_h):
            if a.kind in ("hav", "sym"):
                M.domain[a.id] = "pos"
        # ---- D2: sign of the multipliers
        if M.nonneg(lam_e):
            v2.setdefault(where, []).append((True, ""))
        else:
            try:
                w = S.Sampler(M, 11).witness(lambda s: s.num(lam_e) < -1e-9, log=e.log)
            except S.NoSample as ex:
                w = None
            if w is not None:
                v2.setdefault(where, []).append((False, f"{an_iter} can end ({where}) with multipliers `{_short(M, lam_e)}`, which are negative "
                                                        f"e.g. ({_wval(M, lam_e, w)}) for admissible values of the uninterpreted quantities: the multipliers "
                                                        f"are not projected onto >= 0 on this path"))
            else:
                v2.setdefault(where, []).append((None, f"sign of the multipliers `{_short(M, lam_e)}` at the end of {an_iter} not decided"))
        # ---- D3: penalties
        diff = M.sub(kap_e, kap_h)
        if M.nonneg(diff):
            v3.setdefault(where, []).append((True, ""))
        else:
            try:
                w = S.Sampler(M, 13).witness(lambda s: s.num(diff) < -1e-9, log=e.log)
            except S.NoSample:
                w = None
            if w is not None:
                v3.setdefault(where, []).append((False, f"penalties at the end of {an_iter} ({where}) are `{_short(M, kap_e)}`; with penalties "
                                                        f"k at its start the change can be negative ({_wval(M, diff, w)}): a penalty parameter decreases"))
            else:
                v3.setdefault(where, []).append((None, f"monotonicity of the penalties `{_short(M, kap_e)}` not decided"))
        # ---- D4: the multiplier update of the iteration
        if sol is not None:
            ev, c, err = sol
            lam_p, kap_p = ev.heap.get(oid, {}).get(LAM), ev.heap.get(oid, {}).get(KAP)
            if c is None or not isinstance(lam_p, Num) or not isinstance(kap_p, Num) or ev.guards:
                v4.append((None, f"constraint at the sub-problem solution not evaluable ({err})"))
            else:
                want = M.mk_minmax("max", M.sub(lam_p, M.mul(kap_p, c)), M.const(0))
                df = _differ(M, lam_e, want, e.log, 17)
                if df is False:
                    v4.append((True, ""))
                else:
                    v4.append((False if df else None,
                               f"multipliers after {the_iter} are `{_short(M, lam_e)}`, not max(lam - kappa*constraint(x_sub), 0) = `{_short(M, want)}` "
                               f"with lam, kappa at the sub-problem solve and x_sub its solution"))
            # ---- rejected second-order steps leave the multipliers of the loop head
            x_arg = ev.point
            if isinstance(lam_p, Num) and any(M.same_value(x_arg, v) for cv in head.cells.values() for v in _leaves(cv)):
                df = _differ(M, lam_p, lam_h, e.log, 19)
                if df is False:
                    vrest.append((True, ""))
                else:
                    vrest.append((False if df else None,
                                  f"the sub-problem is started from the unchanged iterate of the loop head but with multipliers `{_short(M, lam_p)}` "
                                  f"instead of those of the loop head: rejected second-order steps are not undone"))
    for where, vs in sorted(v2.items()):
        _agg(ctx, r2, sc, f"{label}:{where}:multipliers>=0", vs, "multipliers at the end are max(., 0) / provably non-negative")
    for where, vs in sorted(v3.items()):
        _agg(ctx, r3, sc, f"{label}:{where}:penalties-not-decreased", vs,
             "kappa_end - kappa_start >= 0 for penalty_scaling >= 1 and positive penalties")
    _agg(ctx, r4, sc, "lam<-max(lam-kappa*c,0)", v4, "the multipliers afterwards are max(lam - kappa*constraint(x_sub), 0)")
    _agg(ctx, r2, sc, "rejected-second-order-step-restores-multipliers", vrest,
         "whenever the sub-problem starts from the iterate of the loop head it also starts from the multipliers of the loop head")


def substep_rules(ctx):
    """the public first-order step solve_sub_step (when the library still has it), interpreted on its own: whatever multipliers /
    penalties it is entered with, it leaves max(lam - kappa*constraint(x_sub), 0) and penalties that have not decreased"""
    sub = ctx.repo.find(f"{AL}:solve_sub_step")
    cls = ctx.need(f"{CO}:ConstrainedObjective")
    if sub is None or len(sub.params()) < 6:
        return
    M = _machine(ctx)
    obs = _DriverObs()
    M.observer = obs
    als = M.sym("alSettings")
    M.domain[M.single_atom(M.mk_attr(als, "tol")).id] = "pos"
    M.domain[M.single_atom(M.mk_attr(als, "penalty_scaling")).id] = ("ge", Fraction(1))
    als_val = _settings_record(ctx, M, als)
    ps = sub.params()
    extra = {n: M.sym("arg:" + n) for n in ps[6:] + sub.kwonly()}
    box = {}

    def thunk():
        obj, sy = _new_objective(M, cls)
        obs.obj = obj
        lam, kap = M.sym("lam", "m"), M.sym("kappa", "m")
        M.store_attr(obj, "lam", lam)
        M.store_attr(obj, "kappa", kap)
        L, K = _storage(M, obj, "lam"), _storage(M, obj, "kappa")
        box.update(oid=obj.oid, L=L, K=K, head=S.Event("loophead", cells={("h", obj.oid, L): lam, ("h", obj.oid, K): kap, ("v", 0, "x"): M.sym("x", "n")}))
        return M.call(_closure(M, sub), [obj, M.sym("x", "n"), M.sym("ncpErrorOld", "m"), als_val, M.sym("subSettings"), M.sym("arg:solver")], dict(extra))
    ends = M.explore(thunk)
    _touch_visited(ctx, M)
    its = [(e, box["head"], dict(e.heap.get(box["oid"], {})), e.obs.get("sol"), "return") for e in ends if e.kind == "return"]
    if its:
        _check_ends(ctx, M, sub, box["oid"], its, "sub-step-end", "the first-order step", "the first-order step", box["L"], box["K"])


def _writers_in_cone(ctx, info):
    """every function of the call-graph cone that assigns `.lam` / `.kappa` must have been interpreted (its writes are part of the
    path values above) -- otherwise there is a writer the value analysis did not see"""
    M, sc = info["M"], info["sc"]
    bcs = ctx.need(f"{BCS}:bound_constrained_solve")
    cone = ctx.cg.cone([sc, bcs], stop=lambda s: s.module.name.startswith(STOP_PREFIX))
    seen = set(M.visited)
    front = getattr(ctx, "_c04_front_end_visited", set())
    for attr, rule in (("lam", "D2/T4-multipliers-nonnegative"), ("kappa", "D3/T3-penalties-never-decrease")):
        done = set()
        for (s, st) in _attr_writers(cone, attr):
            if s.qualname in done:
                continue
            done.add(s.qualname)
            if s.qualname in seen:
                ctx.proved(rule, s, None, construct=f"writer-interpreted:{attr}", detail=f"writes of `.{attr}` in {s.shortname} are part of the interpreted paths")
            elif s.qualname in front:
                ctx.proved(rule, s, None, construct=f"writer-front-end:{attr}", detail="reached only through the bound-constrained front end (checked there)")
            else:
                ctx.undecided(rule, s, st, construct=f"writer:{s.qualname}", detail=f"writer of `.{attr}` inside the solve cone that the interpreted driver does not reach")


# ------------------------------------------------------------------ D1/T5: what total_residual is

def _understood(M, v, depth=0, seen=None):
    """no part of the value is the result of an operation that was not interpreted"""
    seen = seen if seen is not None else set()
    if isinstance(v, Num):
        for a in M.atoms_of(v):
            if a.id in seen:
                continue
            seen.add(a.id)
            if a.kind in ("ext", "fb", "new"):
                return False
            if a.kind == "item" and isinstance(a.parts[0], Num) and any(b.kind not in ("sym", "hav", "app", "attr", "item", "D") for b in M.atoms_of(a.parts[0])):
                return False        # unresolved element / slice of a structured value
            if depth < 10 and not all(_understood(M, p, depth + 1, seen) for p in a.parts):
                return False
        return True
    if isinstance(v, (tuple, list)):
        return all(_understood(M, x, depth + 1, seen) for x in v)
    return True


class _Collect:
    """records the verdicts of one obligation per interpreted path; flush() emits one obligation per construct
    (REFUTED if a path derives a contradiction, UNDECIDED if a path is not understood)"""

    def __init__(self):
        self.items = {}

    def decide(self, rule, ok, scope=None, node=None, construct="", detail="", bad_detail=None):
        self.items.setdefault((rule, scope, construct), []).append((ok, detail if ok else (bad_detail or detail)))

    def proved(self, rule, scope=None, node=None, construct="", detail=""):
        self.decide(rule, True, scope, node, construct, detail)

    def undecided(self, rule, scope=None, node=None, construct="", detail=""):
        self.decide(rule, None, scope, node, construct, detail)

    def refuted(self, rule, scope=None, node=None, construct="", detail=""):
        self.decide(rule, False, scope, node, construct, detail)

    def flush(self, ctx):
        for (rule, scope, construct), lst in self.items.items():
            good = next((d for ok, d in lst if ok), "")
            _agg(ctx, rule, scope, construct, lst, good)


def _all_paths(M, thunk, what):
    """run thunk on every path; it reports its results itself (appends to a list); at least one path must complete"""
    ends = M.explore(thunk)
    if not [e for e in ends if e.kind == "return"]:
        raise EvalError(f"{what}: no path completes")
    return ends


def _fb_expected(M, c, l, k):
    ck = M.mul(c, k)
    return M.sub(M.sub(M.mk_sqrt(M.add(M.mul(ck, ck), M.mul(l, l))), ck), l)


_NCP_POINTS = [((1.0, 0.0, 2.0), True), ((0.0, 3.0, 2.0), True), ((0.0, 0.0, 1.0), True), ((1.0, 1.0, 2.0), False), ((-1.0, 0.0, 2.0), False),
               ((0.0, -2.0, 1.0), False), ((2.0, 0.5, 0.25), False), ((-0.5, 2.0, 3.0), False), ((3.0, 0.0, 0.5), True), ((0.0, 0.25, 4.0), True)]


def _ncp_zero_set(M, v, c, l, ks):
    """evaluate v(c, l, k) at the sample points; returns (ok, detail) -- ok None if v depends on something else"""
    ids = {M.single_atom(c).id: 0, M.single_atom(l).id: 1}
    for k in ks:
        ids[M.single_atom(k).id] = 2
    bad = []
    for (pt, zero) in _NCP_POINTS:
        s = S.Sampler(M, 0)
        for i, j in ids.items():
            s.env[i] = pt[j]

        def strict_atom(a, s=s):
            if a.id in s.env:
                return s.env[a.id]
            if a.kind in ("sqrt", "abs", "max", "min", "sel", "ind", "gm"):
                return S.Sampler._atom(s, a)
            raise S.NoSample(a.key)
        s.atom = strict_atom
        try:
            val = s.num(v)
        except S.NoSample as ex:
            return None, f"depends on `{str(ex)[:80]}`"
        if (abs(val) < 1e-12) != zero:
            bad.append((pt, round(val, 6)))
    if bad:
        return False, f"value at (c, l, k) = {bad[0][0]} is {bad[0][1]}; zero there must be {'' if dict(_NCP_POINTS)[bad[0][0]] else 'im'}possible"
    return True, "zero exactly on the complementarity samples"


def d1_chain(ctx):
    rule = "D1/T5-residual-chain"
    cls = ctx.need(f"{CO}:ConstrainedObjective")
    M = _machine(ctx)
    boxes = []

    def thunk():
        box = {}
        obj, sy = _new_objective(M, cls)
        X, P, LAM, KAP = M.sym("X", "n"), M.sym("P"), M.sym("LAM", "m"), M.sym("KAP", "m")
        M.domain[M.single_atom(KAP).id] = "pos"
        for n, v in (("lam", LAM), ("kappa", KAP), ("p", P)):
            M.getattr(obj, n)          # the constructor must have set it
            M.store_attr(obj, n, v)
        box.update(sy, obj=obj, X=X, P=P, LAM=LAM, KAP=KAP)
        box["tr"] = M.call(M.getattr(obj, "total_residual"), [X], {})
        box["L"] = M.call(M.getattr(obj, "create_augmented_lagrangian"), [sy["F"], sy["G"]], {})
        box["c"] = M.call(sy["G"], [X, P], {})
        try:
            box["cr"] = M.call(M.getattr(obj, "constrained_residual"), [M.mk_hs([X, LAM])], {})
        except EvalError as ex:
            box["cr"] = ex
        for nm in ("gradient", "ncp", "constraint"):
            try:
                box["m_" + nm] = M.call(M.getattr(obj, nm), [X], {})
            except EvalError as ex:
                box["m_" + nm] = ex
        # extensional comparison of the differentiated function with the augmented Lagrangian
        a = M.single_atom(box["tr"]) if isinstance(box["tr"], Num) else None
        box["same_fn"] = None
        if a is not None and a.kind == "hs":
            d = M.single_atom(a.parts[0][0])
            if d is not None and d.kind == "D":
                fr = [M.sym("$a", "n"), M.sym("$b"), M.sym("$c", "m"), M.sym("$d", "m")]
                try:
                    v1 = _quiet_call(M, d.parts[0].f, fr)
                    v2 = _quiet_call(M, box["L"], fr)
                    box["same_fn"] = (_tri(_differ(M, v1, v2)), v1, v2) if isinstance(v1, Num) and isinstance(v2, Num) else None
                except EvalError:
                    box["same_fn"] = None
        boxes.append(box)
        return None
    _all_paths(M, thunk, "ConstrainedObjective.total_residual")
    _touch_visited(ctx, M)
    tot = ctx.need(f"{CO}:ConstrainedObjective.total_residual")
    col = _Collect()
    for box in boxes:
        _check_chain(col, rule, M, box, tot)
    col.flush(ctx)
    _check_fb_function(ctx, rule)


def _check_chain(ctx, rule, M, box, tot):
    tr = box["tr"]
    a = M.single_atom(tr) if isinstance(tr, Num) else None
    und = isinstance(tr, Num) and _understood(M, tr)
    two = a is not None and a.kind == "hs" and len(a.parts[0]) == 2
    ctx.decide(rule, True if two else (False if und and (a is None or a.kind != "hs") else None), tot, None, construct="total_residual:stack-of-two-blocks",
               detail="total_residual(x) = hstack(x-block, constraint block)",
               bad_detail=f"total_residual(x) evaluates to `{_short(M, tr)}`, not to a stack of a stationarity block and a complementarity block")
    if not two:
        return
    gx, nb = a.parts[0]
    # ---- x block
    d = M.single_atom(gx)
    want_args = (box["X"], box["P"], box["LAM"], box["KAP"])
    if d is not None and d.kind == "D" and d.parts[0].kind == "D":
        g, args = d.parts
        ok_arg = g.argnums == 0
        ok_pt = len(args) == 4 and all(isinstance(x, Num) and M.equal(x, y) for x, y in zip(args, want_args))
        ctx.decide(rule, True if (ok_arg and ok_pt) else (False if _understood(M, tuple(args)) else None), tot, None, construct="x-block:gradient-wrt-x-at-current-state",
                   detail="x-block = d/dx of a function at (x, p, lam, kappa) with the current parameters, multipliers and penalties",
                   bad_detail=f"x-block is the derivative w.r.t. argument {g.argnums} at `{_short(M, tuple(args))}`; the stationarity block must be "
                              f"d/d(argument 0) at (x, self.p, self.lam, self.kappa)")
        sf = box["same_fn"]
        ctx.decide(rule, None if sf is None else sf[0], tot, None, construct="x-block:differentiates-the-augmented-lagrangian",
                   detail="the differentiated function coincides (applied to fresh arguments) with create_augmented_lagrangian(objective, constraint)",
                   bad_detail=("the x-block differentiates `" + _short(M, sf[1]) + "`, the augmented Lagrangian is `" + _short(M, sf[2]) + "`") if sf else
                   "could not apply the differentiated function / the augmented Lagrangian to fresh arguments")
    else:
        ctx.decide(rule, False if _understood(M, gx) else None, tot, None, construct="x-block:gradient-wrt-x-at-current-state",
                   detail="", bad_detail=f"x-block of the residual is `{_short(M, gx)}`, not a derivative of the augmented Lagrangian")
    # ---- complementarity block
    c, l = box["c"], box["LAM"]
    ks = [box["K0"], box["KAP"]]
    hit = [k for k in ks if M.equal(nb, _fb_expected(M, c, l, k))]
    if hit:
        ctx.proved(rule, tot, None, construct="ncp-block:fischer-burmeister(constraint(x,p),lam,k>0)",
                   detail="constraint block = sqrt((c k)^2 + lam^2) - c k - lam with c = constraint_func(x, p), the current multipliers and positive k")
    else:
        ok, det = _ncp_zero_set(M, nb, c, l, ks)
        ctx.decide(rule, False if ok is False else None, tot, None, construct="ncp-block:fischer-burmeister(constraint(x,p),lam,k>0)",
                   detail="", bad_detail=f"constraint block `{_short(M, nb)}` as a function of (c = constraint_func(x, p), lam, k): {det}; "
                                         "it does not have the zero set {c >= 0, lam >= 0, c*lam = 0}" if ok is False else
                   f"constraint block `{_short(M, nb)}` is not the Fischer-Burmeister function of (constraint_func(x, p), lam, k) and its zero set could not be decided ({det})")
    # ---- the constraint inside the block is the one at the same point, and the public evaluators the driver uses for its progress
    #      measure / multiplier update are these blocks
    capps = [a_ for a_ in _find_atoms(M, nb, ("app",)) if isinstance(a_.parts[0], Num) and M.equal(a_.parts[0], box["G"])]
    okc = bool(capps) and all(M.equal(M.anum(a_), c) for a_ in capps)
    ctx.decide(rule, True if okc else (False if capps and _understood(M, nb) else None), tot, None, construct="ncp-block:constraint-at-the-same-point",
               detail="the constraint block evaluates constraint_func at the x of the stationarity block and the current parameters",
               bad_detail="the constraint block evaluates the constraint at `" + "; ".join(_short(M, tuple(a_.parts[1]), 80) for a_ in capps[:2]) + "`, not at (x, self.p)")
    for nm, blk in (("gradient", gx), ("ncp", nb), ("constraint", c)):
        v = box.get("m_" + nm)
        ctx.decide(rule, True if isinstance(v, Num) and M.equal(v, blk) else None, tot, None, construct=f"{nm}(x)-is-the-block-of-the-residual",
                   detail=f"objective.{nm}(x) coincides with the corresponding part of total_residual(x)",
                   bad_detail=f"objective.{nm}(x) = `{_short(M, v) if isinstance(v, Num) else v}` is not the corresponding part `{_short(M, blk)}` of total_residual(x)")
    # ---- the residual of the second-order update is the same function
    cr = box["cr"]
    if isinstance(cr, Num):
        ctx.decide(rule, True if M.equal(cr, tr) else (False if _understood(M, cr) and _understood(M, tr) else None), tot, None, construct="constrained_residual(hstack(x,lam))=total_residual(x)",
                   detail="the residual driven to zero by the second-order update is the tested residual",
                   bad_detail=f"constrained_residual(hstack(x, lam)) = `{_short(M, cr)}` differs from total_residual(x)")
    else:
        ctx.undecided(rule, tot, None, construct="constrained_residual(hstack(x,lam))=total_residual(x)", detail=f"not evaluable: {cr}")


def _check_fb_function(ctx, rule):
    """the library's Fischer-Burmeister function itself (when it still exists as a function of (c, l, k))"""
    fb = ctx.repo.find(f"{CO}:fischer_burmeister")
    if fb is None or len(fb.params()) != 3:
        return
    M2 = _machine(ctx)
    res = []

    def thunk2():
        cc, ll, kk = M2.sym("c"), M2.sym("l"), M2.sym("k")
        res.append(dict(c=cc, l=ll, k=kk, v=M2.call(_closure(M2, fb), [cc, ll, kk], {})))
    _all_paths(M2, thunk2, "fischer_burmeister")
    ctx.touch(fb)
    col = _Collect()
    for b2 in res:
        _check_fb(col, rule, M2, b2, fb)
    col.flush(ctx)


def _check_fb(ctx, rule, M2, b2, fb):
    v = b2["v"]
    if isinstance(v, Num) and M2.equal(v, _fb_expected(M2, b2["c"], b2["l"], b2["k"])):
        ok, det = _ncp_zero_set(M2, v, b2["c"], b2["l"], [b2["k"]])
        ctx.decide(rule, ok, fb, None, construct="fischer_burmeister", detail="normal form sqrt((ck)^2+l^2)-ck-l; " + det, bad_detail=det)
    elif isinstance(v, Num):
        ok, det = _ncp_zero_set(M2, v, b2["c"], b2["l"], [b2["k"]])
        ctx.decide(rule, False if ok is False else None, fb, None, construct="fischer_burmeister", detail="",
                   bad_detail=f"fischer_burmeister(c, l, k) = `{_short(M2, v)}` does not have the NCP zero set {{c>=0, l>=0, c*l=0}}: {det}")
    else:
        ctx.undecided(rule, fb, None, construct="fischer_burmeister", detail="not a numeric value")


# ------------------------------------------------------------------ D4: GLUE identities of the penalty

def _piecewise_atoms(M, v):
    return [a for a in M.atoms_of(v) if a.kind in ("sel", "ind", "max", "min")]


def _split(M, v, a):
    """(condition formula, value where it holds, value where it does not) for one piecewise atom of v"""
    if a.kind == "ind":
        return a.parts[0], M.subst(v, {a.id: M.const(1)}), M.subst(v, {a.id: M.const(0)})
    if a.kind == "sel":
        f, x, y = a.parts
    else:
        x, y = a.parts
        f = M.cmp_formula("GtE" if a.kind == "max" else "LtE", x, y)
    return f, M.subst(v, {a.id: x}), M.subst(v, {a.id: y})


def _penalty_parts(M, V, F, G, x, p, l, k):
    """decompose an augmented Lagrangian value V = F(...) + sum(penalty(c, l, k)); raises EvalError with a reason"""
    sums = [a for a in M.atoms_of(V) if a.kind == "sum"]
    if len(sums) != 1:
        raise EvalError(f"{len(sums)} summed terms in `{_short(M, V)}`")
    Sm = sums[0]
    rest = M.sub(V, M.anum(Sm))
    if Sm.id in {a.id for a in M.atoms_of(rest)}:
        raise EvalError("the summed penalty does not enter with weight one")
    W = Sm.parts[0]
    Gid, Fid = M.single_atom(G).id, M.single_atom(F).id

    def apps_of(v, fid):
        return [a for a in M.atoms_of(v) if a.kind == "app" and isinstance(a.parts[0], Num) and M.single_atom(a.parts[0]) is not None
                and M.single_atom(a.parts[0]).id == fid]
    cs = apps_of(W, Gid)
    for a in M.atoms_of(W):
        if a.kind in ("sel", "ind", "max", "min"):
            for part in a.parts:
                if isinstance(part, Num):
                    cs += apps_of(part, Gid)
                elif isinstance(part, tuple):
                    for at in S.f_atoms(part):
                        if at[0] in ("lt0", "le0", "eq0"):
                            cs += apps_of(at[2], Gid)
    cs = list({a.id: a for a in cs}.values())
    return dict(W=W, rest=rest, c_atoms=cs, F_apps=apps_of(rest, Fid), sum=Sm)


def _glue(ctx, rule, clsname, fscope, M, V, box):
    x, p, l, k, F, G = (box[n] for n in ("x", "p", "l", "k", "F", "G"))
    try:
        P = _penalty_parts(M, V, F, G, x, p, l, k)
    except EvalError as ex:
        ctx.decide(rule, None, fscope, None,
                   construct=f"{clsname}:lagrangian=objective+sum-of-penalty", detail="",
                   bad_detail=f"augmented Lagrangian `{_short(M, V)}` is not objective + sum(penalty): {ex}")
        return None
    # objective + sum(penalty)
    fa = P["F_apps"]
    okF = len(fa) == 1 and M.equal(P["rest"], M.anum(fa[0])) and \
        all(any(isinstance(z, Num) and M.equal(z, w) for z in fa[0].parts[1]) for w in (x, p))
    ctx.decide(rule, True if okF else (False if _understood(M, P["rest"]) else None), fscope, None,
               construct=f"{clsname}:lagrangian=objective+sum-of-penalty",
               detail="L(x, p, l, k) = objective_func(x, .., p) + sum(penalty)",
               bad_detail=f"besides sum(penalty) the augmented Lagrangian contains `{_short(M, P['rest'])}`, not the objective at (x, p)")
    # the constraint value
    cs = P["c_atoms"]
    okc = len(cs) == 1 and len(cs[0].parts[1]) == 2 and M.equal(cs[0].parts[1][0], x) and M.equal(cs[0].parts[1][1], p)
    ctx.decide(rule, True if okc else (False if cs else None), fscope, None, construct=f"{clsname}:c=constraint(x,p)",
               detail="the penalty is a function of c = constraint_func(x, p)",
               bad_detail="the penalty is evaluated on " + (", ".join(_short(M, M.anum(a)) for a in cs) or "no constraint value") + ", not on constraint_func(x, p)")
    if not okc:
        return None
    c = M.anum(cs[0])
    cid, lid, kid = cs[0].id, M.single_atom(l).id, M.single_atom(k).id
    W = P["W"]
    pw = _piecewise_atoms(M, W)
    if len(pw) != 1:
        ctx.undecided(rule, fscope, None, construct=f"{clsname}:switch", detail=f"penalty `{_short(M, W)}` has {len(pw)} piecewise terms (one switch expected)")
        return None
    f, A_t, A_f = _split(M, W, pw[0])
    neg = False
    g = f
    if g[0] == "not":
        g, neg = g[1], True
    if g[0] not in ("lt0", "le0"):
        ctx.undecided(rule, fscope, None, construct=f"{clsname}:switch", detail=f"penalty switch `{_short(M, Bv(f))}` is not a comparison")
        return None
    dn = g[2]
    if dn.r.d != S.ONE or dn.r.n.degree_in(lid) != 1:
        ctx.decide(rule, False if lid not in dn.r.n.atoms() else None, fscope, None, construct=f"{clsname}:switch", detail="",
                   bad_detail=f"penalty switch `{_short(M, Bv(f))}` is not a threshold for the multiplier l")
        return None
    alpha = Num(S.Rat(dn.r.n.diff(lid), S.ONE))
    surf = M.sub(l, M.div(dn, alpha))            # the value of l on the switching surface
    want = M.mul(k, c)
    ctx.decide(rule, M.equal(surf, want), fscope, None, construct=f"{clsname}:switch", detail="the penalty switches at l = k*c",
               bad_detail=f"the penalty switches at l = `{_short(M, surf)}`, not at l = k*c")
    # which arm is the active one (l >= k c)?
    s = S.Sampler(M, 0)
    s.env.update({lid: 10.0, kid: 1.0, cid: 0.5})
    try:
        active_true = s.formula(f)
    except S.NoSample:
        ctx.undecided(rule, fscope, None, construct=f"{clsname}:C0", detail="switch not evaluable")
        return None
    act, ina = (A_t, A_f) if active_true else (A_f, A_t)
    on = lambda v: M.subst(v, {lid: surf})
    v1, v2 = on(act), on(ina)
    ctx.decide(rule, M.equal(v1, v2), fscope, None, construct=f"{clsname}:C0", detail=f"both arms equal `{_short(M, v1)}` on the switch",
               bad_detail=f"penalty arms disagree on the switching surface: `{_short(M, v1)}` vs `{_short(M, v2)}`")
    for nm, vid in (("c", cid), ("l", lid)):
        g1, g2 = on(M.diff(act, vid)), on(M.diff(ina, vid))
        ctx.decide(rule, M.equal(g1, g2), fscope, None, construct=f"{clsname}:C1:d/d{nm}", detail=f"derivatives w.r.t. {nm} agree on the switch (`{_short(M, g1)}`)",
                   bad_detail=f"d/d{nm} of the penalty jumps across the switch: `{_short(M, g1)}` vs `{_short(M, g2)}`")
    upd = M.sub(l, M.mul(k, c))
    ng = M.neg(M.diff(act, cid))
    ctx.decide(rule, M.equal(ng, upd), fscope, None, construct=f"{clsname}:update-is-negative-c-derivative", detail="-d(active arm)/dc = l - k*c",
               bad_detail=f"-d(active arm)/dc = `{_short(M, ng)}`, but the first-order multiplier update uses l - k*c")
    di = M.diff(ina, cid)
    ctx.decide(rule, M.is_zero(di), fscope, None, construct=f"{clsname}:inactive-arm-flat-in-c", detail="inactive arm does not depend on c",
               bad_detail=f"inactive arm depends on c: derivative `{_short(M, di)}`")
    return dict(f=f, active_true=active_true, act=act, ina=ina, cid=cid, lid=lid, kid=kid)


def d4(ctx):
    rule = "D4/T7-penalty-glue"
    for clsname in ("ConstrainedObjective", "ConstrainedQuasiObjective"):
        cls = ctx.need(f"{CO}:{clsname}")
        fscope = ctx.need(f"{CO}:{clsname}.create_augmented_lagrangian")
        M = _machine(ctx)
        boxes = []

        def thunk():
            obj, sy = _new_objective(M, cls)
            x, p, l, k = M.sym("x", "n"), M.sym("p"), M.sym("l", "m"), M.sym("k", "m")
            M.domain[M.single_atom(k).id] = "pos"
            L = M.call(M.getattr(obj, "create_augmented_lagrangian"), [sy["F"], sy["G"]], {})
            boxes.append(dict(sy, x=x, p=p, l=l, k=k, V=M.call(L, [x, p, l, k], {})))
        try:
            _all_paths(M, thunk, f"{clsname}.create_augmented_lagrangian")
        except EvalError as ex:
            ctx.undecided(rule, fscope, None, construct=f"{clsname}:lagrangian=objective+sum-of-penalty", detail=f"not interpretable: {ex}")
            continue
        _touch_visited(ctx, M)
        col = _Collect()
        for box in boxes:
            V = box["V"]
            if not isinstance(V, Num):
                col.undecided(rule, fscope, None, construct=f"{clsname}:lagrangian=objective+sum-of-penalty", detail="the augmented Lagrangian does not return a number")
                continue
            _glue(col, rule, clsname, fscope, M, V, box)
        col.flush(ctx)
    d4_preconditioner(ctx)


def _find_atoms(M, v, kinds, out=None, seen=None, depth=0):
    out = out if out is not None else []
    seen = seen if seen is not None else set()
    if isinstance(v, Num):
        for a in M.atoms_of(v):
            if a.id in seen:
                continue
            seen.add(a.id)
            if a.kind in kinds:
                out.append(a)
            if depth < 10:
                for pt in a.parts:
                    _find_atoms(M, pt, kinds, out, seen, depth + 1)
    elif isinstance(v, (tuple, list)):
        for x in v:
            _find_atoms(M, x, kinds, out, seen, depth + 1)
    return out


def _values_with(M, v, kinds, out, seen=None, depth=0):
    """the innermost numeric values (a value itself or an argument of one of its atoms) that mention an atom of the given kinds directly"""
    seen = seen if seen is not None else set()
    if isinstance(v, Num):
        if any(a.kind in kinds for a in M.atoms_of(v)):
            if M.nkey(v) not in seen:
                seen.add(M.nkey(v))
                out.append(v)
            return
        for a in M.atoms_of(v):
            if a.id in seen or depth > 10:
                continue
            seen.add(a.id)
            for pt in a.parts:
                _values_with(M, pt, kinds, out, seen, depth + 1)
    elif isinstance(v, (tuple, list)):
        for x in v:
            _values_with(M, x, kinds, out, seen, depth + 1)


def _new_bound_objective(M, cls, truthy):
    sy = dict(F=M.sym("F"), X0=M.sym("x0", "n"), P0=M.sym("p0"), IDX=M.sym("constrainedIndices"), CSS=M.sym("constraintStiffnessScaling"),
              PS=M.sym("precondStrategy"))
    M.domain[M.single_atom(sy["CSS"]).id] = "pos"
    obj = M.call(S.ClassV(cls), [sy["F"], sy["X0"], sy["P0"], sy["IDX"], sy["CSS"], sy["PS"]], {})
    if not isinstance(obj, S.Obj):
        raise EvalError("constructor did not produce an object")
    return obj, sy


def _open_formula(f):
    k = f[0]
    if k == "le0":
        return ("lt0", f[1], f[2])
    if k == "eq0":
        return S.F_FALSE
    if k == "not":
        return S.f_not(_open_formula(f[1]))
    if k in ("and", "or"):
        return (S.f_and if k == "and" else S.f_or)(*[_open_formula(g) for g in f[1]])
    return f


def _open_conditions(M, v, depth=0):
    """v with every selection condition replaced by its interior (d <= 0 -> d < 0): two piecewise values that coincide after this
    differ at most on the switching surfaces"""
    mp = {}
    for a in M.atoms_of(v):
        if a.kind == "sel" and depth < 4:
            f, x, y = a.parts
            mp[a.id] = M.mk_sel(_open_formula(f), _open_conditions(M, x, depth + 1), _open_conditions(M, y, depth + 1))
        elif a.kind == "ind":
            mp[a.id] = M.mk_ind(_open_formula(a.parts[0]))
    return M.subst(v, mp)


def d4_preconditioner(ctx):
    """the constraint part of the bound-constrained preconditioner is the second c-derivative of the penalty of the very objective"""
    rule = "D4/T7-penalty-glue"
    cls = ctx.need(f"{BCO}:BoundConstrainedObjective")
    init = ctx.need(f"{BCO}:BoundConstrainedObjective.__init__")
    M = _machine(ctx)
    results = []

    def thunk():
        obj, sy = _new_bound_objective(M, cls, True)
        # by role: the attribute that holds an object with the preconditioner-strategy interface
        cands = [v for v in M.st.heap[obj.oid].values() if isinstance(v, S.Obj) and M.find_member(v.cls, "initialize") is not None]
        if len(cands) != 1:
            return None
        ps = cands[0]
        xb, p, lam, kap = M.sym("xBar", "n"), M.sym("p"), M.sym("lam", "m"), M.sym("kappa", "m")
        M.domain[M.single_atom(kap).id] = "pos"
        before = dict(M.st.heap[ps.oid])
        M.call(M.getattr(ps, "initialize"), [xb, p, lam, kap], {})
        new = [v for n, v in M.st.heap[ps.oid].items() if n not in before or not M.same_value(before[n], v)]
        for n, v in (("lam", lam), ("kappa", kap), ("p", p)):
            M.store_attr(obj, n, v)
        val = M.call(M.getattr(obj, "value"), [xb], {})
        c = M.call(M.getattr(obj, "constraint"), [xb], {})
        results.append(dict(sy, M=M, new=new, val=val, c=c, xb=xb, p=p, l=lam, k=kap))
        return None
    M.explore(thunk)
    _touch_visited(ctx, M)
    if not results:
        ctx.undecided(rule, init, None, construct="preconditioner-active-set", detail="no path builds a scaled preconditioner strategy")
        return
    verdicts = []
    for r in results:
        sels = []
        for v in r["new"]:
            _values_with(M, v, ("sel", "ind", "max", "min"), sels)
        if not sels:
            verdicts.append((None, "the preconditioner's constraint stiffness contains no active-set selection"))
            continue
        V, c = r["val"], r["c"]
        ca = M.single_atom(c) if isinstance(c, Num) else None
        if not isinstance(V, Num) or ca is None:
            verdicts.append((None, "value / constraint of the bound-constrained objective not evaluable"))
            continue
        sums = [a for a in M.atoms_of(V) if a.kind == "sum"]
        pw = _piecewise_atoms(M, sums[0].parts[0]) if len(sums) == 1 else []
        if len(pw) != 1:
            verdicts.append((None, "penalty of the bound-constrained objective not recognised"))
            continue
        f, A_t, A_f = _split(M, sums[0].parts[0], pw[0])
        h_t, h_f = M.diff(M.diff(A_t, ca.id), ca.id), M.diff(M.diff(A_f, ca.id), ca.id)
        want = M.mk_sel(f, h_t, h_f)
        for got in sels:
            df = _differ(M, _open_conditions(M, got), _open_conditions(M, want), (), 23)      # equal except on the switching surface itself
            if df is False:
                verdicts.append((True, ""))
            else:
                verdicts.append((False if df else None,
                                 f"preconditioner penalty stiffness `{_short(M, got)}` disagrees with the second c-derivative of the penalty "
                                 f"`{_short(M, want)}` (penalty stiffness on the active side of the switch lam >= kappa*c, 0 otherwise)"))
    _agg(ctx, rule, init, "preconditioner-active-set", verdicts, "constraint stiffness of the preconditioner = d2(penalty)/dc2 of the objective's own penalty")


# ------------------------------------------------------------------ D3: front end, settings

def d3_front_end(ctx):
    """bound_constrained_solve: penalties are written only before the AL solve is entered (a reset afterwards / in between would lower them)"""
    rule = "D3/T3-penalties-never-decrease"
    bcs = ctx.need(f"{BCS}:bound_constrained_solve")
    drv = ctx.need(f"{AL}:augmented_lagrange_solve")
    cls = ctx.need(f"{BCO}:BoundConstrainedObjective")
    M = _machine(ctx, opaque={drv.qualname})
    ps = bcs.params()
    if len(ps) < 5:
        raise Incomplete("bound_constrained_solve: fewer than 5 positional parameters")
    extra = {n: M.sym("arg:" + n) for n in ps[5:] + bcs.kwonly()}
    box = {}

    def thunk():
        obj, sy = _new_bound_objective(M, cls, True)
        box["oid"] = obj.oid
        box["K"] = _storage(M, obj, "kappa")
        # penalties as left behind by an earlier solve
        M.store_attr(obj, "kappa", M.sym("kappa_before", "m"))
        return M.call(_closure(M, bcs), [obj, M.sym("x0", "n"), M.sym("p"), M.sym("alSettings"), M.sym("subSettings")], dict(extra))
    ends = M.explore(thunk)
    _touch_visited(ctx, M)
    ctx._c04_front_end_visited = set(M.visited)
    verdicts = []
    nsolve = 0
    for e in ends:
        if e.kind != "return":
            continue
        calls = [ev for ev in e.events if ev.kind == "call" and ev.fname == "repo:" + drv.qualname]
        if not calls:
            verdicts.append((None, "a path of bound_constrained_solve returns without calling augmented_lagrange_solve"))
            continue
        nsolve += len(calls)
        oid = None
        for a in calls[0].args:
            if isinstance(a, S.Obj):
                oid = a.oid
        if oid is None:
            verdicts.append((None, "the AL solve is not handed the objective object"))
            continue
        k_in = calls[0].heap.get(oid, {}).get(box["K"])
        k_end = e.heap.get(oid, {}).get(box["K"])

        def left_by(call, v):
            """v is what the (uninterpreted) solve `call` left in the attribute: nothing was written afterwards"""
            a = M.single_atom(v) if isinstance(v, Num) else None
            return a is not None and a.kind == "fb" and len(a.parts) > 1 and a.parts[1] and M.key(a.parts[1][0]) == M.key(call.result)
        ok = isinstance(k_in, Num) and isinstance(k_end, Num) and (M.equal(k_in, k_end) or left_by(calls[-1], k_end)) and \
            all(left_by(c0, c1.heap.get(oid, {}).get(box["K"])) for c0, c1 in zip(calls, calls[1:]))
        verdicts.append((True, "") if ok else (False, f"penalties are `{_short(M, k_in)}` when the AL solve starts and `{_short(M, k_end)}` when "
                                                      "bound_constrained_solve returns: the front end rewrites penalties after the solve started"))
    _agg(ctx, rule, bcs, "front-end-writes-penalties-only-before-solve", verdicts, "penalties at the return are those at the start of the AL solve")
    if not nsolve:
        raise Incomplete("bound_constrained_solve: AL solve call not found on any path")


def d3_settings(ctx):
    """every settings constructor of AlSolver, interpreted on distinct symbols, puts each parameter into the field of its name"""
    rule = "D3/T5-settings-wiring"
    mod = ctx.need_module(AL)
    n = 0
    for sc in mod.scope.children:
        if sc.kind != "function":
            continue
        M = _machine(ctx)
        params = sc.params() + sc.kwonly()
        if not params or sc.has_varargs() or sc.has_kwargs():
            continue
        box = {}

        def thunk():
            syms = {p: M.sym("param:" + p) for p in params}
            box["syms"] = syms
            return M.call(_closure(M, sc), [], dict(syms))
        try:
            M.max_paths, M.max_steps = 4, 20000
            ends = M.explore(thunk)
        except (EvalError, RecursionError):
            continue
        if len(ends) != 1 or not isinstance(ends[0].value, S.Rec):
            continue
        rec = ends[0].value
        syms = box["syms"]
        shared = [f for f in rec.nt.fields if f in syms]
        by_key0 = {M.key(v) for v in syms.values()}
        # a settings constructor only wires: every field is one of the parameters (or a constant)
        if not shared or not all((isinstance(v, (Num, Bv)) and M.key(v) in by_key0) or (isinstance(v, Num) and M.is_const(v)) or
                                 isinstance(v, (bool, str)) or v is None for v in rec.values):
            continue
        n += 1
        bad = []
        unk = []
        by_key = {M.key(v): p for p, v in syms.items()}
        for f in shared:
            v = rec.get(f)
            if isinstance(v, Num) and M.equal(v, syms[f]):
                continue
            src = by_key.get(M.key(v)) if isinstance(v, (Num, Bv)) else None
            if src is not None:
                bad.append((f, src))
            else:
                unk.append(f)
        ok = False if bad else (None if unk else True)
        ctx.decide(rule, ok, sc, None, construct=f"{sc.name}->{rec.nt.name}:parameters-to-same-named-fields",
                   detail=f"{len(shared)} parameters fill the fields of their names",
                   bad_detail=("; ".join(f"field `{f}` receives parameter `{s}`" for f, s in bad) or
                               "fields " + ", ".join(unk) + " do not receive the parameter of the same name unchanged")
                   + " (the fields are read by name everywhere else: a swapped pair silently exchanges two settings)")
    if n < 1:
        raise Incomplete(f"{AL}: no settings constructor found")
# ------------------------------------------------------------------ D5: homogeneity degrees in the diagonal scaling

class _Degrees:
    """degree of homogeneity of interpreted values in the diagonal scaling s of the bound-constrained front end:
    s: 1, xBar = s*x: 1, x and everything the caller supplies: 0, multipliers of the scaled problem (grad_xBar = grad_x / s): -1.
    `None` = not homogeneous / not known, "any" = the constant 0."""

    def __init__(self, M, atom_deg, typed):
        self.M, self.atom_deg, self.typed = M, dict(atom_deg), typed
        self.problems = []

    def common(self, ds):
        ds = [d for d in ds if d != "any"]
        if any(d is None for d in ds):
            return None
        if not ds:
            return "any"
        return ds[0] if all(d == ds[0] for d in ds) else None

    def poly(self, p):
        ds = []
        for m, c in p.t.items():
            tot = Fraction(0)
            for k, e in m:
                d = self.atom(self.M.by_id[k])
                if d is None:
                    return None
                if d == "any":
                    tot = "any"
                    break
                tot += d * e
            ds.append(tot)
        if not ds:
            return "any"
        return self.common(ds)

    def num(self, v):
        if not isinstance(v, Num):
            return None
        n = self.poly(v.r.n)
        if v.r.d == S.ONE or n is None or n == "any":
            return n
        d = self.poly(v.r.d)
        if d is None or d == "any":
            return None
        return n - d

    def args0(self, args):
        """all numeric arguments are independent of the scaling"""
        for a in args:
            if isinstance(a, Num):
                d = self.num(a)
                if d is None or (d != "any" and d != 0):
                    return False
            elif isinstance(a, (tuple, list)):
                if not self.args0(a):
                    return False
        return True

    def atom(self, a):
        if a.id in self.atom_deg:
            return self.atom_deg[a.id]
        d = self._atom(a)
        self.atom_deg[a.id] = d
        return d

    def _atom(self, a):
        M, k = self.M, a.kind
        if k in ("sym", "hav", "size"):
            return Fraction(0)
        if k == "sqrt":
            d = self.num(a.parts[0])
            return d if d in (None, "any") else d / 2
        if k == "abs":
            return self.num(a.parts[0])
        if k == "n2":
            d = self.num(a.parts[0]) if isinstance(a.parts[0], Num) else None
            return d if d in (None, "any") else 2 * d
        if k == "sum":
            return self.num(a.parts[0])
        if k == "gm":
            return self.atom(M.by_id[a.parts[0]])
        if k in ("max", "min"):
            return self.common([self.num(x) for x in a.parts])
        if k == "sel":
            return self.common([self.num(a.parts[1]), self.num(a.parts[2])])
        if k == "ind":
            return Fraction(0)
        if k == "item":
            b = a.parts[0]
            if isinstance(b, Num):
                return self.num(b)
            if isinstance(b, tuple):
                return self.common([self.num(x) if isinstance(x, Num) else None for x in b])
            return None
        if k == "attr":
            return Fraction(0) if self.args0([a.parts[0]]) else None
        if k == "mulmask":
            d = self.num(a.parts[1])
            return Fraction(0) if d in ("any", 0) else None
        if k == "scatter":
            name, base, idx, v = a.parts
            db, dv = self.num(base), (self.num(v) if isinstance(v, Num) else None)
            if name in ("set", "add", "min", "max"):
                return self.common([db, dv])
            return None
        if k == "hs":
            return self.common([self.num(x) for x in a.parts[0]])
        if k in ("fb", "new"):
            return None
        if k in ("app", "ext", "op", "D"):
            f, args = a.parts[0], a.parts[1]
            t = self.typed(a)
            if t is not None:
                pos, need, out = t
                d = self.num(args[pos]) if pos < len(args) and isinstance(args[pos], Num) else None
                if need is None:
                    return d
                if d == need:
                    return out
                if d is not None and d != "any":
                    self.problems.append((a, pos, d, need))
                return None
            return Fraction(0) if self.args0(args) else None
        return None


def d5_scaling(ctx):
    """Bound-constrained front end: the AL solver works on xBar = s*x (s = diagonal scaling).  The constructor, the accessors and the
    front end are interpreted; every value is typed by its degree of homogeneity in s.  The scaling is found by role: the public
    attribute `scaling` of the constructed object, whose part that comes from the preconditioner strategy generates the degree."""
    rule = "D5/T8-scaling-degrees"
    cls = ctx.need(f"{BCO}:BoundConstrainedObjective")
    init = ctx.need(f"{BCO}:BoundConstrainedObjective.__init__")
    bcs = ctx.need(f"{BCS}:bound_constrained_solve")
    drv = ctx.need(f"{AL}:augmented_lagrange_solve")
    base_methods = {}
    for c in ctx.repo.class_mro(cls)[1:]:
        for m in c.children:
            # the inherited evaluators: methods of a point (properties, setters, the constructor and helpers without a point stay interpreted)
            if m.kind == "function" and len(m.params()) >= 2 and not m.node.decorator_list and not m.name.startswith("__"):
                base_methods.setdefault(m.qualname, m)
    # public accessors of the front end (interface names get_*): they hand quantities back to the caller
    accessors = sorted({m.name for m in cls.children if m.kind == "function" and m.name.startswith("get_")} |
                       {n for n in cls.bindings if n.startswith("get_")})
    acc_scope = {m.name: m for m in cls.children if m.kind == "function"}
    M = _machine(ctx)
    runs = []

    def thunk():
        M.opaque_names = set()
        obj, sy = _new_bound_objective(M, cls, True)
        h = M.st.heap[obj.oid]
        def attr(n):
            try:
                return M.getattr(obj, n)
            except EvalError:
                return None
        r = dict(sy, obj=obj, scaling=attr("scaling"), inv=attr("invScaling"), lam0=attr("lam"), acc=[], M=M)
        ps_atom = M.single_atom(sy["PS"])
        r["trivial"] = isinstance(r["scaling"], Num) and not _mentions(M, r["scaling"], {ps_atom.id})
        # the scaled objective as the AL solver sees it
        xb, p = M.sym("xBar", "n"), M.sym("p")
        lam, kap = M.sym("lamBar", "m"), M.sym("kappa", "m")
        for n, v in (("lam", lam), ("kappa", kap), ("p", p)):
            M.store_attr(obj, n, v)
        r.update(xb=xb, lam=lam, p=p, kap=kap)
        try:
            r["value"] = M.call(M.getattr(obj, "value"), [xb], {})
        except EvalError as ex:
            r["value"] = ex
        # accessors with the inherited evaluators as typed uninterpreted functions
        M.opaque_names = set(base_methods)
        x = M.sym("x", "n")
        r["x"] = x
        for nm in accessors:
            try:
                f = M.getattr(obj, nm)
                params = M.callee_params(f)
                if params is None or len(params) > 1:
                    continue
                r["acc"].append((nm, M.call(f, [x] * len(params), {})))
            except EvalError as ex:
                r["acc"].append((nm, ex))
        # the front end
        M.opaque_names = set(base_methods) | {drv.qualname}
        x0 = M.sym("x0phys", "n")
        r["x0f"] = x0
        extra = {n: M.sym("arg:" + n) for n in bcs.params()[5:] + bcs.kwonly()}
        try:
            r["front"] = M.call(_closure(M, bcs), [obj, x0, M.sym("pNew"), M.sym("alSettings"), M.sym("subSettings")], dict(extra))
        except (S._Raise,) as ex:
            r["front"] = EvalError("raises")
        runs.append(r)
        return None
    M.explore(thunk)
    _touch_visited(ctx, M)
    for m in acc_scope.values():
        if m.name in accessors:
            ctx.touch(m)
    scaled = [r for r in runs if not r["trivial"]]
    if not scaled:
        ctx.undecided(rule, init, None, construct="scaling", detail="no path of the constructor produces a non-trivial diagonal scaling")
        return

    def make_degrees(r):
        s_val = r["scaling"]
        ps_id = M.single_atom(r["PS"]).id
        gens = [a for a in M.atoms_of(s_val) if _mentions(M, M.anum(a), {ps_id})]
        if not isinstance(s_val, Num) or len(s_val.r.n.t) != 1 or len(s_val.r.d.t) != 1 or len(gens) != 1:
            return None, f"scaling `{_short(M, s_val)}` is not a monomial in one quantity derived from the preconditioner strategy"
        g = gens[0]
        e = dict(next(iter(s_val.r.n.t))).get(g.id, 0) - dict(next(iter(s_val.r.d.t))).get(g.id, 0)
        if e == 0:
            return None, "scaling does not depend on its generator"
        env = {g.id: Fraction(1, e), M.single_atom(r["xb"]).id: Fraction(1), M.single_atom(r["lam"]).id: Fraction(-1)}

        def typed(a):
            f = a.parts[0]
            if isinstance(f, S.Closure):
                q = f.scope.qualname
                if q in base_methods and len(a.parts[1]) >= 2:
                    return (1, Fraction(1), Fraction(0))        # inherited evaluator: takes the scaled iterate
                if q == drv.qualname:
                    return (1, None, None)                       # the solve returns a point of the kind it is given
                if f.scope.name == "warm_start_increment":
                    return (1, None, None)
            return None
        D = _Degrees(M, env, typed)
        if D.num(s_val) != 1:
            return None, f"scaling `{_short(M, s_val)}` is not homogeneous of degree one in its generator"
        return D, None
    vs = {}

    def put(construct, scope, ok, good, bad):
        vs.setdefault((construct, scope), []).append((ok, good if ok else bad))
    for r in scaled:
        D, why = make_degrees(r)
        if D is None:
            put("scaling", init, None, "", why)
            continue
        put("scaling", init, True, f"scaling `{_short(M, r['scaling'], 80)}` has degree 1", "")
        # inverse scaling
        inv = r["inv"]
        if isinstance(inv, Num):
            okv = _tri(_differ(M, M.mul(inv, r["scaling"]), M.const(1), (), 31))
            put("invScaling*scaling=1", init, okv if okv is not None else (False if D.num(inv) not in (None, -1) else None),
                "the attribute invScaling is the reciprocal of the attribute scaling",
                f"invScaling `{_short(M, inv)}` is not the reciprocal of scaling `{_short(M, r['scaling'])}` (degree {D.num(inv)})")
        else:
            put("invScaling*scaling=1", init, None, "", "attribute invScaling is not set to a number")
        # initial multipliers
        d = D.num(r["lam0"]) if isinstance(r["lam0"], Num) else None
        put("initial-multipliers-degree", init, True if d == -1 else (None if d is None else False), "lam0 = (grad f(x0) / s)[constrained]: degree -1",
            f"initial multipliers `{_short(M, r['lam0'])}` have scaling degree {d}; the multipliers of the scaled problem are grad f / s (degree -1)")
        # the objective sees x = xBar / s
        V = r["value"]
        if isinstance(V, Num):
            fid = M.single_atom(r["F"]).id
            fapps = [a for a in _find_atoms(M, V, ("app",)) if isinstance(a.parts[0], Num) and M.single_atom(a.parts[0]) is not None
                     and M.single_atom(a.parts[0]).id == fid]
            if not fapps:
                put("objective-sees-unscaled-argument", init, None, "", "the value of the scaled objective does not call the user objective")
            for a in fapps:
                arg = a.parts[1][0] if a.parts[1] else None
                dd = D.num(arg) if isinstance(arg, Num) else None
                put("objective-sees-unscaled-argument", init, True if dd == 0 else (None if dd is None else False),
                    f"objective evaluated at `{_short(M, arg, 80)}` (degree 0)",
                    f"the scaled objective evaluates the user objective at `{_short(M, arg)}` which has scaling degree {dd} when its own argument "
                    "xBar has degree 1: the objective must see x = xBar / s")
        else:
            put("objective-sees-unscaled-argument", init, None, "", f"value of the scaled objective not evaluable: {V}")
        # accessors
        for (nm, v) in r["acc"]:
            m = acc_scope.get(nm, cls)
            if not isinstance(v, Num):
                put(f"{nm}:physical-quantity", m, None, "", f"not evaluable: {v}")
                continue
            D.problems = []
            dd = D.num(v)
            if dd == 0 or dd == "any":
                put(f"{nm}:physical-quantity", m, True, f"`{_short(M, v, 100)}` has scaling degree 0", "")
            elif D.problems:
                a, pos, got, need = D.problems[0]
                put(f"{nm}:physical-quantity", m, False, "",
                    f"{nm} calls the inherited evaluator {a.parts[0].scope.name} with `{_short(M, a.parts[1][pos])}` of scaling degree {got}: "
                    f"inherited evaluators take the scaled iterate s * x (degree 1)")
            else:
                put(f"{nm}:physical-quantity", m, None if dd is None else False, "",
                    f"{nm} returns `{_short(M, v)}` whose scaling degree is {dd}: values handed back to the caller must be in the "
                    f"caller's unscaled variables (multipliers of the scaled problem are grad f / s, iterates are s * x)")
        # front end
        fr = r["front"]
        if isinstance(fr, Num):
            D.problems = []
            dd = D.num(fr)
            put("front-end:returns-unscaled-point", bcs, True if dd == 0 else (None if dd is None else False), f"`{_short(M, fr, 100)}` has degree 0",
                f"bound_constrained_solve returns `{_short(M, fr)}` with scaling degree {dd}: the AL solve works on s*x and the result must be divided by s")
            solves = [a for a in _find_atoms(M, fr, ("app",)) if isinstance(a.parts[0], S.Closure) and a.parts[0].scope.qualname == drv.qualname]
            for a in solves:
                pt = a.parts[1][1] if len(a.parts[1]) > 1 else None
                dp = D.num(pt) if isinstance(pt, Num) else None
                put("front-end:solve-starts-from-scaled-point", bcs, True if dp == 1 else (None if dp is None else False),
                    "the AL solve is started from a point of degree 1",
                    f"the AL solve is started from `{_short(M, pt)}` of scaling degree {dp}; the scaled problem is posed in xBar = s * x (degree 1)")
        else:
            put("front-end:returns-unscaled-point", bcs, None, "", f"bound_constrained_solve not evaluable: {fr}")
    n_acc = 0
    for (construct, scope), lst in sorted(vs.items(), key=lambda kv: kv[0][0]):
        _agg(ctx, rule, scope, construct, lst, lst[0][1] if lst[0][0] else "")
        n_acc += construct.endswith(":physical-quantity")
    if n_acc < 1:
        raise Incomplete("no accessor of BoundConstrainedObjective typed")


def _two_subs(func, first, second):
    from optilint.selftest import sub_in_func

    def f(src):
        t = sub_in_func(func, first[0], first[1])(src)
        if t is None or t.count(second[0]) != 1:
            return None
        return t.replace(second[0], second[1])
    return f


def variants(repo):
    from optilint.selftest import Variant, sub, sub_in_func, alpha_rename, reformat
    from .C04_variants import restructure as R
    A = "optimism/AlSolver.py"
    C = "optimism/ConstrainedObjective.py"
    B = "optimism/BoundConstrainedSolver.py"
    O = "optimism/BoundConstrainedObjective.py"
    D = "augmented_lagrange_solve"
    D1, D15, D2, D3, D4u, D4, D5 = ("D1/T1-terminate-on-full-residual", "D1/T5-residual-chain", "D2/T4-multipliers-nonnegative",
                                   "D3/T3-penalties-never-decrease", "D4/T7-multiplier-update", "D4/T7-penalty-glue", "D5/T8-scaling-degrees")
    return [
        Variant("multipliers unscaled with the inverse", O, sub("        return self.lam * self.scaling[self.constrainedIndices]", "        return self.lam * self.invScaling[self.constrainedIndices]"), D5),
        Variant("objective evaluated at scaled point", O, sub("            x = invScaling * xBar\n", "            x = scaling * xBar\n"), D5),
        Variant("front end returns the scaled point", B, sub("    return boundConstrainedObjective.invScaling * xBar", "    return boundConstrainedObjective.scaling * xBar"), D5),
        Variant("accessor passes unscaled point", O, sub("        return self.gradient(self.scaling * x)", "        return self.gradient(x)"), D5),
        Variant("initial multipliers scaled the wrong way", O, sub("lam0 = (grad(objective_func,0)(x0, p)*invScaling)[constrainedIndices]", "lam0 = (grad(objective_func,0)(x0, p)*scaling)[constrainedIndices]"), D5),
        Variant("AL solve started from the unscaled point", B, sub("    xBar = AlSolver.augmented_lagrange_solve(boundConstrainedObjective,\n                                             xBar0, p,", "    xBar = AlSolver.augmented_lagrange_solve(boundConstrainedObjective,\n                                             x0, p,"), D5),
        Variant("settings fields swapped", A, sub("    return Settings(penalty_scaling,\n                    target_constraint_decrease_factor,", "    return Settings(target_constraint_decrease_factor,\n                    penalty_scaling,"), "D3/T5-settings-wiring"),
        Variant("alpha-rename bound constrained solve", B, alpha_rename("bound_constrained_solve"), None),
        Variant("return on force residual", A, sub_in_func(D, "            if errorNorm < alSettings.tol:", "            if forceErrorNorm < alSettings.tol:"), D1),
        Variant("sub-problem tolerance", A, sub_in_func(D, "            if errorNorm < alSettings.tol:", "            if errorNorm < settings.tol:"), D1),
        Variant("ten times the tolerance", A, sub_in_func(D, "            if errorNorm < alSettings.tol:", "            if errorNorm < 10*alSettings.tol:"), D1),
        Variant("residual measured before the multiplier update", A, _two_subs(
            D, ("            x, ncpError, solverSuccess = solve_sub_step(", "            errorNorm = norm(alObjective.total_residual(x))\n            x, ncpError, solverSuccess = solve_sub_step("),
            ("            errorNorm = norm(alObjective.total_residual(x))\n            print('total error = ', errorNorm)", "            print('total error = ', errorNorm)")), D1),
        Variant("give up quietly after a few iterations", A, sub_in_func(D, "            if errorNorm < alSettings.tol:", "            if errorNorm < alSettings.tol or it > 20:"), D1),
        Variant("residual drops NCP block", C, sub("            return np.hstack( (grad_x(x,p,l,k),\n                               ncp_func(x,p,l) ) )", "            return np.hstack( (grad_x(x,p,l,k),\n                               0.0*ncp_func(x,p,l) ) )"), D15),
        Variant("residual differentiates w.r.t. the multipliers", C, sub("        grad_x = grad(f,0)\n", "        grad_x = grad(f,2)\n"), D15),
        Variant("NCP block on stale multipliers", C, sub("        return self.constrained_residual(np.hstack((x,self.lam)))", "        return self.constrained_residual(np.hstack((x,0.0*self.lam)))"), D15),
        Variant("FB sign", C, sub("    return np.sqrt(ck**2 + l**2) - ck - l", "    return np.sqrt(ck**2 + l**2) - ck + l"), D15),
        Variant("drop maximum", A, sub("alObjective.lam = np.maximum(alObjective.lam-kappa*c, 0.0)", "alObjective.lam = alObjective.lam-kappa*c"), D2),
        Variant("projection onto the wrong side", A, sub("alObjective.lam = np.maximum(alObjective.lam-kappa*c, 0.0)", "alObjective.lam = np.minimum(alObjective.lam-kappa*c, 0.0)"), D2),
        Variant("sign of kappa*c", A, sub("alObjective.lam = np.maximum(alObjective.lam-kappa*c, 0.0)", "alObjective.lam = np.maximum(alObjective.lam+kappa*c, 0.0)"), D4u),
        Variant("constraint at the old point", A, sub("    x, solverSuccess = sub_problem_solver(alObjective, x, subSettings, sub_problem_callback)\n    \n    c = alObjective.constraint(x)",
                                                      "    c = alObjective.constraint(x)\n    x, solverSuccess = sub_problem_solver(alObjective, x, subSettings, sub_problem_callback)\n    "), D4u),
        Variant("newton-only style skip of sub step", A, sub_in_func(D, "        if not alSettings.use_newton_only:", "        if not alSettings.use_newton_only and it % 2 == 0:"), D2),
        Variant("line search does not restore the multipliers", A, sub_in_func(D, "                    alObjective.lam = lamSave\n", "                    pass\n"), D2),
        Variant("kappa / scaling", A, sub("set(alSettings.penalty_scaling*kappa[poorProgress])", "set(kappa[poorProgress]/alSettings.penalty_scaling)"), D3),
        Variant("scatter into initial kappa", A, sub("alObjective.kappa = kappa.at[poorProgress]", "alObjective.kappa = alObjective.constraintKappa.at[poorProgress]"), D3),
        Variant("reset_kappa in loop", A, sub_in_func(D, "        if callback: callback(x, alObjective.p)\n        \n        updatePrecond=False", "        if callback: callback(x, alObjective.p)\n        alObjective.reset_kappa()\n        updatePrecond=False"), D3),
        Variant("penalties of good constraints relaxed", A, sub("        alObjective.kappa = kappa.at[poorProgress].set(alSettings.penalty_scaling*kappa[poorProgress])",
                                                                "        alObjective.kappa = np.where(poorProgress, alSettings.penalty_scaling*kappa, 0.5*kappa)"), D3),
        Variant("edit active arm", C, sub_in_func("ConstrainedObjective.create_augmented_lagrangian", "-c*l + 0.5*k*c*c", "-c*l + k*c*c"), D4),
        Variant("edit inactive arm", C, sub_in_func("ConstrainedObjective.create_augmented_lagrangian", "-0.5*l*l/k", "-0.5*l*l"), D4),
        Variant("edit switch", C, sub_in_func("ConstrainedObjective.create_augmented_lagrangian", "np.where( l >= k*c,", "np.where( l >= -k*c,"), D4),
        Variant("penalty not summed into the objective", C, sub_in_func("ConstrainedObjective.create_augmented_lagrangian", "return objective_func(x, p) + np.sum(penalty)", "return 2.0*objective_func(x, p) + np.sum(penalty)"), D4),
        Variant("preconditioner active set flipped", O, sub("np.where(lam >= c*kappa, kappa, 0.0)", "np.where(lam <= c*kappa, kappa, 0.0)"), D4),
        Variant("reformat AlSolver", A, reformat(), None),
        Variant("reformat ConstrainedObjective", C, reformat(), None),
        Variant("alpha-rename driver", A, alpha_rename(D), None),
        Variant("alpha-rename solve_sub_step", A, alpha_rename("solve_sub_step"), None),
        # behaviour-preserving restructurings (rules/C04_variants.py) and violating edits on top of them
        Variant("restructured driver: while loop, record carry, dict dispatch, clip / where", A, R("x1:" + A), None),
        Variant("restructured objective: classical penalty form, hypot, size arithmetic split", C, R("x2:" + C), None),
        Variant("restructured bound objective: scaling helper, partial, keyword base constructor", O, R("x3:" + O), None),
        Variant("restructured front end: local aliases, ** options", B, R("x3:" + B), None),
        Variant("restructured driver: nonlocal closure, partial sub step, guard clause", A, R("x4:" + A), None),
        Variant("restructured driver: mutable iterate object, helper line search, index scatter", A, R("x5:" + A), None),
        Variant("restructured driver: dict state, callable line-search class defined in the driver", A, R("x6:" + A), None),
        Variant("restructured objective: multipliers behind a property / setter", C, R("x6:" + C), None),
        Variant("restructured driver: recursion line search, SimpleNamespace, decorator, mask arithmetic, einsum, walrus, try/finally", A, R("x7:" + A), None),
        Variant("restructured objective: value_and_grad, np.split", C, R("x7:" + C), None),
        Variant("x7 + mask with a negative threshold", A, R("x7:" + A, ("    positive = shifted > 0.0", "    positive = shifted > -1.0")), D2),
        Variant("x7 + growth factor below one", A, R("x7:" + A, ("grow = poorProgress*(alSettings.penalty_scaling - 1.0)", "grow = poorProgress*(alSettings.penalty_scaling - 2.0)")), D3),
        Variant("x6 + line search keeps rejected multipliers", A, R("x6:" + A, ("                alObjective.lam = lamSave\n                dx *= 0.2", "                dx *= 0.2")), D2),
        # restructurings written by an independent engineer who knew only the property text (per file; pieces that need the other files are left out)
        Variant("indep 1: slots state object, count-down while line search, dict of thunks, dict result", A, R("i1:" + A), None),
        Variant("indep 2: partials / bound methods / callable class, lam and kappa as properties", C, R("i2:" + C), None),
        Variant("indep 2: bound objective closures as partials, accessors through helpers", O, R("i2:" + O), None),
        Variant("indep 3: expression level rewrites (driver)", A, R("i3:" + A), None),
        Variant("indep 3: expression level rewrites (objective)", C, R("i3:" + C), None),
        Variant("indep 3: expression level rewrites (bound objective)", O, R("i3:" + O), None),
        Variant("indep 3: expression level rewrites (front end, positional solve call, np.multiply)", B, R("i3:" + B), None),
        Variant("indep 4: accessor factory in the class body, scaling helpers", O, R("i4:" + O), None),
        Variant("indep 4: multiplier / penalty update methods on the objective", C, R("i4:" + C), None),
        Variant("indep 5: recursion line search, zip(range, chain(..., repeat)), walrus, any(generator over array)", A, R("j1:" + A), None),
        Variant("indep 5: front end with walrus / merged guards", B, R("j1:" + B), None),
        Variant("indep 6: mixin dispatch by name, setattr table of jits, value_and_grad / jacfwd(jacrev)", C, R("j2:" + C), None),
        Variant("indep 6: accessors by __getattr__ delegation", O, R("j2:" + O), None),
        Variant("indep 7: decorator around the sub step, context manager for trial multipliers, private exception", A, R("j3:" + A), None),
        Variant("indep 8: objective gains kkt_error / append_multipliers", C, R("j4:" + C), None),
        Variant("indep 8: front end with local imports and ** forwarding", B, R("j4:" + B), None),
        Variant("indep 9: operator module / lax primitives / 0-1 masks (driver)", A, R("j5:" + A), None),
        Variant("indep 9: operator module / reduce / einsum (objective)", C, R("j5:" + C), None),
        Variant("indep 9: operator.methodcaller accessors", O, R("j5:" + O), None),
        Variant("indep 9: operator spelling (front end)", B, R("j5:" + B), None),
        Variant("best error so far instead of the current one", A, sub_in_func(D, "            errorNorm = norm(alObjective.total_residual(x))\n", "            errorNorm = np.minimum(errorNorm, norm(alObjective.total_residual(x)))\n"), D1),
        Variant("tolerance relaxed to the sub-problem tolerance", A, sub_in_func(D, "            if errorNorm < alSettings.tol:", "            if errorNorm < np.maximum(alSettings.tol, settings.tol):"), D1),
        Variant("projection only after a successful sub-problem solve", A, sub("    alObjective.lam = np.maximum(alObjective.lam-kappa*c, 0.0)\n", "    if solverSuccess:\n        alObjective.lam = np.maximum(alObjective.lam-kappa*c, 0.0)\n"), D2),
        Variant("parameters not installed without warm start", A, sub_in_func(D, "        alObjective.p = p\n    else:\n        alObjective.p = p\n", "        alObjective.p = p\n"), D1),
        Variant("newton-only mode hands back the last iterate", A, sub_in_func(D, "    raise NameError('Loadstep failed to converge in', maxAlIters, 'iterations.')\n", "    if not alSettings.use_newton_only:\n        raise NameError('Loadstep failed to converge in', maxAlIters, 'iterations.')\n"), D1),
        Variant("early return after an accepted second-order step (multipliers never projected)", A, sub_in_func(D, "                    x = y\n                    break", "                    x = y\n                    if errorNorm < alSettings.tol:\n                        return x\n                    break"), D2),
        Variant("penalty growth capped by a multiple of the smallest penalty", A, sub("set(alSettings.penalty_scaling*kappa[poorProgress])", "set(np.minimum(alSettings.penalty_scaling*kappa[poorProgress], 1e6*np.min(kappa)))"), D3),
        Variant("penalty switch on the initial penalties", C, sub_in_func("ConstrainedObjective.create_augmented_lagrangian", "np.where( l >= k*c,", "np.where( l >= self.constraintKappa*c,"), D4),
        Variant("inverse scaling taken before the constraint softening", O, sub("            scaling = scaling.at[constrainedIndices].multiply(1.0/constraintStiffnessScaling)\n            invScaling = 1.0/scaling\n",
                                                                            "            invScaling = 1.0/scaling\n            scaling = scaling.at[constrainedIndices].multiply(1.0/constraintStiffnessScaling)\n"), D5),
        Variant("x1 + clip to the wrong side", A, R("x1:" + A, ("np.clip(lam - kappa*c, 0.0, None)", "np.clip(lam - kappa*c, None, 0.0)")), D2),
        Variant("x1 + convergence helper with a factor", A, R("x1:" + A, ("    return state.errorNorm < alSettings.tol", "    return state.errorNorm < 10*alSettings.tol")), D1),
        Variant("x2 + penalty without the factor 1/2", C, R("x2:" + C, ("return (shifted*shifted - l*l) / (2.0*k)", "return (shifted*shifted - l*l) / k")), D4),
        Variant("x2 + split off by one", C, R("x2:" + C, ("nx = xl.size - k.size", "nx = xl.size - k.size - 1")), D15),
        Variant("x3 + divide by the scaling twice", B, R("x3:" + B, ("    return xBar / scale", "    return xBar / scale / scale")), D5),
        Variant("x3 + objective sees the scaled point", O, R("x3:" + O, ("objective_func(xBar/scaling, q)", "objective_func(xBar*scaling, q)")), D5),
        Variant("x4 + multipliers not restored", A, R("x4:" + A, ("            alObjective.lam = lamSave\n            dx, dl = 0.2*dx, 0.2*dl", "            dx, dl = 0.2*dx, 0.2*dl")), D2),
        Variant("x4 + returns when not converged late", A, R("x4:" + A, ("        if errorNorm >= alSettings.tol:\n            continue", "        if errorNorm >= alSettings.tol and it < 5:\n            continue")), D1),
        Variant("x5 + penalties divided", A, R("x5:" + A, ("kappa.at[stalled].multiply(alSettings.penalty_scaling)", "kappa.at[stalled].multiply(1.0/alSettings.penalty_scaling)")), D3),
        Variant("x5 + constraint instead of complementarity in the error", A, R("x5:" + A, ("norm(np.hstack((alObjective.gradient(x), alObjective.ncp(x))))", "norm(np.hstack((alObjective.gradient(x), alObjective.constraint(x))))")), D1),
    ]
