"""C06_variants -- additional self-test inputs of the C06 rules (thorough tier): bolder behaviour-preserving restructurings of the
analysed functions (each checked bit-for-bit against the original on a numerical spot check when it was written) and further subtle
breaking edits.  They are test inputs of the checker, not rules; a variant that does not apply to the current tree is skipped."""
from __future__ import annotations

from optilint.selftest import Variant, sub, sub_in_func

E = "optimism/EquationSolver.py"
S = "optimism/EquationSolverSubspace.py"
T = "optimism/treigen/treigen.py"


def replace_between(start, end, new):
    """replace the text from the unique marker `start` up to (excluding) the unique marker `end`"""
    def f(src):
        if src.count(start) != 1 or src.count(end) != 1:
            return None
        i0, i1 = src.index(start), src.index(end)
        if i1 <= i0:
            return None
        return src[:i0] + new + src[i1:]
    return f


def chain(*edits):
    def f(src):
        for e in edits:
            src = e(src)
            if src is None:
                return None
        return src
    return f


# the CG solver with a namedtuple carry, a while loop with its own counter, break + flag, the projection after the loop
CG_RECORD_BREAK = "_CgState = namedtuple('_CgState', ['z', 'r', 'd', 'rPr', 'zz', 'zd', 'dd'])\n\n\ndef _cg_exit_on_boundary(state, trSize):\n    return project_to_boundary_with_coefs(state.z, state.d, trSize,\n                                          state.zz, state.zd, state.dd)\n\n\ndef solve_trust_region_minimization(x, r, hess_vec_func, precond, trSize, settings):\n    # minimize r@z + 0.5*z@J@z\n    z = 0.*x\n\n    cgInexactRelTol = settings.cg_inexact_solve_ratio\n    cgTolSquared = max(settings.cg_tol**2, cgInexactRelTol*cgInexactRelTol*r@r)\n    if r@r < cgTolSquared:\n        return z, z, interiorString, 0\n\n    Pr = precond(r)\n    d = -Pr\n    cauchyP = np.array(d)\n    rPr = r@Pr\n\n    usePrecond = settings.use_preconditioned_inner_product_for_cg\n    update_inner_products = cg_inner_products_preconditioned if usePrecond else cg_inner_products_unpreconditioned\n    state = _CgState(z=z, r=r, d=d, rPr=rPr, zz=0.0, zd=0.0,\n                     dd=rPr if usePrecond else d @ d)\n\n    stepType = None\n    i = 0\n    while i < settings.max_cg_iters:\n        i += 1\n        Hd = hess_vec_func(state.d)\n        curvature = state.d @ Hd\n        alpha = state.rPr / curvature\n\n        zNp1 = state.z + alpha*state.d\n        zzNp1 = update_step_length_squared(alpha, state.zz, state.zd, state.dd)\n\n        if curvature <= 0:\n            stepType = negCurveString\n            break\n\n        if zzNp1 > trSize**2:\n            stepType = boundaryString\n            break\n\n        rNp1 = state.r + alpha * Hd\n        PrNp1 = precond(rNp1)\n        rPrNp1 = rNp1@PrNp1\n\n        if rNp1@rNp1 < cgTolSquared:\n            return zNp1, cauchyP, interiorString, i\n\n        beta = rPrNp1 / state.rPr\n        dNp1 = -PrNp1 + beta*state.d\n        zd, dd = update_inner_products(alpha, beta, state.zd, state.dd, rPrNp1, zNp1, dNp1)\n        state = _CgState(z=zNp1, r=rNp1, d=dNp1, rPr=rPrNp1, zz=zzNp1, zd=zd, dd=dd)\n\n    if stepType is None:\n        return state.z, cauchyP, interiorString+'_', i\n    return _cg_exit_on_boundary(state, trSize), cauchyP, stepType, i\n\n\n"

# the CG solver with the loop body moved into a private function that returns (result or None, next state), a dict carry
CG_STEP_FUNCTION = "def _cg_iteration(i, state, hess_vec_func, precond, trSize, cgTolSquared, cauchyP, cg_inner_products):\n    # one iteration of truncated cg; returns (result or None, next state or None)\n    z, r, d = state['z'], state['r'], state['d']\n    rPr, zz, zd, dd = state['rPr'], state['zz'], state['zd'], state['dd']\n\n    curvature = d@( hess_vec_func(d) )\n    alpha = rPr / curvature\n\n    zNp1 = z + alpha*d\n    zzNp1 = update_step_length_squared(alpha, zz, zd, dd)\n\n    if curvature <= 0:\n        zOut = project_to_boundary_with_coefs(z, d, trSize, zz, zd, dd)\n        return (zOut, cauchyP, negCurveString, i+1), None\n\n    if zzNp1 > trSize**2:\n        zOut = project_to_boundary_with_coefs(z, d, trSize, zz, zd, dd)\n        return (zOut, cauchyP, boundaryString, i+1), None\n\n    r = r + alpha * hess_vec_func(d)\n    Pr = precond(r)\n    rPrNp1 = r@Pr\n\n    if r@r < cgTolSquared:\n        return (zNp1, cauchyP, interiorString, i+1), None\n\n    beta = rPrNp1 / rPr\n    dNp1 = -Pr + beta*d\n    zd, dd = cg_inner_products(alpha, beta, zd, dd, rPrNp1, zNp1, dNp1)\n    return None, dict(z=zNp1, r=r, d=dNp1, rPr=rPrNp1, zz=zzNp1, zd=zd, dd=dd)\n\n\ndef solve_trust_region_minimization(x, r, hess_vec_func, precond, trSize, settings):\n    # minimize r@z + 0.5*z@J@z\n    z = 0.*x\n\n    cgInexactRelTol = settings.cg_inexact_solve_ratio\n    cgTolSquared = max(settings.cg_tol**2, cgInexactRelTol*cgInexactRelTol*r@r)\n    if r@r < cgTolSquared:\n        return z, z, interiorString, 0\n\n    Pr = precond(r)\n    d = -Pr\n    cauchyP = np.array(d)\n    rPr = r@Pr\n\n    if settings.use_preconditioned_inner_product_for_cg:\n        state = dict(z=z, r=r, d=d, rPr=rPr, zz=0.0, zd=0.0, dd=rPr)\n        cg_inner_products = cg_inner_products_preconditioned\n    else:\n        state = dict(z=z, r=r, d=d, rPr=rPr, zz=0.0, zd=0.0, dd=d @ d)\n        cg_inner_products = cg_inner_products_unpreconditioned\n\n    for i in range(settings.max_cg_iters):\n        result, nextState = _cg_iteration(i, state, hess_vec_func, precond, trSize,\n                                          cgTolSquared, cauchyP, cg_inner_products)\n        if result is not None:\n            return result\n        state = nextState\n\n    return state['z'], cauchyP, interiorString+'_', i+1\n\n\n"

# as above with a mutable dict that the step function updates in place
CG_MUTABLE_STATE = "def _cg_iteration(i, state, hess_vec_func, precond, trSize, cgTolSquared, cauchyP, cg_inner_products):\n    # one iteration of truncated cg; returns (result or None, next state or None)\n    z, r, d = state['z'], state['r'], state['d']\n    rPr, zz, zd, dd = state['rPr'], state['zz'], state['zd'], state['dd']\n\n    curvature = d@( hess_vec_func(d) )\n    alpha = rPr / curvature\n\n    zNp1 = z + alpha*d\n    zzNp1 = update_step_length_squared(alpha, zz, zd, dd)\n\n    if curvature <= 0:\n        zOut = project_to_boundary_with_coefs(z, d, trSize, zz, zd, dd)\n        return (zOut, cauchyP, negCurveString, i+1)\n\n    if zzNp1 > trSize**2:\n        zOut = project_to_boundary_with_coefs(z, d, trSize, zz, zd, dd)\n        return (zOut, cauchyP, boundaryString, i+1)\n\n    r = r + alpha * hess_vec_func(d)\n    Pr = precond(r)\n    rPrNp1 = r@Pr\n\n    if r@r < cgTolSquared:\n        return (zNp1, cauchyP, interiorString, i+1)\n\n    beta = rPrNp1 / rPr\n    dNp1 = -Pr + beta*d\n    zd, dd = cg_inner_products(alpha, beta, zd, dd, rPrNp1, zNp1, dNp1)\n    state['z'] = zNp1\n    state['r'] = r\n    state['d'] = dNp1\n    state.update(rPr=rPrNp1, zz=zzNp1, zd=zd, dd=dd)\n    return None\n\n\ndef solve_trust_region_minimization(x, r, hess_vec_func, precond, trSize, settings):\n    # minimize r@z + 0.5*z@J@z\n    z = 0.*x\n\n    cgInexactRelTol = settings.cg_inexact_solve_ratio\n    cgTolSquared = max(settings.cg_tol**2, cgInexactRelTol*cgInexactRelTol*r@r)\n    if r@r < cgTolSquared:\n        return z, z, interiorString, 0\n\n    Pr = precond(r)\n    d = -Pr\n    cauchyP = np.array(d)\n    rPr = r@Pr\n\n    if settings.use_preconditioned_inner_product_for_cg:\n        state = dict(z=z, r=r, d=d, rPr=rPr, zz=0.0, zd=0.0, dd=rPr)\n        cg_inner_products = cg_inner_products_preconditioned\n    else:\n        state = dict(z=z, r=r, d=d, rPr=rPr, zz=0.0, zd=0.0, dd=d @ d)\n        cg_inner_products = cg_inner_products_unpreconditioned\n\n    for i in range(settings.max_cg_iters):\n        result = _cg_iteration(i, state, hess_vec_func, precond, trSize,\n                               cgTolSquared, cauchyP, cg_inner_products)\n        if result is not None:\n            return result\n\n    return state['z'], cauchyP, interiorString+'_', i+1\n\n\n"


DOGLEG_OLD = """    if cc >= tt: #return cauchy point if it extends outside the tr
        #print('cp on boundary')
        return cp * np.sqrt(tt/cc)

    if cc > nn: # return cauchy point?  seems the preconditioner was not accurate?
        print('cp outside newton, preconditioner likely inaccurate')
        return cp

    if nn > tt: # on the dogleg (we have nn >= cc, and tt >= cc)
        #print('dogleg')
        return preconditioned_project_to_boundary(cp,
                                                  newtonP-cp,
                                                  trSize,
                                                  cc,
                                                  mat_mul)
    #print('quasi-newton step')
    return newtonP
"""
DOGLEG_NESTED = """    cauchyInside = not (cc >= tt)
    if cauchyInside:
        if cc > nn: # return cauchy point?  seems the preconditioner was not accurate?
            print('cp outside newton, preconditioner likely inaccurate')
            return cp
        newtonOutside = nn > tt
        if newtonOutside: # on the dogleg (we have nn >= cc, and tt >= cc)
            legToNewton = newtonP-cp
            return preconditioned_project_to_boundary(cp, legToNewton, trSize,
                                                      zz=cc, mult_by_approx_hessian=mat_mul)
        return newtonP
    #return cauchy point scaled back if it extends outside the tr
    return cp * np.sqrt(tt/cc)
"""
# the projection written out in the dogleg step, with the rationalised form of the root
DOGLEG_INLINE = """    if cc >= tt:
        return cp * np.sqrt(tt/cc)

    if cc > nn:
        print('cp outside newton, preconditioner likely inaccurate')
        return cp

    if nn > tt:
        leg = newtonP-cp
        Mleg = mat_mul(leg)
        ll = np.dot(leg, Mleg)
        cl = np.dot(cp, Mleg)
        tau = (tt - cc) / (cl + np.sqrt(cl*cl + ll*(tt - cc)))
        return cp + tau*leg
    return newtonP
"""
CAUCHY_OLD = """        gKg = g@hess_vec_func(g)
        if gKg > 0:
            alpha = -(g@g) / gKg
            cauchyPoint = alpha * g
            cauchyPointNormSquared = cauchyPoint@mult_by_approx_hessian(cauchyPoint)
        else:
            cauchyPoint =  -g * (trSize / np.sqrt(g@mult_by_approx_hessian(g)))
"""
CAUCHY_STEEPEST = """        gKg = g@hess_vec_func(g)
        steepestDescent = -g
        if gKg > 0:
            cauchyPoint = ((g@g) / gKg) * steepestDescent
            cauchyPointNormSquared = cauchyPoint@mult_by_approx_hessian(cauchyPoint)
        else:
            cauchyPoint =  steepestDescent * (trSize / np.sqrt(g@mult_by_approx_hessian(g)))
"""
TRCG_OLD = """        if curvature <= 0:
            zz = np.dot(z, z)
            zd = np.dot(z, d)
            dd = np.dot(d, d)
            zOut = project_to_boundary_with_coefs(z, d, trSize,
                                                  zz, zd, dd)
            return zOut, negCurveString, i+1
            
        if np.dot(zNp1, zNp1) > trSize**2:
            zz = np.dot(z, z)
            zd = np.dot(z, d)
            dd = np.dot(d, d)
            zOut = project_to_boundary_with_coefs(z, d, trSize,
                                                  zz, zd, dd)
            return zOut, boundaryString, i+1
"""
TRCG_MERGED = """        leavesRegion = curvature <= 0 or np.dot(zNp1, zNp1) > trSize**2
        if leavesRegion:
            zOut = project_to_boundary(z, d, trSize, np.dot(z, z))
            return zOut, (negCurveString if curvature <= 0 else boundaryString), i+1
"""


def treigen_closures(src):
    e = chain(
        sub("    sig, v = eigh(A)\n    bv = v.T@b\n    bvv = bv*bv\n",
            "    sig, v = eigh(A)\n    vT = v.T\n    bv = vT@b\n    bvv = bv*bv\n\n    def step_for(shift):\n        return -v@(bv/(sig+shift))\n"),
        sub("    minSig = sig[0]\n\n    # consider bounding the initial guess, see More' Sorenson paper\n    lam = -minSig + eps if minSig < eps else 0.0\n",
            "    minSig = sig[0]\n    nearlySingular = minSig < eps\n\n    lam = -minSig + eps if nearlySingular else 0.0\n"),
        sub("    if minSig < eps and norm(bv/(sig+lam)) < Delta:\n        p = -v@(bv/(sig+lam))\n        z = v[:,0]\n        pz = p@z\n        pp = p@p\n",
            "    if nearlySingular and norm(bv/(sig+lam)) < Delta:\n        p = step_for(lam)\n        z = vT[0]\n        pz = np.dot(p, z)\n        pp = np.dot(p, p)\n"),
        sub("    while np.abs(bError) > 1e-9:\n", "    while True:\n        if not np.abs(bError) > 1e-9:\n            break\n"),
        sub("\n    return -v@(bv/(sig+lam))", "\n    return step_for(lam)"),
    )
    return e(src)


def more_variants():
    cg_marks = ("def solve_trust_region_minimization(", "# essentially deprecated")
    return [
        # ---- preserving
        Variant("CG: record carry, while + break, projection after the loop", E, replace_between(*cg_marks, CG_RECORD_BREAK), None),
        Variant("CG: loop body in a step function, dict carry", E, replace_between(*cg_marks, CG_STEP_FUNCTION), None),
        Variant("CG: step function updating a mutable dict carry in place", E, replace_between(*cg_marks, CG_MUTABLE_STATE), None),
        Variant("treigen: method mean, np.min, np.where for the initial multiplier", T,
                chain(sub("    sigScale = np.mean( np.abs(sig) )\n    eps = 1e-12 * sigScale\n    minSig = sig[0]\n", "    eps = 1e-12 * np.abs(sig).mean()\n    minSig = np.min(sig)\n"),
                      sub("    lam = -minSig + eps if minSig < eps else 0.0\n", "    lam = np.where(minSig < eps, -minSig + eps, 0.0)\n")), None),
        Variant("dogleg: nested tests, keyword call", E, sub(DOGLEG_OLD, DOGLEG_NESTED), None),
        Variant("dogleg: projection written out, rationalised root", E, sub(DOGLEG_OLD, DOGLEG_INLINE), None),
        Variant("cauchy point as multiple of the steepest descent direction", E, sub(CAUCHY_OLD, CAUCHY_STEEPEST), None),
        Variant("subspace CG: merged exits through project_to_boundary", S,
                chain(sub("from optimism.EquationSolver import Settings,", "from optimism.EquationSolver import project_to_boundary\nfrom optimism.EquationSolver import Settings,"),
                      sub(TRCG_OLD, TRCG_MERGED)), None),
        Variant("treigen: closure for the step, v.T[0], while True + break", T, treigen_closures, None),
        Variant("CG: recurrences written into the loop", E,
                sub("        zd, dd = cg_inner_products(alpha, beta, zd, dd, rPr, z, d)\n",
                    "        if settings.use_preconditioned_inner_product_for_cg:\n            zd = beta * ( zd + alpha*dd )\n            dd = rPr + beta*beta*dd\n"
                    "        else:\n            zd = np.vdot(z, d)\n            dd = np.sum(d*d)\n"), None),
        Variant("CG: zeros_like, dot spellings", E,
                chain(sub_in_func("solve_trust_region_minimization", "    z = 0.*x\n    zz = 0.\n", "    z = np.zeros_like(x)\n"),
                      sub_in_func("solve_trust_region_minimization", "    rPr = r@Pr\n", "    rPr = np.dot(Pr, r)\n"),
                      sub_in_func("solve_trust_region_minimization", "        dd = d @ d\n", "        dd = np.inner(d, d)\n")), None),
        # ---- breaking
        Variant("zz never advanced", E, sub_in_func("solve_trust_region_minimization", "        zz = zzNp1\n", ""), "D1/T1-labelled-exits"),
        Variant("Euclidean mode starts from the preconditioned dd", E, sub_in_func("solve_trust_region_minimization", "        dd = d @ d\n", "        dd = rPr\n"), "D1/T1-labelled-exits"),
        Variant("preconditioned mode starts from the Euclidean dd", E, sub_in_func("solve_trust_region_minimization", "        dd = rPr\n", "        dd = d @ d\n"), "D1/T1-labelled-exits"),
        Variant("subspace CG: curvature guard flipped", S, sub_in_func("trust_region_cg", "        if curvature <= 0:", "        if curvature >= 0:"), "D1/T1-labelled-exits"),
        Variant("subspace CG: boundary exit returns the tentative iterate", S,
                sub_in_func("trust_region_cg", "            return zOut, boundaryString, i+1", "            return zNp1, boundaryString, i+1"), "D1/T1-labelled-exits"),
        Variant("recurrence called before the direction update", E,
                sub("        d = -Pr + beta*d\n\n        zz = zzNp1\n        zd, dd = cg_inner_products(alpha, beta, zd, dd, rPr, z, d)\n",
                    "        zz = zzNp1\n        zd, dd = cg_inner_products(alpha, beta, zd, dd, rPr, z, d)\n        d = -Pr + beta*d\n"), "D1/T7-recurrences"),
        Variant("residual advanced without the step length", E,
                sub_in_func("solve_trust_region_minimization", "        r += alpha * hess_vec_func(d)\n", "        r += hess_vec_func(d)\n"), "D1/T1-labelled-exits"),
        Variant("subspace CG: residual advanced with the wrong sign", S,
                sub_in_func("trust_region_cg", "        r += alpha * hess_vec_func(d)\n", "        r -= alpha * hess_vec_func(d)\n"), "D1/T1-labelled-exits"),
        Variant("direction update with the wrong sign of beta", E,
                sub_in_func("solve_trust_region_minimization", "        d = -Pr + beta*d\n", "        d = -Pr - beta*d\n"), "D1/T7-recurrences"),
        Variant("recurrence results swapped", E, sub_in_func("solve_trust_region_minimization", "        zd, dd = cg_inner_products(", "        dd, zd = cg_inner_products("), "D1/T7-recurrences"),
        Variant("zd recurrence without the step length", E, sub_in_func("cg_inner_products_preconditioned", "zd = beta * ( zd + alpha*dd )", "zd = beta * ( zd + dd )"), "D1/T7-recurrences"),
        Variant("interior exit returns the previous iterate", E,
                sub_in_func("solve_trust_region_minimization", "            return z, cauchyP, interiorString, i+1", "            return z - alpha*d, cauchyP, interiorString, i+1"), "D1/T1-labelled-exits"),
        Variant("boundary exit projects from the tentative iterate", E,
                sub_in_func("solve_trust_region_minimization", "            zOut = project_to_boundary_with_coefs(z, d, trSize,", "            zOut = project_to_boundary_with_coefs(zNp1, d, trSize,", nth=1), "D1/T1-labelled-exits"),
        Variant("projection uses <d,d> for <z,d>", E, sub_in_func("project_to_boundary", "    zd = np.dot(z,d)", "    zd = np.dot(d,d)"), "D1/T7-boundary-norm-identity"),
        Variant("projection returns the backward root", E, sub_in_func("project_to_boundary_with_coefs", "tau = (np.sqrt( (trSize**2-zz)*dd + zd**2 ) - zd)/dd", "tau = (-np.sqrt( (trSize**2-zz)*dd + zd**2 ) - zd)/dd"), "D1/T7-boundary-norm-identity"),
        Variant("step length update without the square", E, sub_in_func("update_step_length_squared", "alpha*alpha*dd", "alpha*dd"), "D1/T7-boundary-norm-identity"),
        Variant("dogleg scales the Cauchy point outwards", E, sub_in_func("dogleg_step", "return cp * np.sqrt(tt/cc)", "return cp * np.sqrt(cc/tt)"), "D2/T1-dogleg"),
        Variant("dogleg leg reversed", E, sub_in_func("dogleg_step", "                                                  newtonP-cp,", "                                                  cp-newtonP,"), "D2/T1-dogleg"),
        Variant("negative-curvature Cauchy point uphill", E, sub_in_func("trust_region_minimize", "            cauchyPoint =  -g * (trSize", "            cauchyPoint =  g * (trSize"), "D2/T8-cauchy-direction"),
        Variant("initial multiplier below the pole", T, sub("    lam = -minSig + eps if minSig < eps else 0.0", "    lam = -minSig - eps if minSig < eps else 0.0"), "D3/T8-pole-offset-nonnegative"),
        Variant("hard case uses a non-unit direction", T, sub("        z = v[:,0]", "        z = 2.0*v[:,0]"), "D3/T7-hard-case-multiplier"),
        Variant("hard case multiplier divides by p.z", T, sub("tau = ddmpp / (pz + pzSign*np.sqrt(pz*pz + ddmpp))", "tau = 0.5 * ddmpp / pz"), "D3/T7-hard-case-multiplier"),
    ]
