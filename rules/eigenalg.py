"""Exact algebra of the closed-form symmetric 3x3 eigen solver (C12, rule O2/T7-eigen-solver-algebra).

The scalar part of `eigen_sym33_non_unit` is straight-line code over the nine entries of the input.  It is lowered
statement by statement to exact rational normal forms (optilint.expr); statements that are not scalar-polynomial
(arrays, pivot selections) become fresh atoms, so everything downstream of them is still related exactly to them.
Roles are found from the algebra, never from local names:

  S = sym(T), m = tr(S)/3, D = S - m I, J2 = 1/2 D:D, det D  (reference quantities built from the parameter)

  guard           every assigned comparison `X < B` whose left side is a quadratic form of the input must have
                  X == -J2, and B must be a negative semi-definite quadratic form of the input (or 0): the switch
                  between "general" and "spherical" treatment is scale invariant and can never be taken for a
                  tensor with a non-zero deviator because of the sign of its trace;
  cubic           the argument of the trigonometric root equals det(D)/2 (3/J2)^(3/2) (on J2 > 0);
  largest-root    eigenvalue = 2 sqrt(J2/3) * cos-atom * sign-atom, both atoms applied to that argument;
  deflated-2x2    the two remaining eigenvalues e0, e1 satisfy e0 + e1 = xx + yy and e0 e1 = xx yy - xy^2 for EVERY
                  value the sign factor can take (a factor that can be 0 needs the radicand to vanish there);
  shift           returned eigenvalues are the deviatoric ones plus m; the spherical branch returns (m, m, m) and three
                  orthonormal constant vectors.
"""
from __future__ import annotations

import ast
import copy
from fractions import Fraction

from optilint.model import dotted
from optilint.expr import Algebra, NotPolynomial, Rat, Poly, simplify, poly_div_exact
from .common import src

SELECT = ("where", "if_then_else")


def _last(call):
    return (dotted(call.func) or "").split(".")[-1]


class Exec:
    """Tolerant straight-line lowering of one function body."""

    def __init__(self, scope, choose=()):
        self.scope = scope
        self.A = Algebra()
        self.env = {}
        self.snap = {}          # name -> [(stmt, Rat)]
        self.cmps = {}          # name -> (stmt, opname, left Rat|None, right Rat|None)
        self.exprs = {}         # name -> [(stmt, value ast)]
        self.choose = set(choose)   # names of conditions assumed True
        self.fresh = 0
        self.env_at = {}        # id(stmt) -> environment just before it

    def _prep(self, e):
        ex = self

        class Sel(ast.NodeTransformer):
            def visit_Call(self, n):
                n = self.generic_visit(n)
                if _last(n) in SELECT and len(n.args) == 3 and isinstance(n.args[0], ast.Name) and n.args[0].id in ex.choose:
                    return n.args[1]
                if _last(n) not in ("sqrt", "safe_sqrt", "square", "float", "float64"):
                    # opaque call: one atom per call site (short, version-safe name)
                    return ast.Name(id=f"{_last(n)}@{getattr(n, 'lineno', 0)}:{getattr(n, 'col_offset', 0)}", ctx=ast.Load())
                return n
        return Sel().visit(copy.deepcopy(e))

    def low(self, e):
        a2 = Algebra(env=self.env)
        a2.rules = self.A.rules
        r = a2.lower(self._prep(e))
        if len(r.n.t) > 260 or len(r.d.t) > 120:
            raise NotPolynomial("too large")
        return r

    def _fresh(self, name, st):
        self.fresh += 1
        return self.A.atom(f"{name}@{getattr(st, 'lineno', 0)}")

    def _bind(self, name, st, val_ast, val):
        self.env[name] = val
        self.snap.setdefault(name, []).append((st, val))
        self.exprs.setdefault(name, []).append((st, val_ast))

    def run(self):
        for st in self.scope.node.body:
            self.env_at[id(st)] = dict(self.env)
            if isinstance(st, ast.Assign) and len(st.targets) == 1 and isinstance(st.targets[0], ast.Name):
                nm = st.targets[0].id
                v = st.value
                if isinstance(v, ast.Compare) and len(v.ops) == 1:
                    try:
                        l, r = self.low(v.left), self.low(v.comparators[0])
                    except NotPolynomial:
                        l = r = None
                    self.cmps[nm] = (st, type(v.ops[0]).__name__, l, r)
                    self._bind(nm, st, v, self._fresh(nm, st))
                    continue
                try:
                    val = self.low(v)
                except NotPolynomial:
                    val = self._fresh(nm, st)
                self._bind(nm, st, v, val)
            elif isinstance(st, ast.AugAssign) and isinstance(st.target, ast.Name):
                nm = st.target.id
                cur = self.env.get(nm, self.A.atom(nm))
                try:
                    v = self.low(st.value)
                    if isinstance(st.op, ast.Add):
                        val = self.A.norm(cur + v)
                    elif isinstance(st.op, ast.Sub):
                        val = self.A.norm(cur - v)
                    elif isinstance(st.op, ast.Mult):
                        val = self.A.norm(cur * v)
                    else:
                        raise NotPolynomial("augmented op")
                except NotPolynomial:
                    val = self._fresh(nm, st)
                self._bind(nm, st, ast.BinOp(left=ast.Name(id=nm, ctx=ast.Load()), op=st.op, right=st.value), val)
            elif isinstance(st, ast.Assign) and len(st.targets) == 1 and isinstance(st.targets[0], ast.Tuple):
                for t in st.targets[0].elts:
                    if isinstance(t, ast.Name):
                        self._bind(t.id, st, st.value, self._fresh(t.id, st))
        return self


def reference(A: Algebra, t: str):
    """S, m, D, J2, det D of the symmetrised parameter `t` as exact polynomials in its nine entries."""
    T = [[A.atom(f"{t}[{i}, {j}]") for j in range(3)] for i in range(3)]
    half = A.const(Fraction(1, 2))
    S = [[half * (T[i][j] + T[j][i]) for j in range(3)] for i in range(3)]
    m = (S[0][0] + S[1][1] + S[2][2]) * A.const(Fraction(1, 3))
    D = [[S[i][j] - (m if i == j else A.const(0)) for j in range(3)] for i in range(3)]
    J2 = A.const(0)
    for i in range(3):
        for j in range(3):
            J2 = J2 + D[i][j] * D[i][j]
    J2 = half * J2
    det = (D[0][0] * (D[1][1] * D[2][2] - D[1][2] * D[2][1]) - D[0][1] * (D[1][0] * D[2][2] - D[1][2] * D[2][0])
           + D[0][2] * (D[1][0] * D[2][1] - D[1][1] * D[2][0]))
    return T, S, m, D, J2, det


def _input_atoms(t):
    return [f"{t}[{i}, {j}]" for i in range(3) for j in range(3)]


def _as_poly(r: Rat):
    """The polynomial equal to `r` when its denominator is a constant, else None."""
    if not r.d.is_const() or r.d.is_zero():
        return None
    c = r.d.const_value()
    return Poly({m: v / c for m, v in r.n.t.items()})


def quadratic_form_sign(p: Rat, atoms):
    """For a polynomial that is a quadratic form in `atoms`: 'nsd', 'psd', 'zero', 'indefinite'; None if it is not one."""
    pp = _as_poly(p)
    if pp is None:
        return None
    p = Rat(pp)
    n = len(atoms)
    ix = {a: k for k, a in enumerate(atoms)}
    M = [[Fraction(0)] * n for _ in range(n)]
    for mono, c in p.n.t.items():
        deg = sum(e for _, e in mono)
        if deg != 2 or any(k not in ix for k, _ in mono):
            return None
        if len(mono) == 1:
            M[ix[mono[0][0]]][ix[mono[0][0]]] += c
        else:
            i, j = ix[mono[0][0]], ix[mono[1][0]]
            M[i][j] += c / 2
            M[j][i] += c / 2
    if all(all(x == 0 for x in row) for row in M):
        return "zero"
    # exact symmetric elimination (LDL^T with symmetric pivoting on the diagonal)
    M = [row[:] for row in M]
    signs = set()
    alive = list(range(n))
    while alive:
        piv = next((i for i in alive if M[i][i] != 0), None)
        if piv is None:
            if any(M[i][j] != 0 for i in alive for j in alive):
                return "indefinite"
            break
        d = M[piv][piv]
        signs.add(1 if d > 0 else -1)
        alive.remove(piv)
        for i in alive:
            f = M[i][piv] / d
            if f != 0:
                for j in alive:
                    M[i][j] -= f * M[piv][j]
        for i in alive:
            M[i][piv] = M[piv][i] = Fraction(0)
    if signs == {1}:
        return "psd"
    if signs == {-1}:
        return "nsd"
    return "indefinite"


def sign_factor_range(e, ex: Exec):
    """Finite range of a sign-like factor: list of (value Fraction, constraint) where constraint is None or
    ('zero', Rat) meaning "only when that quantity is 0".  None when the expression is not recognised."""
    if isinstance(e, ast.Name) and e.id in ex.exprs:
        return sign_factor_range(ex.exprs[e.id][-1][1], ex)
    if isinstance(e, ast.Call):
        last = _last(e)
        if last == "sign" and len(e.args) == 1:
            try:
                q = ex.low(e.args[0])
            except NotPolynomial:
                return None
            return [(Fraction(1), None), (Fraction(-1), None), (Fraction(0), ("zero", q))]
        if last in SELECT and len(e.args) == 3:
            out = []
            for a in e.args[1:]:
                try:
                    v = ex.low(a)
                except NotPolynomial:
                    return None
                if not (v.n.is_const() and v.d.is_const()):
                    return None
                out.append((v.n.const_value() / v.d.const_value(), None))
            return out
    return None


def run(ctx, rule, qual):
    """The obligations of the eigen-solver algebra.  The solver is interpreted *symbolically as a whole* (rules/C12_eigen.py on top of
    rules/C12_sym.py: helper functions are followed, conditions are symbolic, selections are registered atoms, all roles are read off the
    values), which does not depend on statement order, local names, scalar-vs-vector selects or the split into helper functions.  The
    statement-wise lowering below (`run_statementwise`) is kept as the reference implementation of the same obligations; it reads
    straight-line code of one function only."""
    from . import C12_eigen
    return C12_eigen.run(ctx, rule, qual)


def run_statementwise(ctx, rule, qual):
    nu = ctx.need(qual)
    t = nu.params()[0]
    pre = Exec(nu).run()
    A0 = pre.A
    T, S, m, D, J2, det = reference(A0, t)
    inputs = _input_atoms(t)
    negJ2 = A0.norm(-J2)

    # ---- guards: comparisons of a quadratic form of the input
    guards = []
    for nm, (st, op, l, r) in pre.cmps.items():
        if l is None or op not in ("Lt", "LtE"):
            continue
        if quadratic_form_sign(l, inputs) is None:
            continue
        guards.append((nm, st, op, l, r))
    if len(guards) < 2:
        ctx.undecided(rule, nu, None, construct="guards", detail=f"{len(guards)} comparisons of a quadratic invariant found (2 expected: trigonometric-branch guard and spherical guard)")
        return
    for nm, st, op, l, r in guards:
        ctx.decide(rule, A0.equal(l, negJ2), nu, st, construct=f"guard:{_ordinal(guards, nm)}:compares-second-deviatoric-invariant",
                   detail="left side == -J2(dev sym T)",
                   bad_detail=f"`{src(st)}`: the compared quantity is not -1/2 dev:dev of the symmetrised input")
        kind = "zero" if (r.n.is_zero()) else quadratic_form_sign(r, inputs)
        ok = kind in ("zero", "nsd")
        wit = ""
        if kind in ("psd", "indefinite") or kind is None:
            wit = _positive_witness(A0, r, inputs)
        ctx.decide(rule, ok if kind is not None or wit else None, nu, st, construct=f"guard:{_ordinal(guards, nm)}:threshold-nonpositive-and-degree-2",
                   detail=f"threshold is {'0' if kind == 'zero' else 'a negative semi-definite quadratic form of the input'}",
                   bad_detail=f"`{src(st)}`: the threshold `{src(st.value.comparators[0])}` = {r!r} is "
                              f"{'not homogeneous of degree 2 in the input' if kind is None else kind}; {wit}: a tensor with a non-zero deviator "
                              f"(-J2 < 0) can fail the test, or the test depends on the scale/sign of the input")
        # magnitude: when the guard treats the tensor as spherical the deviator |D|^2 = 2 J2 <= 2 |threshold| is discarded; for an input of
        # unit size (eigen_sym33_unit rescales to max-norm 1) that is a relative reconstruction error of at most sqrt(2 k), k = |threshold(I)|
        if kind == "nsd":
            try:
                k_ = abs(A0.eval(r, {a_: Fraction(1 if a_.endswith("0, 0]") or a_.endswith("1, 1]") or a_.endswith("2, 2]") else 0) for a_ in inputs}))
            except (KeyError, ZeroDivisionError):
                k_ = None
            if k_ is not None:
                bound = (2.0 * float(k_)) ** 0.5
                ctx.decide(rule, bound <= 1e-12, nu, st, construct=f"guard:{_ordinal(guards, nm)}:discarded-deviator-below-accuracy",
                           detail=f"a deviator is discarded only below {bound:.2g} of the tensor's size (<= 1e-12)",
                           bad_detail=f"`{src(st)}`: with the threshold {r!r} every tensor whose deviator is below {bound:.2g} of its size is returned with three "
                                      f"equal eigenvalues: nearly repeated eigenvalues are not resolved and the decomposition does not reconstruct the tensor to 1e-12")
    choose = {g[0] for g in guards}

    # ---- second pass under "deviator non-zero"
    ex = Exec(nu, choose=choose).run()
    A = ex.A
    T, S, m, D, J2, det = reference(A, t)

    # cubic argument: the name passed (through minimum/abs) to the trigonometric root, and to sign()
    trig = [c for c in ast.walk(nu.node) if isinstance(c, ast.Call) and _last(c).startswith("cos_of_acos")]
    if len(trig) != 1:
        ctx.undecided(rule, nu, None, construct="cubic:trigonometric-root-call", detail=f"{len(trig)} calls of cos_of_acos_divided_by_3 found")
        return
    arg = trig[0].args[0]
    while isinstance(arg, ast.Name) and arg.id in ex.exprs:
        arg = ex.exprs[arg.id][-1][1]
    rr_name = None
    ok_clip = False
    if isinstance(arg, ast.Call) and _last(arg) == "minimum" and len(arg.args) == 2:
        a0, a1 = arg.args
        if isinstance(a1, ast.Call):
            a0, a1 = a1, a0
        if isinstance(a0, ast.Call) and _last(a0) in ("abs", "fabs", "absolute") and isinstance(a0.args[0], ast.Name) \
                and isinstance(a1, ast.Constant) and a1.value == 1.0:
            rr_name = a0.args[0].id
            ok_clip = True
    ctx.decide(rule, ok_clip, nu, trig[0], construct="cubic:argument-is-min(|r|,1)", detail="cos(acos(min(|r|,1))/3)",
               bad_detail=f"the trigonometric root is applied to `{src(arg)}`, not to min(|r|, 1)")
    if rr_name is None or rr_name not in ex.snap:
        return
    rr = ex.snap[rr_name][-1][1]
    three = A.const(3)
    Tq = three / J2
    # r^2 == det^2/4 * (3/J2)^3 exactly, and the sign agrees at one point (r/expected is a rational function with square 1).
    # Cheap route first: r/det must be an exact quotient (then only small polynomials are compared).
    detp = _as_poly(A.norm(det))
    q = poly_div_exact(rr.n, detp) if detp is not None else None
    if q is not None:
        Rq = Rat(q, rr.d)
        ok_sq = A.equal(A.norm(Rq * Rq), A.norm(A.const(Fraction(1, 4)) * Tq * Tq * Tq))
    else:
        ok_sq = A.equal(A.norm(rr * rr), A.norm(det * det * A.const(Fraction(1, 4)) * Tq * Tq * Tq))
    ok_sign = None
    if ok_sq:
        pt = {a: Fraction(v) for a, v in zip(inputs, (2, 1, -1, 1, -3, 2, -1, 2, 5))}
        try:
            got = A.eval(rr, pt)
            want = A.eval(A.norm(det * A.const(Fraction(1, 2)) * Tq), pt) * (A.eval(Tq, pt) ** 0.5)
            ok_sign = abs(got - want) <= 1e-9 * max(1.0, abs(want))
        except (KeyError, ZeroDivisionError):
            ok_sign = None
    ctx.decide(rule, (ok_sq and ok_sign) if ok_sq is False or ok_sign is not None else None, nu, ex.snap[rr_name][-1][0],
               construct="cubic:r=det(D)/2*(3/J2)^(3/2)", detail="r^2 == det(D)^2/4 (3/J2)^3 exactly; sign fixed at one rational point",
               bad_detail=f"`{src(ex.snap[rr_name][-1][0])}` is not cos(3 phi) = det(D)/2 (3/J2)^(3/2) of the deviator "
                          f"({'square differs' if not ok_sq else 'opposite sign'})")

    # largest root: value * sqrt(3/J2) == 2 * cos-atom * sign-atom(rr)
    sel = [st for st in nu.node.body if isinstance(st, ast.Assign) and isinstance(st.value, ast.Call) and _last(st.value) in SELECT
           and len(st.value.args) == 3 and isinstance(st.value.args[0], ast.Name) and st.value.args[0].id in choose
           and any(isinstance(n, ast.Name) and n.id in _names_using(ex, trig[0]) for n in ast.walk(st.value.args[1]))]
    if sel:
        st = sel[0]
        nm = st.targets[0].id
        val = [v for (s, v) in ex.snap[nm] if s is st][0]
        e2 = A.norm(simplify(A.norm(val * val * Tq)))
        mono_ok = False
        detail = repr(e2)
        e2p = _as_poly(e2)
        if e2p is not None and len(e2p.t) == 1:
            (mono, c), = e2p.t.items()
            names = sorted(k for k, _ in mono)
            exps = [e for _, e in mono]
            has_cos = any(k.startswith("cos_of_acos") or "cos_of_acos" in k for k in names)
            has_sign = any(k.startswith("sign@") for k in names)
            mono_ok = c == 4 and all(e == 2 for e in exps) and len(names) == 2 and has_cos and has_sign
        sgn_arg_ok = any(isinstance(c, ast.Call) and _last(c) == "sign" and isinstance(c.args[0], ast.Name) and c.args[0].id == rr_name
                         for nmx in _names_using(ex, trig[0]) | {nm} for (_, e) in ex.exprs.get(nmx, []) for c in ast.walk(e))
        # positive orientation: value*sqrt(T) / (cos*sign) == +2 at a sample point is implied by the squared identity and the literal 2.0 > 0
        pos = _leading_positive(ex, nm, st)
        ctx.decide(rule, mono_ok and sgn_arg_ok and pos, nu, st, construct="largest-root:2*sqrt(J2/3)*cos*sign(r)",
                   detail="lambda^2 * 3/J2 == 4 cos^2 sign(r)^2 with the sign taken of the cubic argument",
                   bad_detail=f"`{src(st)}`: lambda^2*3/J2 lowers to {detail}; expected 4*cos(.)^2*sign(r)^2 with sign applied to `{rr_name}` and a positive factor")
    else:
        ctx.undecided(rule, nu, None, construct="largest-root", detail="select statement of the trigonometric root not found")

    # deflated 2x2 block
    _wilkinson(ctx, rule, nu, ex)

    # shift and spherical branch
    _shift(ctx, rule, nu, ex, m, choose)


def _ordinal(guards, nm):
    return [g[0] for g in guards].index(nm)


def _names_using(ex, call):
    """names whose defining expression (transitively) contains `call`."""
    out = set()
    changed = True
    while changed:
        changed = False
        for nm, lst in ex.exprs.items():
            if nm in out:
                continue
            for _, e in lst:
                if any(n is call for n in ast.walk(e)) or any(isinstance(n, ast.Name) and n.id in out for n in ast.walk(e)):
                    out.add(nm)
                    changed = True
                    break
    return out


def _leading_positive(ex, nm, st):
    """The literal numeric factors between the trigonometric / sign atoms and the root are positive (2.0, not -2.0).
    Calls are leaves: their arguments are not part of the product."""
    seen = set()
    stack = [st.value.args[1]]
    ok = True

    def walk(e):
        yield e
        if isinstance(e, ast.Call):
            return
        for c in ast.iter_child_nodes(e):
            yield from walk(c)
    while stack:
        e = stack.pop()
        for n in walk(e):
            if isinstance(n, ast.UnaryOp) and isinstance(n.op, ast.USub):
                ok = False
            if isinstance(n, ast.Constant) and isinstance(n.value, (int, float)) and n.value < 0:
                ok = False
            if isinstance(n, ast.Name) and n.id in ex.exprs and n.id not in seen:
                seen.add(n.id)
                ee = ex.exprs[n.id][-1][1]
                if not (isinstance(ee, ast.Call) and _last(ee) in SELECT):
                    stack.append(ee)
    return ok


def _positive_witness(A, r, inputs):
    import itertools
    for vals in itertools.product((1, -1, 0), repeat=3):
        pt = {a: Fraction(0) for a in inputs}
        pt[inputs[0]], pt[inputs[4]], pt[inputs[8]] = (Fraction(v) for v in vals)
        try:
            v = A.eval(r, pt)
        except (KeyError, ZeroDivisionError):
            continue
        if v > 0:
            return f"e.g. it is {v:.3g} > 0 for the input diag{vals}"
    return ""


def _wilkinson(ctx, rule, nu, ex):
    A = ex.A
    # the statement: <target> = sqrt(X) * <sign factor>
    cand = []
    for st in nu.node.body:
        if isinstance(st, ast.Assign) and isinstance(st.value, ast.BinOp) and isinstance(st.value.op, ast.Mult):
            l, r = st.value.left, st.value.right
            for a, b in ((l, r), (r, l)):
                if isinstance(a, ast.Call) and _last(a) in ("sqrt", "safe_sqrt") and len(a.args) == 1:
                    cand.append((st, a, b))
    if len(cand) != 1:
        ctx.undecided(rule, nu, None, construct="deflated-2x2:shift-statement", detail=f"{len(cand)} statements of the form sqrt(X)*sign found")
        return
    st, sq, sf = cand[0]
    tname = st.targets[0].id
    body = nu.node.body
    k = body.index(st)
    import types
    fake = types.SimpleNamespace(node=types.SimpleNamespace(body=body[:k]))
    exb = ex
    # local view of the block: names defined by pure arithmetic on other names are expanded one level, everything
    # else (the entries of the reduced block) is an atom
    loc = Exec(fake)
    for nmx in {n.id for n in ast.walk(sq.args[0]) if isinstance(n, ast.Name)}:
        defs = [d for (sx, d) in exb.exprs.get(nmx, []) if sx in body[:k]]
        if defs:
            d = defs[-1]
            if all(isinstance(x, (ast.Name, ast.Constant, ast.BinOp, ast.UnaryOp, ast.operator, ast.unaryop, ast.expr_context)) for x in ast.walk(d)):
                try:
                    loc.env[nmx] = Algebra().lower(d)
                    loc.exprs[nmx] = [(None, d)]
                except NotPolynomial:
                    pass
    exb = loc
    try:
        X = exb.low(sq.args[0])
    except NotPolynomial:
        ctx.undecided(rule, nu, st, construct="deflated-2x2:radicand", detail="radicand not polynomial")
        return
    rng = sign_factor_range(sf, exb)
    if rng is None:
        ctx.undecided(rule, nu, st, construct="deflated-2x2:sign-factor-range", detail=f"range of `{src(sf)}` not recognised")
        return
    # roots: the next two assignments depending on tname
    e0 = e1 = None
    for s2 in body[k + 1:]:
        if isinstance(s2, ast.Assign) and isinstance(s2.targets[0], ast.Name):
            used = {n.id for n in ast.walk(s2.value) if isinstance(n, ast.Name)}
            if e0 is None and tname in used:
                e0 = s2
            elif e0 is not None and e1 is None and e0.targets[0].id in used:
                e1 = s2
                break
    diag = [s2.target.id for s2 in body[k + 1:] if isinstance(s2, ast.AugAssign) and isinstance(s2.op, ast.Sub) and e0 is not None
            and isinstance(s2.value, ast.Name) and s2.value.id == e0.targets[0].id][:2]
    if e0 is None or e1 is None or len(diag) != 2:
        ctx.undecided(rule, nu, st, construct="deflated-2x2:roots", detail="the two root statements / shifted diagonal entries were not found")
        return
    sig = A.atom("@sigma")
    q = A.atom("@q")          # q = sqrt(X) >= 0
    env2 = dict(exb.env)
    env2[tname] = q * sig
    a2 = Algebra(env=env2)
    r0 = a2.lower(e0.value)
    env3 = dict(env2)
    env3[e0.targets[0].id] = r0
    r1 = Algebra(env=env3).lower(e1.value)
    xx, yy = exb.env.get(diag[0], A.atom(diag[0])), exb.env.get(diag[1], A.atom(diag[1]))
    half = A.const(Fraction(1, 2))
    bq = half * (xx - yy)
    xy2 = X - bq * bq            # radicand = ((xx-yy)/2)^2 + xy^2
    ctx.decide(rule, _is_square_entry(exb, xy2), nu, st, construct="deflated-2x2:radicand=((xx-yy)/2)^2+xy^2",
               detail=f"radicand - ((xx-yy)/2)^2 = {xy2!r} is the squared off-diagonal entry",
               bad_detail=f"`{src(st)}`: radicand minus ((xx-yy)/2)^2 is {xy2!r}, not the squared off-diagonal entry of the reduced block")
    tr_res = _subst_q(A, r0 + r1 - xx - yy, X)
    ctx.decide(rule, all(A.is_zero(A.subst(tr_res, "@sigma", A.const(v))) for v, _ in rng), nu, e1, construct="deflated-2x2:sum-of-roots=trace",
               detail="e0 + e1 == xx + yy", bad_detail=f"`{src(e0)}` / `{src(e1)}`: the two roots do not sum to the trace of the reduced block")
    pr_res = _subst_q(A, r0 * r1 - (xx * yy - xy2), X)
    bad = []
    for v, cons in rng:
        res = A.norm(A.subst(pr_res, "@sigma", A.const(v)))
        if A.is_zero(res):
            continue
        if cons is not None:
            # only reachable where cons[1] == 0: eliminate one atom of it and test again
            res2 = _restrict_zero(A, res, cons[1])
            if res2 is not None and A.is_zero(res2):
                continue
            bad.append(f"sign factor = {v} (reached when {cons[1]!r} = 0) leaves e0*e1 - det = {res2 if res2 is not None else res!r}")
        else:
            bad.append(f"sign factor = {v} leaves e0*e1 - det = {res!r}")
    ctx.decide(rule, not bad, nu, st, construct="deflated-2x2:product-of-roots=det-for-every-sign-value",
               detail=f"e0*e1 == xx*yy - xy^2 for sign factor in {[str(v) for v, _ in rng]}",
               bad_detail=f"`{src(st)}`: " + "; ".join(bad) + " -- the roots of the reduced 2x2 block are wrong there (both collapse onto the mean of the diagonal)")


def _subst_q(A, r: Rat, X: Rat) -> Rat:
    """replace q^2 by X (q^(2k) -> X^k, q^(2k+1) -> q X^k)"""
    def poly(p):
        out = Rat(Poly())
        for mono, c in p.t.items():
            e = dict(mono).get("@q", 0)
            rest = tuple((k, x) for k, x in mono if k != "@q")
            term = Rat(Poly({rest: c}))
            term = term * X.pow(e // 2)
            if e % 2:
                term = term * Rat(Poly.atom("@q"))
            out = out + term
        return out
    return A.norm(simplify(poly(r.n) / poly(r.d)))


def _restrict_zero(A, res: Rat, cons: Rat):
    """value of `res` on {cons == 0}: solve cons for an atom that occurs linearly with constant coefficient."""
    c = A.norm(cons)
    for a in sorted(c.n.atoms()):
        if c.n.degree_in(a) == 1:
            co = c.n.diff(a)
            if co.is_const():
                rest = c.n - Poly.atom(a) * co
                sol = Rat(-rest) * Rat(Poly.const(1 / co.const_value()))
                return A.norm(simplify(A.subst(res, a, sol)))
    return None


def _is_square_entry(exb, xy2: Rat):
    """xy2 is not identically zero and is either a single atom (opaque squared entry) or a perfect square monomial."""
    p = _as_poly(xy2)
    if p is None or p.is_zero():
        return False
    return len(p.t) == 1 and next(iter(p.t.values())) > 0


def _shift(ctx, rule, nu, ex, m, choose):
    A = ex.A
    rets = nu.returns()
    if not rets or not isinstance(rets[0], ast.Tuple):
        ctx.undecided(rule, nu, None, construct="shift", detail="return is not a tuple")
        return
    ev = rets[0].elts[0]
    base = ev.value if isinstance(ev, ast.Subscript) else ev
    if not (isinstance(base, ast.Name) and base.id in ex.exprs):
        ctx.undecided(rule, nu, rets[0], construct="shift", detail="eigenvalue array not found")
        return
    st, arr = ex.exprs[base.id][-1]
    elts = arr.args[0].elts if isinstance(arr, ast.Call) and arr.args and isinstance(arr.args[0], (ast.List, ast.Tuple)) else []
    if len(elts) != 3 or not all(isinstance(e, ast.Name) for e in elts):
        ctx.undecided(rule, nu, st, construct="shift", detail="eigenvalue array is not a literal of three names")
        return
    for k, e in enumerate(elts):
        hist = ex.exprs.get(e.id, [])
        if len(hist) < 2:
            ctx.undecided(rule, nu, st, construct=f"shift:value-{k}", detail="no history")
            continue
        # the first definition is the deviatoric root; every later one must be "itself + something": the somethings sum to the mean
        total = A.const(0)
        ok = True
        ok2 = None
        try:
            for (s_k, v_ast) in hist[1:]:
                envl = dict(ex.env_at[id(s_k)])
                envl[e.id] = A.atom("@self")
                lowr = Exec(nu, choose=choose)
                lowr.env = envl
                total = total + (lowr.low(v_ast) - A.atom("@self"))
                if isinstance(v_ast, ast.Call) and _last(v_ast) in SELECT and len(v_ast.args) == 3 and isinstance(v_ast.args[0], ast.Name) \
                        and v_ast.args[0].id in choose:
                    ok2 = A.equal(lowr.low(v_ast.args[2]), A.norm(m))
            ok = A.equal(A.norm(total), A.norm(m))
        except NotPolynomial:
            ok = None
        ctx.decide(rule, ok, nu, hist[-1][0], construct=f"shift:value-{k}=deviatoric-root+mean", detail="returned eigenvalue == root of the deviator + tr/3",
                   bad_detail=f"eigenvalue {k} (`{e.id}`): after its deviatoric root is computed the updates add {A.norm(total)!r}, not the mean of the diagonal exactly once")
        ctx.decide(rule, ok2, nu, hist[-1][0], construct=f"shift:value-{k}:spherical-branch=mean", detail="eigenvalue of a spherical tensor == tr/3",
                   bad_detail=f"`{src(hist[-1][0])}`: in the spherical branch eigenvalue {k} is not the mean of the diagonal")
    # spherical eigenvectors: three constant orthonormal vectors
    vecs = []
    for s in nu.node.body:
        if isinstance(s, ast.Assign) and isinstance(s.value, ast.Call) and _last(s.value) in SELECT and len(s.value.args) == 3 \
                and isinstance(s.value.args[0], ast.Name) and s.value.args[0].id in choose:
            alt = s.value.args[2]
            if isinstance(alt, ast.Call) and _last(alt) == "array" and alt.args and isinstance(alt.args[0], ast.List) and len(alt.args[0].elts) == 3 \
                    and all(isinstance(c, ast.Constant) for c in alt.args[0].elts):
                vecs.append((s, [Fraction(repr(c.value)) if isinstance(c.value, float) else Fraction(c.value) for c in alt.args[0].elts]))
    ok = len(vecs) == 3 and all(sum(a * b for a, b in zip(vecs[i][1], vecs[j][1])) == (1 if i == j else 0) for i in range(3) for j in range(3))
    ctx.decide(rule, ok, nu, vecs[0][0] if vecs else None, construct="shift:spherical-branch-vectors-orthonormal",
               detail="three constant orthonormal vectors", bad_detail=f"the spherical branch returns {[v for _, v in vecs]}, which is not an orthonormal triad")
