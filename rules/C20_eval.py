"""C20_eval -- the interpreter proper: symbols and sign reasoning, statements, calls, loop summarisation (see rules/C20_interp.py)."""
from __future__ import annotations

import ast

from fractions import Fraction

from optilint.expr import Poly
from .C20_interp import (Int, Scalar, Arr, Str, Key, EnumVal, UserClass, NTInst, Instance, ListV, DictV, DictView, RangeV, SliceV, Func, Bound,
                         Builtin, Method, ModuleV, LibModule, FileObj, Opaque, Poison, Partial, Env, Group, MISSING, NODEFAULT, Undecidable, ProgramError,
                         ReturnSig, BreakSig, ContinueSig, PC, PS, ZERO, ONE, psubst, pconst, const_of, new_oid)
from . import C20_text as T
from .C20_ops import OpsMixin

UNROLL = 8


class Interp(OpsMixin):
    def __init__(self, tree: ast.Module, scope_of=None, modname="module", module_source=None):
        self.tree = tree
        self.scope_of = scope_of or (lambda node: None)
        self.modname = modname
        self.module_source = module_source      # dotted name -> ast.Module of a module of the analysed library, or None
        self.lib_modules = {}                   # private helper modules that were loaded: dotted name -> LibModule
        self.lo = {}                # size symbol -> lower bound (0 | 1)
        self.free = set()           # symbols that are inputs of one call (not independent sizes)
        self.eqs = {}               # symbol -> Poly (facts learnt on a path)
        self.pos_facts = []         # polynomials known to be > 0
        self.key_mult = {}          # kid -> Poly: how many fields the symbolic key stands for
        self.key_label = {}
        self.log = []               # in-place mutations: (kind, target object, detail, node, Func)
        self.files = []
        self.called = []            # Func objects entered (in order, duplicates removed)
        self.stack = []             # Func objects being executed
        self.depth = 0
        self.allow_choice = False
        self.script, self.trace, self.memo = [], [], {}
        self.nsym = 0
        self.steps = 0
        self.ver = 0                # bumped whenever eqs / lo / pos_facts change (sign cache)
        self._sign_cache = {}
        self.class_ctx = []
        self.globals = Env()
        self.load_module()

    # ------------------------------------------------------------------ symbols, signs
    def sym(self, name, lo=0, free=False):
        self.lo[name] = lo
        if free:
            self.free.add(name)
        return PS(name)

    def fresh(self, stem, lo=0, free=True):
        self.nsym += 1
        return self.sym(f"{stem}#{self.nsym}", lo, free)

    def set_eq(self, name, p):
        self.eqs[name] = p
        self._sign_cache = {}

    def set_lo(self, name, v):
        self.lo[name] = v
        self._sign_cache = {}

    def add_pos_fact(self, p):
        self.pos_facts.append(p)
        self._sign_cache = {}

    def facts(self):
        return (dict(self.eqs), dict(self.lo))

    def restore(self, saved):
        self.eqs, self.lo = saved
        self._sign_cache = {}

    def norm(self, p: Poly) -> Poly:
        if not self.eqs:
            return p
        for _ in range(8):
            if not (p.atoms() & set(self.eqs)):
                return p
            p = psubst(p, self.eqs)
        return p

    def _shift(self, p):
        sig = {s: PS(s) + ONE for s in p.atoms() if self.lo.get(s, 0) >= 1}
        if not sig:
            return p
        if all(c >= 0 for c in p.t.values()) or all(c <= 0 for c in p.t.values()):
            # no cancellation possible: only the constant term matters and it is the value at the lower bounds
            c0 = p.eval({a: Fraction(self.lo.get(a, 0)) for a in p.atoms()})
            q = dict(p.t)
            q[()] = c0
            return Poly(q)
        return psubst(p, sig)

    def sign(self, p: Poly):
        """'zero' | 'pos' | 'neg' | 'nonneg' | 'nonpos' | None, for all values of the symbols within their bounds"""
        p = self.norm(p)
        if p.is_zero():
            return "zero"
        if p.is_const():
            return "pos" if p.const_value() > 0 else "neg"
        r = self._sign_cache.get(p, MISSING)
        if r is not MISSING:
            return r
        r = self._sign0(p)
        if r not in ("pos", "neg"):
            at = p.atoms()
            for f in self.pos_facts:
                f = self.norm(f)
                if not (f.atoms() <= at):
                    continue            # p - f / p + f would have a term of the wrong sign
                if self._sign0(p - f) in ("zero", "pos", "nonneg"):
                    r = "pos"
                    break
                if self._sign0(p + f) in ("zero", "neg", "nonpos"):
                    r = "neg"
                    break
        self._sign_cache[p] = r
        return r

    def _sign0(self, p):
        if p.is_zero():
            return "zero"
        q = self._shift(p)
        cs = list(q.t.values())
        c0 = q.const_value()
        if all(c >= 0 for c in cs):
            return "pos" if c0 > 0 else "nonneg"
        if all(c <= 0 for c in cs):
            return "neg" if c0 < 0 else "nonpos"
        return None

    def same(self, a: Poly, b: Poly):
        s = self.sign(a - b)
        if s == "zero":
            return True
        if s in ("pos", "neg"):
            return False
        return None

    def independent(self, p: Poly):
        at = self.norm(p).atoms()
        return bool(at) and all(a in self.lo and a not in self.free for a in at)

    def show(self, p):
        return repr(self.norm(p)) if isinstance(p, Poly) else repr(p)

    def compare(self, op, a: Poly, b: Poly, node=None):
        """truth of `a op b` on integers"""
        d = self.norm(a - b)
        s = self.sign(d)
        table = {
            "Eq": {"zero": True, "pos": False, "neg": False},
            "NotEq": {"zero": False, "pos": True, "neg": True},
            "Lt": {"neg": True, "zero": False, "pos": False, "nonneg": False},
            "LtE": {"neg": True, "zero": True, "nonpos": True, "pos": False},
            "Gt": {"pos": True, "zero": False, "neg": False, "nonpos": False},
            "GtE": {"pos": True, "zero": True, "nonneg": True, "neg": False},
        }
        r = table[op].get(s)
        if r is not None:
            return r
        return self.choose(("cmp", op, d), f"{self.show(a)} {op} {self.show(b)}", node, refine=(op, d))

    def choose(self, key, descr, node=None, refine=None):
        if key in self.memo:
            return self.memo[key]
        if not self.allow_choice:
            raise Undecidable(f"the condition `{descr}` is not decided by the situation", node)
        k = len(self.trace)
        val = self.script[k] if k < len(self.script) else True
        self.trace.append(val)
        self.memo[key] = val
        if refine is not None:
            self._refine(refine[0], refine[1], val, descr, node)
        return val

    def _refine(self, op, d, val, descr, node):
        """learn from the outcome of `d op 0`; only facts about free (per-call input) symbols may be learnt"""
        eq = (op == "Eq" and val) or (op == "NotEq" and not val)
        if eq:
            for a in sorted(d.atoms()):
                if a in self.free and d.degree_in(a) == 1:
                    coef = d.diff(a)
                    c = pconst(coef)
                    if c in (1, -1):
                        rest = d - coef * PS(a)
                        self.set_eq(a, rest * PC(-c))
                        return
            raise Undecidable(f"cannot use the equality `{descr}`", node)
        if len(d.atoms()) == 1 and d.atoms() <= self.free:
            a = next(iter(d.atoms()))
            if d == PS(a):
                pos = (op in ("Gt", "NotEq") and val) or (op in ("LtE", "Eq") and not val)
                zero = (op == "LtE" and val) or (op == "Gt" and not val)
                if pos:
                    self.set_lo(a, 1)
                    return
                if zero:
                    self.set_eq(a, ZERO)
                    return
        # other outcomes carry no usable fact (the memo keeps the path consistent)

    def run_paths(self, thunk, max_paths=16):
        """thunk() under every sequence of outcomes of its undecided conditions -> [(result | exception)]"""
        results = []
        script = []
        saved_allow = self.allow_choice
        self.allow_choice = True
        try:
            for _ in range(max_paths):
                self.script, self.trace, self.memo = list(script), [], {}
                try:
                    results.append(thunk())
                except (Undecidable, ProgramError) as e:
                    results.append(e)
                tr = list(self.trace)
                while tr and tr[-1] is False:
                    tr.pop()
                if not tr:
                    break
                tr[-1] = False
                script = tr
            else:
                results.append(Undecidable("too many paths"))
        finally:
            self.allow_choice = saved_allow
            self.script, self.trace, self.memo = [], [], {}
        return results

    # ------------------------------------------------------------------ module loading
    def load_module(self):
        g = self.globals
        for st in self.tree.body:
            try:
                self.exec_stmt(st, g)
            except (Undecidable, ProgramError, ReturnSig, BreakSig, ContinueSig) as e:
                for name in _stored_names(st):
                    g.vars[name] = Opaque(f"module-level `{name}` (not evaluated: {getattr(e, 'msg', e)})")

    # ------------------------------------------------------------------ private helper modules of the library
    def is_private_helper_module(self, name):
        """`optimism/_xxx.py`, `optimism/sub/_xxx.py`, modules of a private sub-package: code of the library that no user imports; a
        maintainer moves helpers there, so such a module is interpreted like the module under analysis (same-module helpers).  Public
        modules of the library and everything outside its package stay un-interpreted (Opaque)."""
        if not name or self.module_source is None:
            return False
        parts = name.split(".")
        top = self.modname.split(".")[0]
        if len(parts) < 2 or parts[0] != top or name == self.modname:
            return False
        return any(p.startswith("_") and not p.startswith("__") for p in parts[1:])

    def lib_module(self, name):
        """the LibModule of a private helper module (loaded on first use), None when `name` is not one"""
        if name in self.lib_modules:
            return self.lib_modules[name]
        if not self.is_private_helper_module(name):
            return None
        tree = self.module_source(name)
        if tree is None:
            return None
        env = Env()
        env.modname, env.is_lib = name, True
        m = self.lib_modules[name] = LibModule(name, env)      # registered first: an import cycle sees the partially loaded module, as in Python
        saved = self.stack
        self.stack = []
        try:
            for st in tree.body:
                try:
                    self.exec_stmt(st, env)
                except (Undecidable, ProgramError, ReturnSig, BreakSig, ContinueSig) as e:
                    for nm in _stored_names(st):
                        env.vars[nm] = Opaque(f"module-level `{nm}` of {name} (not evaluated: {getattr(e, 'msg', e)})")
        finally:
            self.stack = saved
        return m

    def module_of_env(self, env):
        """dotted name of the module whose code runs in `env`"""
        e = env
        while e.parent is not None:
            e = e.parent
        return getattr(e, "modname", None) or self.modname

    def in_lib_module(self, env):
        e = env
        while e.parent is not None:
            e = e.parent
        return getattr(e, "is_lib", False)

    def resolve_import_from(self, st, alias, env):
        """`from <module> import <name>` where <module> or <module>.<name> is a private helper module of the library (absolute or relative
        spelling) -> its value, else MISSING (the caller keeps the old treatment)"""
        if self.module_source is None:
            return MISSING
        mod = st.module or ""
        if st.level:
            here = self.module_of_env(env).split(".")
            if st.level > len(here):
                return MISSING
            base = here[:len(here) - st.level]
            mod = ".".join(base + ([mod] if mod else []))
        if not mod:
            return MISSING
        lm = self.lib_module(mod)
        if lm is not None:
            v = lm.env.vars.get(alias.name, MISSING)
            if v is not MISSING:
                return v
        sub = self.lib_module(mod + "." + alias.name)
        if sub is not None:
            return sub
        return MISSING

    # ------------------------------------------------------------------ mutation log
    def mutate(self, kind, target, detail, node):
        self.log.append((kind, target, detail, node, self.stack[-1] if self.stack else None))

    # ------------------------------------------------------------------ statements
    def exec_block(self, body, env):
        for st in body:
            self.exec_stmt(st, env)

    def exec_stmt(self, st, env):
        self.steps += 1
        if self.steps > 2_000_000:
            raise Undecidable("interpretation budget exhausted", st)
        try:
            self._exec(st, env)
        except Undecidable as e:
            if e.node is None:
                e.node = st
            if not hasattr(e, "func"):
                e.func = self.stack[-1] if self.stack else None
            raise
        except ProgramError as e:
            if e.node is None:
                e.node = st
                e.scope = self.stack[-1] if self.stack else None
            raise

    def _exec(self, st, env):
        if isinstance(st, ast.Expr):
            self.eval(st.value, env)
        elif isinstance(st, ast.Assign):
            v = self.eval(st.value, env)
            for t in st.targets:
                self.assign(t, v, env, st)
        elif isinstance(st, ast.AnnAssign):
            if st.value is not None:
                self.assign(st.target, self.eval(st.value, env), env, st)
        elif isinstance(st, ast.AugAssign):
            cur = self.eval(_load(st.target), env)
            rhs = self.eval(st.value, env)
            if isinstance(cur, Arr):
                self.mutate("arr", cur, "in-place arithmetic", st)
                self.binop(st.op, cur, rhs, st)
                return
            if isinstance(cur, ListV) and isinstance(st.op, ast.Add):
                self.call_method(cur, "extend", [rhs], {}, st)
                return
            self.assign(st.target, self.binop(st.op, cur, rhs, st), env, st)
        elif isinstance(st, ast.If):
            if self.truth(self.eval(st.test, env), st.test):
                self.exec_block(st.body, env)
            else:
                self.exec_block(st.orelse, env)
        elif isinstance(st, ast.For):
            self.exec_for(st, env)
        elif isinstance(st, ast.While):
            for _ in range(64):
                if not self.truth(self.eval(st.test, env), st.test):
                    break
                try:
                    self.exec_block(st.body, env)
                except BreakSig:
                    break
                except ContinueSig:
                    continue
            else:
                raise Undecidable("while loop does not terminate within 64 rounds", st)
        elif isinstance(st, ast.Return):
            raise ReturnSig(self.eval(st.value, env) if st.value is not None else None)
        elif isinstance(st, ast.Pass):
            pass
        elif isinstance(st, ast.Break):
            raise BreakSig()
        elif isinstance(st, ast.Continue):
            raise ContinueSig()
        elif isinstance(st, ast.Assert):
            try:
                ok = self.truth(self.eval(st.test, env), st.test)
            except Undecidable:
                ok = True           # an assertion the analysis cannot evaluate is assumed to hold (it guards user input)
            if ok is False:
                raise ProgramError("assertion fails", st)
        elif isinstance(st, ast.Raise):
            raise ProgramError("raise statement reached", st)
        elif isinstance(st, ast.Try):
            # the analysis follows the exception-free execution; handlers are not entered
            try:
                self.exec_block(st.body, env)
            except ProgramError as e:
                if st.handlers:
                    raise Undecidable(f"an exception inside a try block with handlers ({e.msg}): exception handling is not modelled", e.node or st)
                raise
            self.exec_block(st.orelse, env)
            self.exec_block(st.finalbody, env)
        elif isinstance(st, ast.With):
            for item in st.items:
                cm = self.eval(item.context_expr, env)
                if not isinstance(cm, FileObj):
                    raise Undecidable("context manager other than a file", st)
                if item.optional_vars is not None:
                    self.assign(item.optional_vars, cm, env, st)
            self.exec_block(st.body, env)
            for item in st.items:
                pass
        elif isinstance(st, ast.FunctionDef):
            env.vars[st.name] = self.make_func(st, env, None)
        elif isinstance(st, ast.ClassDef):
            env.vars[st.name] = self.make_class(st, env)
        elif isinstance(st, ast.Import):
            for a in st.names:
                lm = self.lib_module(a.name) if a.asname else None
                env.vars[a.asname or a.name.split(".")[0]] = lm if lm is not None else ModuleV(a.name if a.asname else a.name.split(".")[0])
        elif isinstance(st, ast.ImportFrom):
            for a in st.names:
                v = self.resolve_import_from(st, a, env)
                env.vars[a.asname or a.name] = v if v is not MISSING else self.imported(st.module or "", a.name)
        elif isinstance(st, ast.Delete):
            for t in st.targets:
                if isinstance(t, ast.Name):
                    env.vars.pop(t.id, None)
                elif isinstance(t, ast.Subscript):
                    obj = self.eval(t.value, env)
                    key = self.eval_index(t.slice, env)
                    if isinstance(obj, DictV):
                        self.dict_pop(obj, key, st)
                    else:
                        raise Undecidable("del of a list / array entry", st)
                else:
                    raise Undecidable("del target", st)
        elif isinstance(st, (ast.Global, ast.Nonlocal)):
            raise Undecidable("global / nonlocal", st)
        else:
            raise Undecidable(f"statement {type(st).__name__}", st)

    def assign(self, t, v, env, st):
        if isinstance(t, ast.Name):
            env.vars[t.id] = v
        elif isinstance(t, (ast.Tuple, ast.List)):
            items = self.unpack(v, len(t.elts), st)
            for el, x in zip(t.elts, items):
                if isinstance(el, ast.Starred):
                    raise Undecidable("starred assignment target", st)
                self.assign(el, x, env, st)
        elif isinstance(t, ast.Attribute):
            obj = self.eval(t.value, env)
            if isinstance(obj, Instance):
                self.mutate("attr", obj, t.attr, st)
                obj.attrs[t.attr] = v
            else:
                raise Undecidable(f"attribute store on {obj!r}", st)
        elif isinstance(t, ast.Subscript):
            obj = self.eval(t.value, env)
            key = self.eval_index(t.slice, env)
            self.setitem(obj, key, v, st)
        else:
            raise Undecidable("assignment target", st)

    def unpack(self, v, n, node):
        if isinstance(v, tuple):
            items = list(v)
        elif isinstance(v, ListV) and v.items is not None:
            items = list(v.items)
        elif isinstance(v, NTInst):
            items = list(v.vals.values())
        elif isinstance(v, Arr) and v.shape and pconst(self.norm(v.shape[0])) is not None:
            k = pconst(self.norm(v.shape[0]))
            items = [self.arr_elem(v) for _ in range(k)]
        else:
            raise Undecidable(f"cannot unpack {v!r}", node)
        if len(items) != n:
            raise ProgramError(f"cannot unpack {len(items)} values into {n} targets", node)
        return items

    def arr_elem(self, a: Arr):
        if len(a.shape) > 1:
            r = Arr(a.shape[1:], base=a, fill=a.fill)
            if len(a.shape) == 2 and getattr(a, "cols", None):
                r.entries = a.cols          # a row of a column-wise concatenation: [(number of entries, fill Int | None)]
            return r
        return a.fill if a.fill is not None else Scalar("num")

    # ------------------------------------------------------------------ loops
    def segments(self, it, node, groups=False):
        """[( 'one', value ) | ('seq', factory(i Poly) -> value, count Poly) | ('class', value, count Poly, kid) | ('group', Group, count, kid)]"""
        segs = self._segments(it, node)
        if not groups and any(s[0] == "group" for s in segs):
            raise Undecidable("a list filled by a loop over fields is used in a way the analysis does not model", node)
        return segs

    def _segments(self, it, node):
        if isinstance(it, tuple):
            return [("one", x) for x in it]
        if isinstance(it, ListV):
            if it.items is not None:
                return [("one", x) for x in it.items]
            out = []
            for (e, c, kid) in it.segs:
                if isinstance(e, Group):
                    out.append(("group", e, c, kid))
                elif pconst(c) == 1 and kid is None:
                    out.append(("one", e))
                elif kid is not None:
                    out.append(("class", e, c, kid))
                else:
                    out.append(("seq", (lambda i, e=e: e), c))
            return out
        if isinstance(it, Arr):
            if not it.shape:
                raise ProgramError("iteration over a 0-d array", node)
            c = pconst(self.norm(it.shape[0]))
            ent = getattr(it, "entries", None)
            if ent and len(it.shape) == 1:
                out = []
                for (n, fill) in ent:
                    v = fill if fill is not None else Scalar("num")
                    k = pconst(self.norm(n))
                    if k is not None and k <= UNROLL:
                        out.extend(("one", v) for _ in range(k))
                    elif self.sign(n) in ("pos", "nonneg"):
                        out.append(("seq", (lambda i, v=v: v), n))
                    else:
                        out = None
                        break
                if out is not None:
                    return out
            if c is not None and c <= UNROLL:
                return [("one", self.arr_elem(it)) for _ in range(c)]
            return [("seq", (lambda i: self.arr_elem(it)), it.shape[0])]
        if isinstance(it, RangeV):
            n = it.stop.p - it.start.p
            c = pconst(self.norm(n))
            if c is not None and c <= UNROLL:
                return [("one", Int(it.start.p + PC(k))) for k in range(max(c, 0))]
            if self.sign(n) in ("neg", "nonpos"):
                return []
            return [("seq", (lambda i: Int(it.start.p + i)), n)]
        if isinstance(it, DictV):
            it = DictView(it, "keys")
        if isinstance(it, DictView):
            out = []
            for (k, v) in list(it.d.entries):
                item = k if it.kind == "keys" else v if it.kind == "values" else (k, v)
                if isinstance(k, Key):
                    out.append(("class", item, self.key_mult[k.kid], k.kid, v))
                else:
                    out.append(("one", item))
            return out
        if isinstance(it, str):
            return [("one", ch) for ch in it]
        if isinstance(it, NTInst):
            return [("one", x) for x in it.vals.values()]
        raise Undecidable(f"iteration over {it!r}", node)

    def exec_for(self, st, env):
        it = self.eval(st.iter, env)
        segs = self.segments(it, st, groups=True)
        cached = _FOR_CACHE.get(id(st))
        if cached is None or cached[0] is not st:
            cached = _FOR_CACHE[id(st)] = (st, sorted(_stored_names_block(st.body)), sorted(_stored_names(st.target)))
        assigned, targets = cached[1], cached[2]
        state = {"class": False}

        def poison():
            for name in assigned:
                if name not in targets:
                    env.vars[name] = Poison(f"`{name}` is carried from one field to the next in a loop over fields")

        def run(segs):
            for seg in segs:
                if seg[0] == "one":
                    self.assign(st.target, seg[1], env, st)
                    try:
                        self.exec_block(st.body, env)
                    except ContinueSig:
                        continue
                elif seg[0] == "seq":
                    self.run_counted(st, env, seg[2], lambda i, f=seg[1]: self.assign(st.target, f(i), env, st),
                                     lambda: self.exec_block(st.body, env))
                elif seg[0] == "class":
                    state["class"] = True
                    poison()
                    self.run_class(st, env, seg[3], seg[2], lambda v=seg[1]: self.assign(st.target, v, env, st),
                                   lambda: self.exec_block(st.body, env), owned=seg[4] if len(seg) > 4 else None)
                else:
                    state["class"] = True
                    poison()
                    inner = self._segments(ListV(segs=list(seg[1].segs)), st)
                    self.run_class(st, env, seg[3], seg[2], lambda: None, lambda inner=inner: run(inner))
        try:
            run(segs)
            self.exec_block(st.orelse, env)
        except BreakSig:
            if any(s[0] != "one" for s in segs):
                raise Undecidable("break inside a loop with a symbolic trip count", st)
        if state["class"]:
            for name in assigned + targets:
                env.vars[name] = Poison(f"`{name}` after a loop over fields holds the value of an arbitrary field")

    def mark(self):
        return [(f, len(f.out)) for f in self.files]

    def cut(self, marks):
        """remove and return what was written since `marks`"""
        got = []
        for (f, n) in marks:
            got.append((f, f.out[n:]))
            del f.out[n:]
        for f in self.files:
            if all(f is not g for (g, _n) in marks) and f.out:
                raise Undecidable("a file is opened and written inside a summarised loop")
        return got

    def frozen(self, cutout):
        return tuple((f.oid, T.freeze_out(items, self.norm)) for (f, items) in cutout if items)

    def emit_rep(self, cutout, count):
        for (f, items) in cutout:
            if items:
                f.out.append(("rep", items, count))

    def run_class(self, st, env, kid, mult, bind, body, owned=None):
        """one generic round for the `mult` fields of an entry class.  Rounds must be independent: besides writing text, a round may only
        store dictionary entries keyed by its field and append to lists (what it appends becomes a Group repeated `mult` times)."""
        from .C20_interp import _OID
        marks = self.mark()
        n_log = len(self.log)
        ctx = {"start": _OID[0], "lists": {}}
        self.class_ctx.append(ctx)
        try:
            bind()
            try:
                body()
            except ContinueSig:
                pass
            except ReturnSig:
                raise Undecidable("return inside a loop over fields", st)
        finally:
            self.class_ctx.pop()
        out = self.cut(marks)
        for (kind, target, detail, node, fn) in self.log[n_log:]:
            if kind == "dict" and isinstance(detail, Key) and detail.kid == kid:
                continue
            if kind == "arr":
                continue        # contents are not tracked; logged for the purity analysis only
            if kind == "list" and (target.oid > ctx["start"] or (id(target) in ctx["lists"] and detail in ("append", "extend"))):
                continue
            if getattr(target, "oid", 0) > ctx["start"]:
                continue        # an object created in this round
            if owned is not None and id(target) in _owned_ids(owned):
                continue        # state of the field itself (the value stored under its key)
            raise Undecidable("an iteration of a loop over fields changes state that is not keyed by its field "
                              f"({kind} update)", node)
        for (l, n0) in ctx["lists"].values():
            new = l.segs[n0:]
            l.segs = l.segs[:n0] + ([(Group(new), mult, kid)] if new else [])
        self.emit_rep(out, mult)

    def note_list_growth(self, l: ListV):
        """called before a list is appended to: inside a loop over fields the appended stretch is captured"""
        for ctx in self.class_ctx:
            if l.oid <= ctx["start"] and id(l) not in ctx["lists"]:
                if l.items is not None:
                    l.segs = [(x, ONE, None) for x in l.items]
                    l.items = None
                    self.compress(l)
                ctx["lists"][id(l)] = (l, len(l.segs))
        return bool(self.class_ctx) and any(id(l) in c["lists"] for c in self.class_ctx)

    def run_counted(self, st, env, count, bind, body):
        s = self.sign(count)
        if s == "zero" or s in ("neg", "nonpos"):
            return
        if s not in ("pos", "nonneg"):
            raise Undecidable(f"trip count {self.show(count)} of a loop is not decided by the situation", st)

        def round_(i):
            marks = self.mark()
            bind(i)
            try:
                body()
            except ContinueSig:
                pass
            except BreakSig:
                raise Undecidable("break inside a loop with a symbolic trip count", st)
            except ReturnSig:
                raise Undecidable("return inside a loop with a symbolic trip count", st)
            return self.cut(marks)

        from .C20_interp import _OID
        start_oid, n_log = _OID[0], len(self.log)

        def touched():
            seen, out = set(), []
            for (kind, target, detail, node, fn) in self.log[n_log:]:
                if isinstance(target, (ListV, DictV, Instance)) and target.oid <= start_oid and id(target) not in seen:
                    seen.add(id(target))
                    out.append(target)
            return sorted(out, key=lambda o: o.oid)

        sig0, P0 = self.scan(env, None, (start_oid, []))
        oA = round_(ZERO)
        M = touched()
        sig1, P1 = self.scan(env, None, (start_oid, M))
        oB = round_(ONE)
        if [id(o) for o in touched()] != [id(o) for o in M]:
            raise Undecidable("the set of objects changed by a loop with a symbolic trip count does not settle", st)
        sig2, P2 = self.scan(env, None, (start_oid, M))
        if sig1 != sig2 or len(P1) != len(P2):
            raise Undecidable("the state of a loop with a symbolic trip count does not settle after one round", st)
        delta = [self.norm(b - a) for a, b in zip(P1, P2)]
        iota = self.fresh("i", lo=1, free=True)
        self.scan(env, [a + (iota - ONE) * d for a, d in zip(P1, delta)], (start_oid, M))
        oC = round_(iota)
        if [id(o) for o in touched()] != [id(o) for o in M]:
            raise Undecidable("the set of objects changed by a loop with a symbolic trip count does not settle", st)
        sig3, P3 = self.scan(env, None, (start_oid, M))
        ok = sig3 == sig1 and len(P3) == len(P1) and all(self.norm(c - (a + iota * d)).is_zero() for a, c, d in zip(P1, P3, delta))
        fA, fB, fC = self.frozen(oA), self.frozen(oB), self.frozen(oC)
        if not ok:
            raise Undecidable("the counts changed by a loop with a symbolic trip count are not linear in the iteration number", st)
        if not (fA == fB == fC):
            raise Undecidable("the text written by a loop with a symbolic trip count depends on the iteration", st)
        if s != "pos":
            # zero rounds must be the linear formula at 0 as well
            if M or not (sig0 == sig1 and len(P0) == len(P1) and all(self.norm(a - d - z).is_zero() for a, d, z in zip(P1, delta, P0))):
                raise Undecidable("first round of a possibly empty loop differs from the following ones", st)
        self.scan(env, [a + (count - ONE) * d for a, d in zip(P1, delta)], (start_oid, M))
        self.emit_rep(oB, count)

    # ------------------------------------------------------------------ state scan
    def scan(self, env, new=None, ctx=None):
        """walk the values of the frames of `env` (and the heap objects `ctx = (oid at loop start, [objects mutated in the loop])`; other
        heap objects that existed before the loop cannot have changed and are referenced by identity);
        -> (structure signature, [Poly slots in visiting order]).  With `new` (one polynomial per slot) the slots are overwritten."""
        start_oid, roots = ctx if ctx is not None else (0, [])
        w = _Walk(self, new, start_oid, roots)
        sig = []
        e = env
        while e is not None and e is not self.globals:
            for name in sorted(e.vars):
                v, s = w.val(e.vars[name])
                e.vars[name] = v
                sig.append((name, s))
            sig.append("|")
            e = e.parent
        for o in roots:
            sig.append(("heap", o.oid, w.val(o, force=True)[1]))
        return tuple(sig), w.polys

    # ------------------------------------------------------------------ functions and classes
    def make_func(self, node, env, cls):
        f = Func(node, env, getattr(node, "name", "<lambda>"), cls, self.scope_of(node))
        for d in getattr(node, "decorator_list", []):
            name = d.id if isinstance(d, ast.Name) else d.attr if isinstance(d, ast.Attribute) else None
            if name in ("property", "staticmethod", "classmethod", "cached_property"):
                f.kind = "property" if name == "cached_property" else name
            elif name in ("wraps", "jit", "lru_cache", "cache"):
                pass
            else:
                f.undec = f"function {f.name} has a decorator the analysis does not model"
        if not isinstance(node, ast.Lambda):
            f.is_gen = _has_yield(node)
        return f

    def make_class(self, node, env):
        bases = [self.eval(b, env) for b in node.bases]
        names = [getattr(b, "name", None) if isinstance(b, (Builtin, UserClass)) else getattr(b, "desc", None) for b in bases]
        cls = UserClass(node.name, node)
        cls.bases = [b for b in bases if isinstance(b, UserClass)]
        is_dc = any((isinstance(d, ast.Name) and d.id == "dataclass") or (isinstance(d, ast.Attribute) and d.attr == "dataclass")
                    or (isinstance(d, ast.Call) and (getattr(d.func, "id", None) == "dataclass" or getattr(d.func, "attr", None) == "dataclass"))
                    for d in node.decorator_list)
        if any(n in ("Enum", "IntEnum", "enum.Enum", "enum.IntEnum") for n in names) or any(b.kind == "enum" for b in cls.bases):
            cls.kind = "enum"
        elif "NamedTuple" in names or "typing.NamedTuple" in names:
            cls.kind = "namedtuple"
        elif is_dc:
            cls.kind = "dataclass"
        elif node.decorator_list:
            raise Undecidable(f"decorated class {node.name}", node)
        cenv = Env(env)
        auto_n = [0]
        cenv.vars["__auto__"] = auto_n
        for st in node.body:
            if isinstance(st, ast.Expr) and isinstance(st.value, ast.Constant):
                continue
            if isinstance(st, ast.FunctionDef):
                cls.attrs[st.name] = self.make_func(st, env, cls)
                continue
            if isinstance(st, ast.AnnAssign) and isinstance(st.target, ast.Name) and cls.kind in ("namedtuple", "dataclass"):
                cls.fields.append((st.target.id, self.eval(st.value, cenv) if st.value is not None else NODEFAULT))
                continue
            if isinstance(st, ast.Assign) and cls.kind == "enum":
                for t in st.targets:
                    if not isinstance(t, ast.Name):
                        raise Undecidable("enum body", st)
                    if isinstance(st.value, ast.Call) and getattr(st.value.func, "id", getattr(st.value.func, "attr", None)) == "auto":
                        auto_n[0] += 1
                        val = Int(auto_n[0])
                    else:
                        val = self.eval(st.value, cenv)
                        if const_of(val) is not None:
                            auto_n[0] = const_of(val)
                    cls.members[t.id] = EnumVal(cls, t.id, val)
                    cenv.vars[t.id] = cls.members[t.id]
                continue
            if isinstance(st, (ast.Assign, ast.AnnAssign, ast.Pass)):
                self.exec_stmt(st, cenv)
                continue
            raise Undecidable(f"class body statement {type(st).__name__}", st)
        for k, v in cenv.vars.items():
            if k != "__auto__" and k not in cls.members:
                cls.attrs.setdefault(k, v)
        return cls

    def instantiate(self, cls: UserClass, args, kwargs, node):
        if cls.kind == "enum":
            if len(args) == 1:
                for m in cls.members.values():
                    if self.values_equal(m.value, args[0]) is True:
                        return m
            raise Undecidable("enum lookup by value", node)
        if cls.kind in ("namedtuple", "dataclass"):
            vals = {}
            names = [f for f, _d in cls.fields]
            if len(args) > len(names):
                raise ProgramError(f"{cls.name}() takes {len(names)} fields, {len(args)} given", node)
            for n, a in zip(names, args):
                vals[n] = a
            for k, v in kwargs.items():
                if k not in names or k in vals:
                    raise ProgramError(f"{cls.name}() got an unexpected / duplicate field {k}", node)
                vals[k] = v
            for n, d in cls.fields:
                if n not in vals:
                    if d is NODEFAULT:
                        raise ProgramError(f"{cls.name}() is missing the field {n}", node)
                    vals[n] = d
            if cls.kind == "namedtuple":
                return NTInst(cls, {n: vals[n] for n in names})
            inst = Instance(cls)
            inst.attrs.update({n: vals[n] for n in names})
            post = cls.lookup("__post_init__")
            if isinstance(post, Func):
                self.call_func(post, [inst], {}, node)
            return inst
        inst = Instance(cls)
        init = cls.lookup("__init__")
        if isinstance(init, Func):
            self.call_func(init, [inst] + list(args), kwargs, node)
        elif args or kwargs:
            raise ProgramError(f"{cls.name}() takes no arguments", node)
        return inst

    def call_func(self, f: Func, args, kwargs, node):
        if self.depth > 40:
            raise Undecidable("call depth", node)
        if getattr(f, "undec", None):
            raise Undecidable(f.undec, node)
        env = Env(f.env, f.scope)
        self.bind_params(f, env, list(args), dict(kwargs), node)
        if all(f is not g for g in self.called):
            self.called.append(f)
        self.depth += 1
        self.stack.append(f)
        try:
            if isinstance(f.node, ast.Lambda):
                return self.eval(f.node.body, env)
            if getattr(f, "is_gen", False):
                # a generator is run eagerly: what it yields is collected in a list (in order; loops are summarised as for any list)
                out = env.vars["__yield__"] = ListV(items=[])
                try:
                    self.exec_block(f.node.body, env)
                except ReturnSig:
                    pass
                return out
            try:
                self.exec_block(f.node.body, env)
            except ReturnSig as r:
                return r.value
            return None
        finally:
            self.stack.pop()
            self.depth -= 1

    def bind_params(self, f, env, args, kwargs, node):
        a = f.node.args
        pos = [x.arg for x in a.posonlyargs + a.args]
        defaults = a.defaults
        nd = len(defaults)
        if len(args) > len(pos):
            if a.vararg is None:
                raise ProgramError(f"{f.name}() takes {len(pos)} positional arguments but {len(args)} were given", node)
            env.vars[a.vararg.arg] = tuple(args[len(pos):])
            args = args[:len(pos)]
        elif a.vararg is not None:
            env.vars[a.vararg.arg] = ()
        for n, v in zip(pos, args):
            env.vars[n] = v
        for k in list(kwargs):
            if k in pos and k not in [x.arg for x in a.posonlyargs]:
                if k in env.vars:
                    raise ProgramError(f"{f.name}() got multiple values for argument {k}", node)
                env.vars[k] = kwargs.pop(k)
        for i, n in enumerate(pos):
            if n not in env.vars:
                j = i - (len(pos) - nd)
                if j < 0:
                    raise ProgramError(f"{f.name}() is missing the argument {n}", node)
                env.vars[n] = self.eval(defaults[j], f.env)
        for x, d in zip(a.kwonlyargs, a.kw_defaults):
            if x.arg in kwargs:
                env.vars[x.arg] = kwargs.pop(x.arg)
            elif d is not None:
                env.vars[x.arg] = self.eval(d, f.env)
            else:
                raise ProgramError(f"{f.name}() is missing the keyword argument {x.arg}", node)
        if kwargs:
            if a.kwarg is None:
                raise ProgramError(f"{f.name}() got an unexpected keyword argument {sorted(kwargs)[0]}", node)
            env.vars[a.kwarg.arg] = DictV([[k, v] for k, v in kwargs.items()])
        elif a.kwarg is not None:
            env.vars[a.kwarg.arg] = DictV()


class _Walk:
    def __init__(self, I, new, start_oid=0, roots=()):
        self.I, self.new = I, new
        self.polys = []
        self.heap = {}          # id(object) -> visit index
        self.k = 0
        self.start_oid = start_oid
        self.roots = {id(o) for o in roots}

    def P(self, p):
        self.polys.append(p)
        q = self.new[self.k] if self.new is not None else p
        self.k += 1
        return q

    def val(self, v, force=False):
        """-> (value (rebuilt when slots are overwritten), signature)"""
        if isinstance(v, Int):
            return Int(self.P(v.p)), "int"
        if v is None or isinstance(v, (bool, str, float)):
            return v, ("c", repr(v))
        if isinstance(v, Scalar):
            return v, "num"
        if isinstance(v, Arr):
            if id(v) in self.heap:
                return v, ("arr@", self.heap[id(v)])
            self.heap[id(v)] = len(self.heap)
            v.shape = tuple(self.P(d) for d in v.shape)
            s = ("arr", len(v.shape))
            if v.fill is not None:
                v.fill = Int(self.P(v.fill.p))
                s = s + ("fill",)
            return v, s
        if isinstance(v, Str):
            atoms, s = self.atoms(v.atoms)
            return Str(atoms), ("str", s)
        if isinstance(v, tuple):
            items = [self.val(x) for x in v]
            return tuple(i[0] for i in items), ("tuple",) + tuple(i[1] for i in items)
        if isinstance(v, NTInst):
            items = {k: self.val(x) for k, x in v.vals.items()}
            return NTInst(v.cls, {k: i[0] for k, i in items.items()}), ("nt", v.cls.name) + tuple((k, i[1]) for k, i in items.items())
        if isinstance(v, Key):
            return v, ("key", v.kid)
        if isinstance(v, EnumVal):
            return v, ("enum", v.cls.name, v.name)
        if isinstance(v, Poison):
            return v, "poison"
        if isinstance(v, (ListV, DictV, Instance, FileObj)):
            if isinstance(v, FileObj) or (not force and (v.oid <= self.start_oid or id(v) in self.roots)):
                return v, ("old", v.oid)        # existed before the loop: identity (contents are walked as a root if mutated)
            if id(v) in self.heap:
                return v, ("ref", self.heap[id(v)])
            idx = self.heap[id(v)] = len(self.heap)
            if isinstance(v, ListV):
                if v.items is not None:
                    # canonical form: runs of look-alike entries with a count slot (so that a list that grows in a loop settles)
                    v.segs = [(x, ONE, None) for x in v.items]
                    v.items = None
                    self.I.compress(v)
                v.segs, sig = self.segs(v.segs)
                return v, ("lists", idx) + sig
            if isinstance(v, DictV):
                sig = []
                for ent in v.entries:
                    kv, ks = self.val(ent[0])
                    vv, vs = self.val(ent[1])
                    ent[1] = vv
                    sig.append((ks, vs))
                return v, ("dict", idx) + tuple(sig)
            if isinstance(v, Instance):
                sig = []
                for k in sorted(v.attrs):
                    vv, vs = self.val(v.attrs[k])
                    v.attrs[k] = vv
                    sig.append((k, vs))
                return v, ("inst", v.cls.name, idx) + tuple(sig)
            return v, ("file", idx)
        if isinstance(v, DictView):
            d, s = self.val(v.d)
            return v, ("view", v.kind, s)
        if isinstance(v, RangeV):
            return RangeV(Int(self.P(v.start.p)), Int(self.P(v.stop.p))), "range"
        if isinstance(v, SliceV):
            return v, ("slice",)
        return v, ("obj", type(v).__name__, id(v) if not isinstance(v, (Opaque,)) else v.desc)

    def segs(self, segs):
        out, sig = [], []
        for (e, c, kid) in segs:
            if isinstance(e, Group):
                inner, s = self.segs(e.segs)
                e2 = Group(inner)
            else:
                e2, s = self.val(e)
            out.append((e2, self.P(c), kid))
            sig.append((s, kid))
        return out, tuple(sig)

    def atoms(self, atoms):
        out, sig = [], []
        for a in atoms:
            if a[0] == "lit":
                out.append(a)
                sig.append(("lit", a[1]))
            elif a[0] == "tok":
                v, s = self.val(a[1]) if a[1] is not None else (None, "none")
                out.append(("tok", v, a[2] if len(a) > 2 else None))
                sig.append(("tok", s))
            else:
                sep, s1 = self.atoms(a[1])
                item, s2 = self.atoms(a[2])
                out.append(("join", sep, item, self.P(a[3])))
                sig.append(("join", s1, s2))
        return tuple(out), tuple(sig)


_FOR_CACHE = {}


def _owned_ids(v):
    out = set()

    def rec(x):
        if isinstance(x, (Instance, ListV, DictV)):
            if id(x) in out:
                return
            out.add(id(x))
        if isinstance(x, Instance):
            for y in x.attrs.values():
                rec(y)
        elif isinstance(x, ListV) and x.items is not None:
            for y in x.items:
                rec(y)
        elif isinstance(x, DictV):
            for _k, y in x.entries:
                rec(y)
        elif isinstance(x, tuple):
            for y in x:
                rec(y)
        elif isinstance(x, NTInst):
            for y in x.vals.values():
                rec(y)
    rec(v)
    return out


def _has_yield(fn):
    def rec(n):
        for ch in ast.iter_child_nodes(n):
            if isinstance(ch, (ast.FunctionDef, ast.Lambda, ast.ClassDef)):
                continue
            if isinstance(ch, (ast.Yield, ast.YieldFrom)) or rec(ch):
                return True
        return False
    return rec(fn)


def _load(t):
    import copy
    t2 = copy.copy(t)
    t2.ctx = ast.Load()
    return t2


def _stored_names(node):
    out = set()
    for n in ast.walk(node):
        if isinstance(n, ast.Name) and isinstance(n.ctx, ast.Store):
            out.add(n.id)
        elif isinstance(n, (ast.FunctionDef, ast.ClassDef)):
            out.add(n.name)
        elif isinstance(n, ast.alias):
            out.add((n.asname or n.name).split(".")[0])
    return out


def _stored_names_block(body):
    out = set()
    for st in body:
        for n in ast.walk(st):
            if isinstance(n, (ast.ListComp, ast.SetComp, ast.DictComp, ast.GeneratorExp, ast.Lambda)):
                continue
            if isinstance(n, ast.Name) and isinstance(n.ctx, ast.Store):
                out.add(n.id)
    # names bound only inside comprehensions are not function locals; ast.walk still visits them, remove
    comp = set()
    for st in body:
        for n in ast.walk(st):
            if isinstance(n, (ast.ListComp, ast.SetComp, ast.DictComp, ast.GeneratorExp)):
                for g in n.generators:
                    comp |= {x.id for x in ast.walk(g.target) if isinstance(x, ast.Name)}
    plain = set()
    for st in body:
        plain |= _plain_stores(st)
    return (out - comp) | plain


def _plain_stores(node):
    """names stored outside comprehensions"""
    out = set()

    def rec(n):
        for ch in ast.iter_child_nodes(n):
            if isinstance(ch, (ast.ListComp, ast.SetComp, ast.DictComp, ast.GeneratorExp, ast.Lambda, ast.FunctionDef, ast.ClassDef)):
                continue
            if isinstance(ch, ast.Name) and isinstance(ch.ctx, ast.Store):
                out.add(ch.id)
            rec(ch)
    rec(node)
    if isinstance(node, ast.Name) and isinstance(node.ctx, ast.Store):
        out.add(node.id)
    return out
