"""C02 -- assembled stiffness equals the Hessian of the total energy (structural clauses).

Decided here (necessary conditions visible in the shape of the code):
  D1  every advertised option of the three mechanics factories is executable (link integrity over
      their call-graph cones, incl. the `modify_element_gradient` callback-slot protocol);
  D2  the stiffness is the Hessian of the *same* energy: element_hess_func is jax.hessian (argnum 0)
      of FunctionSpace.integrate_element_from_local_field; energy path and Hessian path call the
      gradient hook and the density with the same argument roles; each factory builds energy and
      stiffness from the same density + hook; the Newmark Hessian gives every energy term the
      nodal field the Newmark energy gives it (a term that is a quadratic form is exempt);
  D3  block splitting: every per-element operand in a per-block loop is restricted by the block's
      own element ids and scattered back with the same ids; the model is selected by the same key.
Not decided: numerical equality with jax.hessian, symmetry, COO arithmetic.
"""
from __future__ import annotations

import ast

from optilint.model import FuncVal, ExtVal, walk_local, norm_src, dotted
from optilint.cfg import cfg_of
from optilint.core import Incomplete
from .common import link_cone, calls_in, actual, src, find_calls_to

LEVEL = "other"
RULE_TEXT = ("obligations = (scope in factory cone x link-integrity) + (factory x energy/stiffness argument roles) "
             "+ (per-block loop x operand restricted by block ids); distinct = distinct (rule, function, construct)")
EXPLANATION = ("Static analysis of optimism/Mechanics.py, FunctionSpace.py, SparseMatrixAssembler.py: link integrity of "
               "the cones of create_mechanics_functions / create_multi_block_mechanics_functions / "
               "create_dynamics_functions, sibling agreement between the energy and the Hessian construction, "
               "and block-restriction provenance in the multi-block loops. Decides structural necessary "
               "conditions only; numerical equality of the assembled matrix with the Hessian is not decided.")

M = "optimism.Mechanics"
FS = "optimism.FunctionSpace"
FACTORIES = ["create_mechanics_functions", "create_multi_block_mechanics_functions", "create_dynamics_functions"]


def run(ctx):
    ctx.need_module(M)
    ctx.need_module(FS)
    ctx.need_module("optimism.SparseMatrixAssembler")
    ctx.guard(d1, ctx)
    ctx.guard(d2_hess_wiring, ctx)
    ctx.guard(d2_paths, ctx)
    ctx.guard(d2_factories, ctx)
    ctx.guard(d2_newmark, ctx)
    ctx.guard(d2_projection_guard, ctx)
    ctx.guard(d3_blocks, ctx)
    from .common import hook_agreement, mode_dispatch
    for f_ in FACTORIES:
        hook_agreement(ctx, "D2/T6-one-gradient-transformation", f"{M}:{f_}", min_sites=3)
    mode_dispatch(ctx, "D2/T14-mode-dispatch", [f"{M}:create_mechanics_functions", f"{M}:create_multi_block_mechanics_functions",
                                                 f"{M}:parse_2D_to_3D_gradient_transformation"])
    ctx.trust("python ast; optilint resolver (flow-insensitive name binding, transparent jax wrappers)")
    ctx.trust("jax.hessian(f) differentiates twice w.r.t. positional argument 0 unless argnums is given")


# ------------------------------------------------------------------ D1

def d1(ctx):
    roots = [ctx.need(f"{M}:{f}") for f in FACTORIES]
    roots.append(ctx.need("optimism.SparseMatrixAssembler:assemble_sparse_stiffness_matrix"))

    def stop(s):
        # the cone stays inside the mechanics / function-space / interpolation layer
        return not s.module.name.startswith(("optimism.Mechanics", "optimism.FunctionSpace", "optimism.Interpolants",
                                             "optimism.SparseMatrixAssembler", "optimism.TensorMath",
                                             "optimism.QuadratureRule", "optimism.Mesh"))
    link_cone(ctx, "D1/T10-link", roots, "mechanics factories", stop=stop, min_scopes=30)


# ------------------------------------------------------------------ D2: hessian wiring

def d2_hess_wiring(ctx):
    rule = "D2/T5-hessian-of-element-energy"
    mod = ctx.need_module(M)
    ms = mod.scope
    target = ctx.need(f"{FS}:integrate_element_from_local_field")
    bs = ms.bindings.get("element_hess_func")
    if not bs:
        raise Incomplete("Mechanics.element_hess_func not bound")
    for b in bs:
        call = b.value
        ok = False
        detail = ""
        if isinstance(call, ast.Call):
            fv = ctx.repo.resolve(call.func, ms)
            is_hess = any(isinstance(v, ExtVal) and v.name == "jax.hessian" for v in fv)
            inner = ctx.repo.resolve(call.args[0], ms) if call.args else set()
            is_target = any(isinstance(v, FuncVal) and v.scope is target for v in inner) and len(inner) == 1
            argnums = None
            if len(call.args) > 1:
                argnums = call.args[1]
            for k in call.keywords:
                if k.arg == "argnums":
                    argnums = k.value
            arg0 = argnums is None or (isinstance(argnums, ast.Constant) and argnums.value == 0)
            ok = is_hess and is_target and arg0
            detail = f"hessian={is_hess} of integrate_element_from_local_field={is_target} argnums0={arg0}"
        ctx.decide(rule, ok, ms, b.node, construct="element_hess_func", detail=detail,
                   bad_detail="element_hess_func is not jax.hessian(FunctionSpace.integrate_element_from_local_field) w.r.t. argument 0: " + detail)
    # differentiated argument is the element nodal field, and the wrapper forwards the roles
    wrap = ctx.need(f"{M}:compute_element_stiffness_from_global_fields")
    tparams = target.params()
    for call in calls_in(wrap):
        if dotted(call.func) != "element_hess_func":
            continue
        roles = {}
        for p in tparams:
            roles[p] = actual(call, tparams, p)
        a0 = roles.get(tparams[0])
        # first argument must be <global field>[<connectivity>, :] of the wrapper's own U / elConn params
        ok0 = False
        cfg = cfg_of(wrap)
        node = [n for n in cfg.nodes if n.ast is not None and any(c is call for c in ast.walk(n.ast))]
        from .common import expand
        a0x = expand(cfg, node[0], a0) if node and a0 is not None else a0
        if isinstance(a0x, ast.Subscript) and isinstance(a0x.value, ast.Name) and a0x.value.id == wrap.params()[0]:
            ok0 = "elConn" in {n.id for n in ast.walk(a0x.slice) if isinstance(n, ast.Name)} or \
                  any(n.id in wrap.params() for n in ast.walk(a0x.slice) if isinstance(n, ast.Name))
        ctx.decide(rule, ok0, wrap, call, construct="differentiated-argument",
                   detail=f"argument 0 of the element Hessian is {src(a0x)}",
                   bad_detail=f"argument 0 of the element Hessian is {src(a0x)}, not the global field gathered on the element connectivity")
        for pname, want in (("func", "lagrangian_density"), ("modify_element_gradient", "modify_element_gradient"),
                            ("elemStates", "elInternals"), ("dt", "dt"), ("elemVols", "elVols"),
                            ("elemShapes", "elShapes"), ("elemShapeGrads", "elShapeGrads")):
            if pname not in tparams:
                raise Incomplete(f"parameter {pname} of integrate_element_from_local_field vanished")
            got = roles.get(pname)
            ok = isinstance(got, ast.Name) and got.id in wrap.params()
            # role agreement by parameter *position class*: the wrapper's parameter feeding `pname`
            ctx.decide(rule, ok and _role_ok(pname, got.id if ok else ""), wrap, call,
                       construct=f"forward:{pname}", detail=f"{pname} <- {src(got)}",
                       bad_detail=f"{pname} of the element energy receives {src(got)}")


def _role_ok(pname, argname):
    table = {"func": ("lagrangian", "density", "func"), "modify_element_gradient": ("modify", "gradient"),
             "elemStates": ("internal", "state"), "dt": ("dt",), "elemVols": ("vol",),
             "elemShapes": ("shape",), "elemShapeGrads": ("shapegrad", "grad")}
    a = argname.lower()
    if pname == "elemShapes":
        return "shape" in a and "grad" not in a
    return any(t in a for t in table[pname])


# ------------------------------------------------------------------ D2: energy path vs Hessian path

def _hook_call_roles(ctx, scope, hook_param):
    """Roles of the 5 arguments of the call through the gradient hook in `scope`."""
    cfg = cfg_of(scope)
    from .common import expand
    for n in cfg.nodes:
        if n.ast is None or n.kind != "stmt":
            continue
        for call in [c for c in ast.walk(n.ast) if isinstance(c, ast.Call)]:
            if isinstance(call.func, ast.Name) and call.func.id == hook_param:
                return n, call, [expand(cfg, n, a) for a in call.args]
    return None, None, None


def _classify(e, scope):
    """Role of an expression inside an element kernel."""
    s = src(e)
    names = {n.id for n in ast.walk(e) if isinstance(n, ast.Name)}
    if "compute_quadrature_point_field_gradient" in s:
        return "field-gradients"
    low = s.lower()
    if isinstance(e, ast.Subscript) or isinstance(e, ast.Name):
        if "coord" in low:
            return "nodal-coords"
        if "shapegrad" in low:
            return "shape-grads"
        if "shape" in low:
            return "shapes"
        if "vol" in low:
            return "vols"
        return "nodal-field"
    return "other:" + s


def d2_paths(ctx):
    rule = "D2/T6-energy-vs-hessian-path"
    e_path = ctx.need(f"{FS}:compute_element_field_gradient")      # used by evaluate_on_element
    h_path = ctx.need(f"{FS}:integrate_element_from_local_field")
    ev = ctx.need(f"{FS}:evaluate_on_element")
    want = ["field-gradients", "shapes", "vols", "nodal-field", "nodal-coords"]
    roles = {}
    for sc in (e_path, h_path):
        n, call, args = _hook_call_roles(ctx, sc, "modify_element_gradient")
        if call is None:
            raise Incomplete(f"no call through modify_element_gradient in {sc.qualname}")
        got = [_classify(a, sc) for a in args]
        roles[sc.qualname] = got
        ctx.decide(rule, got == want, sc, call, construct="hook-argument-roles",
                   detail=f"roles {got}", bad_detail=f"gradient hook called with roles {got}, expected {want}")
    # evaluate_on_element must route through compute_element_field_gradient with the same hook
    calls = find_calls_to(ev, ctx, e_path.qualname)
    ok = bool(calls) and all(isinstance(actual(c, e_path.params(), "modify_element_gradient"), ast.Name) and
                             actual(c, e_path.params(), "modify_element_gradient").id == "modify_element_gradient"
                             for c in calls)
    ctx.decide(rule, ok if calls else None, ev, calls[0] if calls else None, construct="energy-path-uses-hook",
               detail="evaluate_on_element forwards its hook to compute_element_field_gradient",
               bad_detail="evaluate_on_element does not forward its gradient hook")
    # density call: vmap(func, (0,0,0,0,None,...))(vals, grads, states, points, dt)
    for sc, fname in ((ev, "kernelFunc"), (h_path, "func")):
        found = False
        for call in calls_in(sc):
            f = call.func
            if isinstance(f, ast.Call) and dotted(f.func) in ("jax.vmap", "vmap") and f.args and \
                    isinstance(f.args[0], ast.Name) and f.args[0].id == fname:
                found = True
                cfg = cfg_of(sc)
                from .common import expand
                node = [n for n in cfg.nodes if n.ast is not None and any(c is call for c in ast.walk(n.ast))][0]
                axes = expand(cfg, node, f.args[1]) if len(f.args) > 1 else None
                ax = []
                if isinstance(axes, ast.Tuple):
                    for e in axes.elts[:5]:
                        ax.append(e.value if isinstance(e, ast.Constant) else "?")
                okax = ax == [0, 0, 0, 0, None]
                a = [src(x) for x in call.args[:5]]
                cls = []
                for x in call.args[:5]:
                    xs = src(expand(cfg, node, x)).lower()
                    if "modify_element_gradient" in xs or "grad" in xs:
                        cls.append("grads")
                    elif "state" in xs:
                        cls.append("states")
                    elif "coord" in xs:
                        cls.append("points")
                    elif xs == "dt":
                        cls.append("dt")
                    elif "interpolate" in xs:
                        cls.append("values")
                    else:
                        cls.append("other:" + xs)
                okr = cls == ["values", "grads", "states", "points", "dt"]
                ctx.decide(rule, okax and okr, sc, call, construct="density-call",
                           detail=f"in_axes {ax} roles {cls}",
                           bad_detail=f"density called with in_axes {ax} / roles {cls} ({a})")
        if not found:
            ctx.undecided(rule, sc, None, construct="density-call", detail=f"no vmap({fname}, ...) call found")
    # both integrate with the element volumes: np.dot(fVals, elemVols) / dot(vals, vols[block])
    iob = ctx.need(f"{FS}:integrate_over_block")
    for sc, volname in ((h_path, "elemVols"),):
        rets = sc.returns()
        ok = len(rets) == 1 and isinstance(rets[0], ast.Call) and dotted(rets[0].func) in ("np.dot", "jax.numpy.dot") \
            and any(isinstance(a, ast.Name) and a.id == volname for a in rets[0].args)
        ctx.decide(rule, ok, sc, rets[0] if rets else None, construct="weights",
                   detail="element integral is dot(values, element volumes)",
                   bad_detail="element integral is not dot(values, elemVols)")
    rets = iob.returns()
    ok = len(rets) == 1 and "vols[block]" in src(rets[0]) and "np.dot" in src(rets[0])
    ctx.decide(rule, ok, iob, rets[0] if rets else None, construct="weights",
               detail="block integral is dot(values, vols[block])",
               bad_detail="block integral is not dot(values, functionSpace.vols[block])")


# ------------------------------------------------------------------ D2: factories

def _closure_call(scope, inner_name, callee_names):
    inner = None
    for c in scope.children:
        if c.name == inner_name and c.is_function():
            inner = c
    if inner is None:
        return None, None
    for call in calls_in(inner):
        d = dotted(call.func)
        if d and d.split(".")[-1] in callee_names:
            return inner, call
    return inner, None


def d2_factories(ctx):
    rule = "D2/T6-factory-energy-vs-stiffness"
    table = [
        ("create_mechanics_functions", "compute_strain_energy", "_compute_strain_energy",
         "compute_element_stiffnesses", "_compute_element_stiffnesses",
         [("compute_energy_density", "compute_energy_density"), ("modify_element_gradient", "modify_element_gradient"),
          ("UField", "U"), ("stateField", "internals"), ("dt", "dt"), ("functionSpace", "functionSpace")]),
        ("create_multi_block_mechanics_functions", "compute_strain_energy", "_compute_strain_energy_multi_block",
         "compute_element_stiffnesses", "_compute_element_stiffnesses_multi_block",
         [("blockModels", "blockModels"), ("modify_element_gradient", "modify_element_gradient"),
          ("UField", "U"), ("stateField", "stateVariables"), ("dt", "dt"), ("functionSpace", "functionSpace")]),
        ("create_dynamics_functions", "compute_algorithmic_energy", "compute_newmark_lagrangian",
         "compute_element_hessians", "_compute_newmark_element_hessians",
         [("strain_energy_density", "strain_energy_density"), ("modify_element_gradient", "modify_element_gradient"),
          ("U", "U"), ("UPredicted", "UPredicted"), ("internals", "internals"), ("dt", "dt"),
          ("density", "density"), ("newmarkBeta", "newmarkBeta"), ("functionSpace", "functionSpace")]),
    ]
    for fac, e_inner, e_callee, k_inner, k_callee, pairs in table:
        fs = ctx.need(f"{M}:{fac}")
        ei, ecall = _closure_call(fs, e_inner, {e_callee})
        ki, kcall = _closure_call(fs, k_inner, {k_callee})
        if ecall is None or kcall is None:
            ctx.undecided(rule, fs, None, construct=f"{fac}:closures",
                          detail=f"cannot find {e_inner}->{e_callee} / {k_inner}->{k_callee}")
            continue
        ec = ctx.need(f"{M}:{e_callee}")
        kc = ctx.need(f"{M}:{k_callee}")
        for (pe, pk) in pairs:
            ae = actual(ecall, ec.params(), pe)
            ak = actual(kcall, kc.params(), pk)
            if ae is None or ak is None:
                ctx.undecided(rule, fs, kcall, construct=f"{fac}:{pe}",
                              detail=f"parameter {pe}/{pk} not found in callee signatures")
                continue
            # plain aliases of the factory (`fs = functionSpace`) are resolved before comparing
            al = {}
            for st_ in fs.node.body:
                if isinstance(st_, ast.Assign) and len(st_.targets) == 1 and isinstance(st_.targets[0], ast.Name) and isinstance(st_.value, ast.Name):
                    nm_ = st_.targets[0].id
                    ndef = sum(1 for w_ in ast.walk(fs.node) if (isinstance(w_, ast.Name) and isinstance(w_.ctx, ast.Store) and w_.id == nm_)
                               or (isinstance(w_, ast.FunctionDef) and w_.name == nm_))
                    if ndef == 1:
                        al[nm_] = st_.value.id

            def _unalias(e_):
                t_ = src(e_)
                if isinstance(e_, ast.Name) and e_.id in al:
                    t_ = al[e_.id]
                return _canon_fs(t_)
            se, sk = _unalias(ae), _unalias(ak)
            # closure parameters are compared by position in their own closure
            if isinstance(ae, ast.Name) and ae.id in ei.params() and isinstance(ak, ast.Name) and ak.id in ki.params():
                ok = ei.params().index(ae.id) == ki.params().index(ak.id)
                se, sk = f"param#{ei.params().index(ae.id)}", f"param#{ki.params().index(ak.id)}"
            else:
                ok = se == sk
            ctx.decide(rule, ok, fs, kcall, construct=f"{fac}:{pe}",
                       detail=f"energy gets {se}, stiffness gets {sk}",
                       bad_detail=f"energy is built with {pe}={se} but the stiffness with {pk}={sk}")
    # inside the helpers: both wrap the density the same way and pass the hook on
    for (a, b) in (("_compute_strain_energy", "_compute_element_stiffnesses"),
                   ("_compute_strain_energy_multi_block", "_compute_element_stiffnesses_multi_block")):
        sa, sb = ctx.need(f"{M}:{a}"), ctx.need(f"{M}:{b}")
        for sc in (sa, sb):
            wraps = [c for c in calls_in(sc) if dotted(c.func) == "strain_energy_density_to_lagrangian_density"]
            hooks = [n for n in walk_local(sc.node) if isinstance(n, ast.Name) and n.id == "modify_element_gradient"
                     and isinstance(n.ctx, ast.Load)]
            ok = len(wraps) >= 1 and len(hooks) >= 1
            ctx.decide(rule, ok, sc, wraps[0] if wraps else None, construct="density-wrap-and-hook",
                       detail=f"{len(wraps)} lagrangian wrap(s), hook forwarded {len(hooks)}x",
                       bad_detail="helper does not wrap the density with strain_energy_density_to_lagrangian_density "
                                  "or drops the gradient hook")
    w = ctx.need(f"{M}:strain_energy_density_to_lagrangian_density")
    inner = [c for c in w.children if c.is_function()]
    ok = False
    if inner:
        L = inner[0]
        r = L.returns()
        ps = L.params()
        if len(r) == 1 and isinstance(r[0], ast.Call) and len(ps) >= 5:
            args = [a.id if isinstance(a, ast.Name) else None for a in r[0].args]
            ok = args == [ps[1], ps[2], ps[4]] and isinstance(r[0].func, ast.Name) and r[0].func.id == w.params()[0]
    ctx.decide(rule, ok, w, None, construct="lagrangian-adapter",
               detail="L(U, gradU, Q, X, dt) = density(gradU, Q, dt)",
               bad_detail="the Lagrangian adapter does not forward (gradU, Q, dt) to the strain energy density")


def _canon_fs(s):
    return s.replace("functionSpace", "fs")


# ------------------------------------------------------------------ D2: Newmark

def _is_quadratic_form(ctx, fn_scope, argname):
    """fn returns c * dot(arg, arg) with c independent of arg."""
    rets = fn_scope.returns()
    if len(rets) != 1:
        return False
    e = rets[0]
    factors = []

    def flat(x):
        if isinstance(x, ast.BinOp) and isinstance(x.op, ast.Mult):
            flat(x.left)
            flat(x.right)
        else:
            factors.append(x)
    flat(e)
    ndot = 0
    for f in factors:
        names = {n.id for n in ast.walk(f) if isinstance(n, ast.Name)}
        if isinstance(f, ast.Call) and dotted(f.func) in ("np.dot", "np.vdot", "np.inner") and len(f.args) == 2 \
                and all(isinstance(a, ast.Name) and a.id == argname for a in f.args):
            ndot += 1
        elif isinstance(f, ast.BinOp) and isinstance(f.op, ast.MatMult) and \
                all(isinstance(a, ast.Name) and a.id == argname for a in (f.left, f.right)):
            ndot += 1
        elif argname in names:
            return False
    return ndot == 1


def _density_terms(ctx, dens_scope, outer):
    """Terms of a Lagrangian density closure: list of (kind, uses_field_value, uses_field_gradient)."""
    ps = dens_scope.params()
    rets = dens_scope.returns()
    terms = []
    if len(rets) != 1:
        return None
    e = rets[0]
    adds = []

    def flat(x):
        if isinstance(x, ast.BinOp) and isinstance(x.op, ast.Add):
            flat(x.left)
            flat(x.right)
        else:
            adds.append(x)
    flat(e)
    for t in adds:
        s = src(t)
        if "kinetic_energy_density" in s:
            terms.append(("kinetic", t))
        elif "strain_energy_density" in s or "compute_energy_density" in s:
            terms.append(("strain", t))
        else:
            terms.append(("other", t))
    return terms


def d2_newmark(ctx):
    rule = "D2/T6-newmark-term-fields"
    lag = ctx.need(f"{M}:compute_newmark_lagrangian")
    hes = ctx.need(f"{M}:_compute_newmark_element_hessians")
    ked = ctx.need(f"{M}:kinetic_energy_density")
    quad = _is_quadratic_form(ctx, ked, ked.params()[0])
    ctx.decide("D2/T7-kinetic-quadratic", quad, ked, None, construct="kinetic_energy_density",
               detail="kinetic energy density is c*dot(V,V) (constant Hessian)",
               bad_detail="kinetic energy density is not a quadratic form c*dot(V,V); Newmark inertia term analysis invalid")
    from .common import expand
    cfg = cfg_of(lag)
    iob = ctx.need(f"{FS}:integrate_over_block")
    # energy side: field per term
    efield = {}
    for n in cfg.nodes:
        if n.kind != "stmt" or n.ast is None:
            continue
        for call in [c for c in ast.walk(n.ast) if isinstance(c, ast.Call)]:
            if dotted(call.func) and dotted(call.func).endswith("integrate_over_block"):
                U = actual(call, iob.params(), "U")
                func = actual(call, iob.params(), "func")
                # which density reaches `func` here
                kind = "other"
                if isinstance(func, ast.Name):
                    ds = cfg.reaching(n, func.id)
                    for d in ds:
                        if isinstance(d.ast, ast.FunctionDef):
                            body = src(d.ast)
                            kind = "kinetic" if "kinetic_energy_density" in body else kind
                        elif isinstance(d.ast, ast.Assign) and "strain_energy_density_to_lagrangian_density" in src(d.ast.value):
                            kind = "strain"
                efield[kind] = src(expand(cfg, n, U))
    if set(efield) != {"kinetic", "strain"}:
        ctx.undecided(rule, lag, None, construct="energy-terms", detail=f"terms found: {efield}")
        return
    # hessian side
    hcfg = cfg_of(hes)
    wrapper = ctx.need(f"{M}:compute_element_stiffness_from_global_fields")
    hcalls = []
    for n in hcfg.nodes:
        if n.kind != "stmt" or n.ast is None:
            continue
        for call in [c for c in ast.walk(n.ast) if isinstance(c, ast.Call)]:
            vals = ctx.cg.expand(ctx.repo.resolve(call.func, hes))
            if any(isinstance(v, FuncVal) and v.scope is wrapper for v in vals):
                hcalls.append((n, call))
    if not hcalls:
        ctx.undecided(rule, hes, None, construct="hessian-calls", detail="no call of the element-stiffness kernel found")
        return
    hfield = {}
    for (n, call) in hcalls:
        U = actual(call, wrapper.params(), "U")
        dens = actual(call, wrapper.params(), "lagrangian_density")
        Ux = src(expand(hcfg, n, U))
        terms = None
        if isinstance(dens, ast.Name):
            for d in hcfg.reaching(n, dens.id):
                if isinstance(d.ast, ast.FunctionDef):
                    sc = ctx.repo.scope_of(d.ast)
                    terms = _density_terms(ctx, sc, hes)
                elif isinstance(d.ast, ast.Assign) and "strain_energy_density_to_lagrangian_density" in src(d.ast.value):
                    terms = [("strain", d.ast.value)]
        if terms is None:
            ctx.undecided(rule, hes, call, construct="hessian-density", detail=f"cannot classify density {src(dens)}")
            return
        for (k, t) in terms:
            hfield.setdefault(k, []).append(Ux)
    for kind in ("kinetic", "strain"):
        got = hfield.get(kind, [])
        if not got:
            ctx.refuted(rule, hes, None, construct=f"term:{kind}",
                        detail=f"the Newmark element Hessian has no {kind} term although the Newmark energy has one")
            continue
        for g in got:
            same = _canon_fs(g) == _canon_fs(efield[kind])
            exempt = (kind == "kinetic" and quad)
            ctx.decide(rule, same or exempt, hes, hcalls[0][1], construct=f"term:{kind}",
                       detail=f"{kind} term: energy at {efield[kind]}, Hessian at {g}" + (" (quadratic form: field-independent)" if exempt and not same else ""),
                       bad_detail=f"{kind} energy term is evaluated at `{efield[kind]}` in compute_newmark_lagrangian "
                                  f"but its Hessian at `{g}` in _compute_newmark_element_hessians")
    if "other" in hfield:
        ctx.undecided(rule, hes, None, construct="term:other", detail="unclassified term in the Newmark Hessian density")


# ------------------------------------------------------------------ D2: projection option guard

def d2_projection_guard(ctx):
    """The projection degree 0 (piecewise-constant J) is an advertised value, so the option must be
    tested for `is not None`; a truthiness test silently disables it for degree 0.  All sites that
    branch on the option must agree (contradiction rule between sibling factories)."""
    rule = "D2/T6-projection-option-guard"
    sites = []
    for q in ("create_mechanics_functions", "create_multi_block_mechanics_functions",
              "define_pressure_projection_gradient_tranformation", "create_dynamics_functions"):
        sc = ctx.need(f"{M}:{q}")
        opt = [p for p in sc.params() if "projection" in p.lower()]
        if not opt:
            continue
        for st in walk_local(sc.node):
            tests = []
            if isinstance(st, (ast.If, ast.While)):
                tests.append(st.test)
            elif isinstance(st, ast.IfExp):
                tests.append(st.test)
            for t in tests:
                names = {n.id for n in ast.walk(t) if isinstance(n, ast.Name)}
                if opt[0] in names:
                    sites.append((sc, t, opt[0]))
    if len(sites) < 3:
        raise Incomplete(f"{len(sites)} branches on the pressure-projection option found (3 on the reference tree)")
    for (sc, t, o) in sites:
        ok = isinstance(t, ast.Compare) and len(t.ops) == 1 and isinstance(t.ops[0], (ast.IsNot, ast.Is)) \
            and isinstance(t.left, ast.Name) and t.left.id == o and isinstance(t.comparators[0], ast.Constant) \
            and t.comparators[0].value is None
        ctx.decide(rule, ok, sc, t, construct=f"guard:{sc.name}",
                   detail=f"option tested as `{src(t)}`",
                   bad_detail=f"pressure projection option is tested as `{src(t)}`; degree 0 is a valid value, so only "
                              f"`{o} is not None` selects the projection consistently with the sibling factories")


# ------------------------------------------------------------------ D3: blocks

def d3_blocks(ctx):
    rule = "D3/T9-block-restricted"
    targets = [f"{M}:_compute_strain_energy_multi_block", f"{M}:_compute_updated_internal_variables_multi_block",
               f"{M}:_compute_initial_state_multi_block", f"{M}:_compute_element_stiffnesses_multi_block",
               f"{M}:create_multi_block_mechanics_functions.compute_output_energy_densities_and_stresses"]
    n_loops = 0
    for q in targets:
        sc = ctx.need(q)
        for st in walk_local(sc.node):
            if not isinstance(st, ast.For) or not isinstance(st.target, ast.Name):
                continue
            key = st.target.id
            body_nodes = []
            for b in st.body:
                body_nodes.extend(ast.walk(b))
            # names holding this block's element ids
            E = set()
            for b in st.body:
                if isinstance(b, ast.Assign) and len(b.targets) == 1 and isinstance(b.targets[0], ast.Name):
                    v = b.value
                    if isinstance(v, ast.Subscript) and isinstance(v.value, ast.Attribute) and v.value.attr == "blocks" \
                            and isinstance(v.slice, ast.Name) and v.slice.id == key:
                        E.add(b.targets[0].id)
            uses_models = [n for n in body_nodes if isinstance(n, ast.Subscript) and isinstance(n.value, ast.Name)
                           and n.value.id in ("blockModels", "materialModels")]
            if not E:
                # the loops that only size the state array do not touch element data
                touches = any(isinstance(n, ast.Subscript) and not (isinstance(n.value, ast.Name) and n.value.id in ("blockModels", "materialModels"))
                              and not (isinstance(n.value, ast.Attribute) and n.value.attr == "shape")
                              for n in body_nodes)
                if touches:
                    ctx.undecided(rule, sc, st, construct=f"loop:{key}", detail="per-block loop without `mesh.blocks[key]` ids")
                continue
            n_loops += 1
            # (a) model selected by the same key
            for u in uses_models:
                ok = isinstance(u.slice, ast.Name) and u.slice.id == key
                ctx.decide(rule, ok, sc, u, construct=f"model-key:{src(u)}",
                           detail="material model selected by the loop's block key",
                           bad_detail=f"material model selected by `{src(u.slice)}` inside the loop over `{key}`")
            # restricted names: X = Y[elemIds] (and reshapes thereof)
            restricted = set()
            changed = True
            while changed:
                changed = False
                for b in st.body:
                    if isinstance(b, ast.Assign) and len(b.targets) == 1 and isinstance(b.targets[0], ast.Name):
                        t = b.targets[0].id
                        if t in restricted:
                            continue
                        if _is_restricted(b.value, E, restricted):
                            restricted.add(t)
                            changed = True
            # (b) vmapped kernels: mapped operands restricted
            for b in st.body:
                for call in [c for c in ast.walk(b) if isinstance(c, ast.Call)]:
                    axes = None
                    f = call.func
                    if isinstance(f, ast.Name):
                        # f = vmap(kernel, in_axes) defined in the loop body
                        for b2 in st.body:
                            if isinstance(b2, ast.Assign) and isinstance(b2.targets[0], ast.Name) and b2.targets[0].id == f.id \
                                    and isinstance(b2.value, ast.Call) and dotted(b2.value.func) in ("vmap", "jax.vmap"):
                                axes = b2.value.args[1] if len(b2.value.args) > 1 else None
                    elif isinstance(f, ast.Call) and dotted(f.func) in ("vmap", "jax.vmap"):
                        axes = f.args[1] if len(f.args) > 1 else None
                    if isinstance(axes, ast.Tuple):
                        for ax, a in zip(axes.elts, call.args):
                            if isinstance(ax, ast.Constant) and ax.value == 0:
                                ok = _is_restricted(a, E, restricted)
                                ctx.decide(rule, ok, sc, a, construct=f"mapped-operand:{src(a)}",
                                           detail="per-element operand restricted to the block",
                                           bad_detail=f"per-element operand `{src(a)}` of the block kernel is not restricted by {sorted(E)}")
                    d = dotted(f) or ""
                    if d.endswith("integrate_over_block") or d.endswith("evaluate_on_block"):
                        tgt = ctx.need(f"{FS}:{d.split('.')[-1]}")
                        blk = actual(call, tgt.params(), "block")
                        ok = isinstance(blk, ast.Name) and blk.id in E
                        ctx.decide(rule, ok, sc, call, construct=f"block-arg:{d.split('.')[-1]}",
                                   detail=f"block argument is {src(blk)}",
                                   bad_detail=f"block argument `{src(blk)}` is not this block's element ids {sorted(E)}")
                    # (c) scatter .at[ids ...].set(...)
                    if isinstance(f, ast.Attribute) and f.attr in ("set", "add") and isinstance(f.value, ast.Subscript) \
                            and isinstance(f.value.value, ast.Attribute) and f.value.value.attr == "at":
                        idx = f.value.slice
                        first = idx.elts[0] if isinstance(idx, ast.Tuple) else idx
                        ok = isinstance(first, ast.Name) and first.id in E
                        ctx.decide(rule, ok, sc, call, construct=f"scatter:{src(f.value.value.value)}",
                                   detail=f"scattered back with {src(first)}",
                                   bad_detail=f"block result scattered with `{src(first)}`, not the block's element ids {sorted(E)}")
    if n_loops < 5:
        raise Incomplete(f"only {n_loops} per-block loops with element ids found (5 confirmed by hand)")
    # FunctionSpace.evaluate_on_block: every mapped operand is restricted by [block]
    ev = ctx.need(f"{FS}:evaluate_on_block")
    cfg = cfg_of(ev)
    from .common import expand
    done = False
    for n in cfg.nodes:
        if n.kind != "stmt" or n.ast is None:
            continue
        for call in [c for c in ast.walk(n.ast) if isinstance(c, ast.Call)]:
            if isinstance(call.func, ast.Name):
                fdef = expand(cfg, n, call.func)
                if isinstance(fdef, ast.Call) and dotted(fdef.func) in ("jax.vmap", "vmap") and len(fdef.args) > 1 \
                        and isinstance(fdef.args[1], ast.Tuple):
                    done = True
                    for ax, a in zip(fdef.args[1].elts, call.args):
                        if isinstance(ax, ast.Starred) or isinstance(a, ast.Starred):
                            break
                        if isinstance(ax, ast.Constant) and ax.value == 0:
                            ok = isinstance(a, ast.Subscript) and isinstance(a.slice, ast.Name) and a.slice.id == "block"
                            ctx.decide(rule, ok, ev, a, construct=f"mapped-operand:{src(a)}",
                                       detail="restricted by [block]",
                                       bad_detail=f"per-element operand `{src(a)}` of evaluate_on_block is not restricted by [block]")
    if not done:
        ctx.undecided(rule, ev, None, construct="evaluate_on_block", detail="vmapped element kernel call not found")


def _is_restricted(e, E, restricted):
    if isinstance(e, ast.Name):
        return e.id in restricted
    if isinstance(e, ast.Subscript):
        idx = e.slice
        first = idx.elts[0] if isinstance(idx, ast.Tuple) else idx
        if isinstance(first, ast.Name) and first.id in E:
            return True
        return False
    if isinstance(e, ast.Call) and isinstance(e.func, ast.Attribute) and e.func.attr in ("reshape", "ravel"):
        return _is_restricted(e.func.value, E, restricted)
    return False


# ------------------------------------------------------------------ selftest variants

def variants(repo):
    from optilint.selftest import Variant, sub, sub_in_func, alpha_rename, reformat, commute
    P = "optimism/Mechanics.py"
    F = "optimism/FunctionSpace.py"
    V = [
        Variant("projection helper gains a required parameter", P,
                sub("def volume_average_J_gradient_transformation(elemDispGrads, elemVols, pShapes):",
                    "def volume_average_J_gradient_transformation(elemDispGrads, elemVols, pShapes, elemShapes):"),
                "D1/T10-link"),
        Variant("projection helper renamed at one use", P,
                sub_in_func("define_pressure_projection_gradient_tranformation", "Interpolants.compute_shapes(masterJ, xigauss).values",
                            "Interpolants.compute_shapes_on_tri(masterJ, xigauss)"),
                "D1/T10-link"),
        Variant("hook with 4 parameters", P,
                sub("def plane_strain_gradient_transformation(elemDispGrads, elemShapes, elemVols, elemNodalDisps, elemNodalCoords):",
                    "def plane_strain_gradient_transformation(elemDispGrads, elemShapes, elemVols, elemNodalDisps):"),
                "D1/T10-link"),
        Variant("hessian w.r.t. coordinates", P,
                sub("element_hess_func = hessian(FunctionSpace.integrate_element_from_local_field)",
                    "element_hess_func = hessian(FunctionSpace.integrate_element_from_local_field, 1)"),
                "D2/T5-hessian-of-element-energy"),
        Variant("stiffness without hook", P,
                sub_in_func("create_mechanics_functions",
                            "_compute_element_stiffnesses(U, stateVariables, dt, fs, materialModel.compute_energy_density, modify_element_gradient)",
                            "_compute_element_stiffnesses(U, stateVariables, dt, fs, materialModel.compute_energy_density, grad_2D_to_3D)"),
                "D2/T6-factory-energy-vs-stiffness"),
        Variant("drop [elemIds] on one operand", P,
                sub("fs.shapes[elemIds], fs.shapeGrads[elemIds], fs.vols[elemIds],", "fs.shapes[elemIds], fs.shapeGrads[elemIds], fs.vols,"),
                "D3/T9-block-restricted"),
        Variant("scatter with wrong ids", P,
                sub("elementHessians = elementHessians.at[elemIds].set(blockHessians)",
                    "elementHessians = elementHessians.at[:elemIds.size].set(blockHessians)"),
                "D3/T9-block-restricted"),
        Variant("hook roles swapped in hessian path", F,
                sub("elemGrads = modify_element_gradient(elemGrads, elemShapes, elemVols, elemNodalField, elemNodalCoords)",
                    "elemGrads = modify_element_gradient(elemGrads, elemShapes, elemVols, elemNodalCoords, elemNodalField)"),
                "D2/T6-energy-vs-hessian-path"),
        Variant("strain hessian at U-UPredicted", P,
                sub_in_func("_compute_newmark_element_hessians", "return f(U,", "return f(U - UPredicted,"),
                "D2/T6-newmark-term-fields"),
        Variant("unrestricted vols in evaluate_on_block", F,
                sub("fs.shapeGrads[block], fs.vols[block],", "fs.shapeGrads[block], fs.vols,"),
                "D3/T9-block-restricted"),
        Variant("truthiness guard on projection degree", P,
                sub_in_func("create_multi_block_mechanics_functions", "if pressureProjectionDegree is not None:", "if pressureProjectionDegree:"),
                "D2/T6-projection-option-guard"),
        Variant("reformat Mechanics", P, reformat(), None),
        Variant("reformat FunctionSpace", F, reformat(), None),
        Variant("alpha-rename _compute_element_stiffnesses_multi_block", P,
                alpha_rename("_compute_element_stiffnesses_multi_block"), None),
        Variant("alpha-rename _compute_newmark_element_hessians", P,
                alpha_rename("_compute_newmark_element_hessians"), None),
    ]
    return V
