"""C02 -- assembled stiffness equals the Hessian of the total energy; block splitting is transparent.

All D2 / D3 obligations are decided on the *results* of interpreting the source of optimism/Mechanics.py and
optimism/FunctionSpace.py symbolically (rules/C02_model.py: optilint.tensoreval extended with vmap/in_axes, hessian
requests, uninterpreted material models) on a tiny mesh with symbolic data.  Nothing is matched against statement text,
local names, helper names or idioms; what is used of the library is its public interface (the three factories, the fields of
the containers they return, the FunctionSpace integrators, the attributes of FunctionSpace/Mesh, the material-model interface).

  D1  every advertised option of the three mechanics factories is executable (link integrity over their call-graph cones);
  D2  T5  what `compute_element_stiffnesses` / `compute_element_hessians` return is, element by element, a Hessian of ONE function
          w.r.t. the element's own nodal values U[conns[e],:] (up to a U-independent shift), nothing else depending on U;
      T6  energy(U) - sum_e (that function)(U) is affine in U, for every factory x mode2D x pressureProjectionDegree:
          same density, same gradient transformation, same weights, same parameters; for Newmark, per energy term;
          the two FunctionSpace integrators call the gradient hook and the density with the roles their contract states;
          every closure of a factory hands the same displacement gradient to the material; degree 0 is honoured like degree 1
          and sibling factories agree;  T14 each mode2D yields its kinematics (plane strain / hoop strain u_r/r);
      T7  the kinetic energy is a quadratic form (constant Hessian);
  D3  multi-block with one material per block: energy, stiffness, state update, initial state and output fields are, block by
      block, those of the single-block factory with that block's material; with the same material everywhere nothing changes.
Not decided: numerical equality with jax.hessian, symmetry, COO arithmetic.
"""
from __future__ import annotations

import ast

from optilint.core import Incomplete
from optilint.tensoreval import Dual, Arr, PyFunc, Record, Closure, EvalError, Raised, _A
from optilint.expr import Rat, Poly, simplify
from .common import link_cone
from . import C02_model as cm
from .C02_model import World, NE, NN, NQ, ND, NSTATE, NNODE, CONNS, BLOCKS, MappedSizeMismatch, InfiniteRecursion

LEVEL = "other"
RULE_TEXT = ("obligations = (scope in factory cone x link-integrity) + (factory x mode2D x projection degree x {energy vs differentiated "
             "element function, per-closure kinematics}) + (block x quantity vs single-block factory); identities between symbolic results "
             "of interpreting the factories, not source templates")
EXPLANATION = ("Symbolic interpretation (optilint.tensoreval + rules/C02_model.py) of optimism/Mechanics.py and FunctionSpace.py on a "
               "3-element mesh with symbolic fields, shape data and internal variables and uninterpreted material models: the array "
               "returned by the element-stiffness closures is traced back to jax.hessian requests, the differentiated function is "
               "re-evaluated and compared with the energy closure of the same factory (difference affine in U), for every mode2D and "
               "pressure-projection degree; the multi-block factory is compared block by block with the single-block one. Link integrity "
               "of the factories' call-graph cones. Numerical equality of the assembled sparse matrix with the Hessian is not decided.")

M = "optimism.Mechanics"
FS = "optimism.FunctionSpace"
FACTORIES = ["create_mechanics_functions", "create_multi_block_mechanics_functions", "create_dynamics_functions"]
KIND = {"create_mechanics_functions": "single", "create_multi_block_mechanics_functions": "multi", "create_dynamics_functions": "dyn"}
MODES = ["plane strain", "axisymmetric"]
DEGREES = [None, 0, 1]
ERR = (EvalError, Raised, KeyError, ValueError, TypeError, AttributeError, IndexError, RecursionError, ZeroDivisionError)

T5 = "D2/T5-hessian-of-element-energy"
T6P = "D2/T6-energy-vs-hessian-path"
T6F = "D2/T6-factory-energy-vs-stiffness"
T6N = "D2/T6-newmark-term-fields"
T6H = "D2/T6-one-gradient-transformation"
T6G = "D2/T6-projection-option-guard"
T7 = "D2/T7-kinetic-quadratic"
T14 = "D2/T14-mode-dispatch"
T9 = "D3/T9-block-restricted"


def run(ctx):
    ctx.need_module(M)
    ctx.need_module(FS)
    ctx.need_module("optimism.SparseMatrixAssembler")
    ctx.guard(d1, ctx)
    S = Session(ctx)
    ctx.guard(d2_paths, ctx, S)
    ctx.guard(d2_hess_wiring, ctx, S)
    ctx.guard(d2_factories, ctx, S)
    ctx.guard(d2_newmark, ctx, S)
    ctx.guard(d2_kinematics, ctx, S)
    ctx.guard(d2_projection_guard, ctx, S)
    ctx.guard(d2_modes, ctx, S)
    ctx.guard(d3_blocks, ctx, S)
    for q in sorted(S.W.I.visited):
        sc = ctx.repo.find(q)
        if sc is not None and not sc.module.is_test:
            ctx.touch(sc)
    ctx.trust("python ast; optilint resolver (flow-insensitive name binding, transparent jax wrappers)")
    ctx.trust("jax.hessian(f, argnums)(*args) is the second derivative of f w.r.t. positional argument argnums at args; jax.vmap(f, in_axes) "
              "applies f along the leading axis of the arguments whose in_axes entry is 0")
    ctx.trust("exact rational-function arithmetic; applications of uninterpreted functions are identified when their arguments are equal "
              "(polynomial identity test modulo 2^61-1, confirmed by exact subtraction)")
    ctx.assume("material models, Interpolants.compute_shapes and numpy.linalg.solve / sqrt are pure functions of their arguments")


# ------------------------------------------------------------------ D1

def d1(ctx):
    roots = [ctx.need(f"{M}:{f}") for f in FACTORIES]
    roots.append(ctx.need("optimism.SparseMatrixAssembler:assemble_sparse_stiffness_matrix"))

    def stop(s):
        # the cone stays inside the mechanics / function-space / interpolation layer
        return not s.module.name.startswith(("optimism.Mechanics", "optimism.FunctionSpace", "optimism.Interpolants",
                                             "optimism.SparseMatrixAssembler", "optimism.TensorMath",
                                             "optimism.QuadratureRule", "optimism.Mesh"))
    link_cone(ctx, "D1/T10-link", roots, "mechanics factories", stop=stop, min_scopes=30)


# ------------------------------------------------------------------ evaluation sessions

FIELD_ARGS = {
    "single": {"compute_strain_energy": "UQt", "compute_updated_internal_variables": "UQt", "compute_element_stiffnesses": "UQt",
               "compute_output_energy_densities_and_stresses": "UQt", "integrated_material_qoi": "UQt", "compute_output_material_qoi": "UQt",
               "compute_initial_state": ""},
    "dyn": {"compute_algorithmic_energy": "UPQt", "compute_updated_internal_variables": "UQt", "compute_element_hessians": "UPQt",
            "compute_output_energy_densities_and_stresses": "UQt", "compute_output_strain_energy": "UQt", "compute_initial_state": "",
            "compute_output_kinetic_energy": "V", "compute_element_masses": ""},
}
FIELD_ARGS["multi"] = FIELD_ARGS["single"]
ENERGY = {"single": "compute_strain_energy", "multi": "compute_strain_energy", "dyn": "compute_algorithmic_energy"}
STIFF = {"single": "compute_element_stiffnesses", "multi": "compute_element_stiffnesses", "dyn": "compute_element_hessians"}


class Ev:
    """result of evaluating one closure: value | error, the hessian requests / material calls it made, whether a fallback was used"""
    def __init__(self):
        self.value = None
        self.error = None
        self.exc = None
        self.reqs = []
        self.log = []
        self.tainted = False


class Case:
    def __init__(self, S, fac, mode, deg, mats):
        self.S, self.fac, self.mode, self.deg, self.mats = S, fac, mode, deg, mats
        self.kind = KIND[fac]
        self.fns = None
        self.rejected = None       # the factory raised: option not offered
        self.error = None
        self.exc = None
        self.evs = {}
        self.label = f"{fac}:mode2D={mode!r},pressureProjectionDegree={deg}"
        W = S.W
        self.tainted = False
        t0 = len(W.I.taint)
        try:
            f = W.fn(M, fac)
            fsr = W.fs_for(mode)
            if self.kind == "single":
                self.fns = W.call(f, fsr, mode, W.material(mats), deg)
            elif self.kind == "multi":
                self.fns = W.call(f, fsr, mode, {b: W.material(m) for b, m in zip(BLOCKS, mats)}, deg)
            else:
                self.fns = W.call(f, fsr, mode, W.material(mats), W.newmark(), deg)
            if not isinstance(self.fns, Record):
                self.error, self.fns = f"factory returned {self.fns!r}", None
        except Raised as ex:
            self.rejected = str(ex)
        except ERR as ex:
            self.error, self.exc = f"{type(ex).__name__}: {ex}", ex
        self.tainted = len(W.I.taint) > t0

    def ev(self, field) -> Ev:
        if field in self.evs:
            return self.evs[field]
        W, I = self.S.W, self.S.W.I
        e = self.evs[field] = Ev()
        if self.fns is None:
            e.error = self.error or f"option rejected: {self.rejected}"
            return e
        spec = FIELD_ARGS[self.kind].get(field)
        if spec is None or field not in self.fns.fields or self.fns.get(field) is None:
            e.error = f"the factory's result has no closure `{field}`"
            return e
        args = {"UQt": [W.U, W.Q, W.dt], "UPQt": [W.U, W.UP, W.Q, W.dt], "": [], "V": [self.S.V]}[spec]
        h0, l0, t0 = len(I.hess), len(I.log), len(I.taint)
        try:
            e.value = I.call(self.fns.get(field), list(args), {})
        except ERR as ex:
            e.error, e.exc = f"{type(ex).__name__}: {ex}", ex
        e.reqs = list(range(h0, len(I.hess)))
        e.log = I.log[l0:]
        e.tainted = self.tainted or len(I.taint) > t0
        return e


class Session:
    def __init__(self, ctx):
        self.ctx = ctx
        # the extended interpreter of rules/C15_model.py (try / match / with, dict dispatch, n-D gathers, decorators, scan ...) understands
        # more restructurings of Mechanics.py than the base one; it is a subclass, so everything the base model decides is decided alike
        try:
            from .C15_model import DynWorld
            self.W = DynWorld(ctx)
        except ImportError:
            self.W = World(ctx)
        self.V = self.W.I.sym_arr("V", (NNODE, ND))
        self.cases = {}
        self.req_eval = {}
        self._canon = {}
        self.scopes = {f: ctx.need(f"{M}:{f}") for f in FACTORIES}

    def case(self, fac, mode, deg, mats=None) -> Case:
        if mats is None:
            mats = ("A", "A") if KIND[fac] == "multi" else "A"
        k = (fac, mode, deg, mats)
        if k not in self.cases:
            self.cases[k] = Case(self, fac, mode, deg, mats)
        return self.cases[k]

    def canon(self, v):
        """canonical id of a value: equal fingerprints are confirmed by exact comparison"""
        k = self.W.I.vkey(v)
        lst = self._canon.setdefault(k, [])
        for i, v0 in enumerate(lst):
            if v0 is v or self.W.same(v0, v) is not False:
                return (k, i)
        lst.append(v)
        return (k, len(lst) - 1)

    def request(self, k):
        """(value G_k of the differentiated function at the actual arguments | None, error, material log, tainted)"""
        if k in self.req_eval:
            return self.req_eval[k]
        I = self.W.I
        r = I.hess[k]
        l0, t0 = len(I.log), len(I.taint)
        val = err = None
        try:
            val = I.num(I.call(r["fn"], list(r["args"]), dict(r["kwargs"])))
            if isinstance(val, Arr):
                val, err = None, "the differentiated function is not scalar valued"
        except ERR as ex:
            err = f"{type(ex).__name__}: {ex}"
        out = self.req_eval[k] = (val, err, I.log[l0:], len(I.taint) > t0)
        return out


def short(x, n=300):
    s = repr(x)
    return s if len(s) <= n else s[:n] + " ..."


def groups(W, syms):
    """readable description of a set of base symbols"""
    names = {"U": "the nodal field U", "UP": "UPredicted", "X": "the nodal coordinates", "N": "the shape functions", "dN": "the shape function gradients",
             "w": "the quadrature volumes", "Q": "the internal variables", "dt": "dt", "beta": "the Newmark parameter beta", "gamma": "the Newmark parameter gamma",
             "xg": "the quadrature points", "wg": "the quadrature weights", "V": "the velocity field"}
    out = set()
    for s in syms:
        p = s.split("_")[0]
        if p.startswith("rho"):
            out.add("the mass density")
        elif p.startswith("xiP"):
            out.add(f"the pressure-projection interpolation of degree {p[3:]}")
        elif p.startswith("HESS"):
            out.add("an element Hessian")
        else:
            out.add(names.get(p, p))
    return sorted(out)


# ------------------------------------------------------------------ reading the stiffness array

def element_functions(S, ev: Ev):
    """For every element e: [(coefficient Rat, request index)] such that the stiffness block of e is sum_k c_k * Hessian_k in the
    layout of the request itself; (None, reason) when the array cannot be read that way; ('zero', ...) when a block is identically 0."""
    K = ev.value
    I = S.W.I
    if not isinstance(K, Arr) or K.ndim < 1 or K.shape[0] != NE:
        return None, f"the stiffness closure returns {short(K, 80)}, not an array with one block per element"
    n2 = K.size() // NE
    out = {}
    for e in range(NE):
        blk = K.data[e * n2:(e + 1) * n2]
        if all(x.is_zero() for x in blk):
            out[e] = "zero"
            continue
        coef = None
        for i, x in enumerate(blk):
            r = simplify(_A.norm(x.a))
            if any(a.startswith("HESS") for a in r.d.atoms()):
                return None, f"element {e}: a Hessian entry occurs in a denominator"
            ci = {}
            for m, c in r.n.t.items():
                hs = [(a, ex) for a, ex in m if a.startswith("HESS")]
                if len(hs) != 1 or hs[0][1] != 1:
                    return None, f"element {e}: entry {i} is not a linear combination of Hessian entries ({short(r, 120)})"
                k, j = hs[0][0][4:].split("_")
                if int(j) != i:
                    return None, f"element {e}: entry {i} of the block is entry {j} of a Hessian (permuted layout)"
                rest = tuple(t for t in m if t[0] != hs[0][0])
                ci.setdefault(int(k), {})[rest] = c
            ci = {k: Rat(Poly(v), r.d) for k, v in ci.items()}
            if coef is None:
                coef = ci
            elif set(ci) != set(coef) or any(not _A.is_zero(_A.norm(ci[k] - coef[k])) for k in ci):
                return None, f"element {e}: the entries of the block combine Hessians with different coefficients"
        out[e] = sorted(coef.items())
    return out, None


def element_sum(S, ef, elements=None):
    """sum over the elements of sum_k c_k G_k; (Rat | None, error, log, tainted)"""
    tot = Rat(Poly(), Poly.const(1))
    log, tainted = [], False
    for e in sorted(ef):
        if elements is not None and e not in elements:
            continue
        if ef[e] == "zero":
            continue
        for k, c in ef[e]:
            val, err, lg, tn = S.request(k)
            if err:
                return None, f"element {e}: cannot evaluate the differentiated function: {err}", log, tainted
            tot = tot + c * val.a
            log += lg
            tainted = tainted or tn
    return _A.norm(tot), None, log, tainted


def report_exc(ctx, rule, scope, construct, ev_or_case, what, block_context=False):
    """an evaluation failed: REFUTED when the failure is itself a derived defect, else UNDECIDED"""
    exc = getattr(ev_or_case, "exc", None)
    err = getattr(ev_or_case, "error", None)
    if isinstance(exc, InfiniteRecursion):
        ctx.refuted(T6H, scope, None, construct=construct + ":recursion", detail=f"{what}: {exc}")
        return
    if isinstance(exc, MappedSizeMismatch) and block_context:
        ctx.refuted(T9, scope, None, construct=construct + ":mapped-operand",
                    detail=f"{what}: jax.vmap of {exc.fname} receives per-element operands of different lengths {sorted(set(exc.sizes.values()))} "
                           f"(positions {sorted(exc.sizes)}): an operand is not restricted to the block's elements")
        return
    ctx.undecided(rule, scope, None, construct=construct, detail=f"{what}: cannot interpret: {err}")


# ------------------------------------------------------------------ D2: the two FunctionSpace integrators (contract of hook and density)

def d2_paths(ctx, S):
    rule = T6P
    W, I = S.W, S.W.I
    h_path = ctx.need(f"{FS}:integrate_element_from_local_field")
    e_path = ctx.need(f"{FS}:integrate_over_block")
    hook_calls, dens_calls = [], []

    def hook(it, args, kw):
        hook_calls.append(list(args) + [kw[k] for k in sorted(kw)])
        return it.opaque("HOOK", hook_calls[-1], shape=(NQ, 3, 3))

    def dens(it, args, kw):
        dens_calls.append(list(args) + [kw[k] for k in sorted(kw)])
        return it.opaque("L", dens_calls[-1])
    H, L = PyFunc("gradient_hook", hook), PyFunc("lagrangian_density", dens)

    def spec_hook(e):
        u = [[W.U.get((CONNS[e][a], i)) for i in range(ND)] for a in range(NN)]
        x = [[W.X.get((CONNS[e][a], i)) for i in range(ND)] for a in range(NN)]
        raw = [[[sum((u[a][i] * W.dN.get((e, q, a, j)) for a in range(NN)), Dual(0)) for j in range(ND)] for i in range(ND)] for q in range(NQ)]
        return [Arr.from_nested(raw), W.N.index(e), W.w.index(e), Arr.from_nested(u), Arr.from_nested(x)]

    def spec_dens(e, q, hookval):
        u = [sum((W.N.get((e, q, a)) * W.U.get((CONNS[e][a], i)) for a in range(NN)), Dual(0)) for i in range(ND)]
        x = [sum((W.N.get((e, q, a)) * W.X.get((CONNS[e][a], i)) for a in range(NN)), Dual(0)) for i in range(ND)]
        return [Arr.from_nested(u), hookval.index(q), W.Q.index((e, q)), Arr.from_nested(x), W.dt]
    role_names = ["quadrature-point field gradients", "element shape functions", "element quadrature volumes", "element nodal field", "element nodal coordinates"]
    dens_names = ["field value at the point", "(transformed) field gradient at the point", "internal variables of the point", "coordinates of the point", "dt"]

    def first_mismatch(got, want):
        """index of the first role that differs (None: all agree; -1: cannot compare)"""
        if len(got) != len(want):
            return -2
        for i, (g, w_) in enumerate(zip(got, want)):
            r = W.same(g, w_)
            if r is None:
                return -1
            if not r:
                return i
        return None

    def check_roles(path_scope, path, elements, hc, dc, value):
        # hook: one call per element with the five contract roles (the order of the calls is irrelevant)
        bad = und = None
        hv = {}
        for got in hc:
            if len(got) != 5:
                bad = f"gradient hook called with {len(got)} arguments"
                break
            res = {e: first_mismatch(got, spec_hook(e)) for e in elements}
            hit = [e for e in elements if res[e] is None]
            if hit:
                if hit[0] in hv:
                    bad = f"the gradient hook is called twice for element {hit[0]}"
                    break
                hv[hit[0]] = I.opaque("HOOK", got, shape=(NQ, 3, 3))
                continue
            if any(r == -1 for r in res.values()):
                und = "an argument of the gradient hook is not a numeric value"
                break
            e, i = max(res.items(), key=lambda kv: kv[1])
            bad = f"argument {i + 1} of the gradient hook must be the {role_names[i]} (element {e}); got {short(got[i], 160)}"
            break
        if bad is None and und is None and sorted(hv) != sorted(elements):
            bad = f"the gradient hook is called for the elements {sorted(hv)}, the integral runs over {sorted(elements)}"
        ctx.decide(rule, None if und else bad is None, path_scope, None, construct=f"{path}:hook-argument-roles",
                   detail="hook(field gradients, shapes, volumes, nodal field, nodal coordinates) of the element",
                   bad_detail=f"{path}: {und or bad}")
        if bad or und:
            return
        seen = set()
        for got in dc:
            if len(got) != 5:
                bad = f"density called with {len(got)} arguments"
                break
            loc = W.element_of_state(got[2])
            cands = [p_ for p_ in loc if p_[0] in elements] or [(e, q) for e in elements for q in range(NQ)]
            res = {p_: first_mismatch(got, spec_dens(p_[0], p_[1], hv[p_[0]])) for p_ in cands}
            hit = [p_ for p_ in cands if res[p_] is None]
            if hit:
                if hit[0] in seen:
                    bad = f"the density is evaluated twice at quadrature point {hit[0]}"
                    break
                seen.add(hit[0])
                continue
            if any(r == -1 for r in res.values()):
                und = "an argument of the density is not a numeric value"
                break
            p_, i = max(res.items(), key=lambda kv: kv[1])
            bad = f"argument {i + 1} of the density must be the {dens_names[i]} (element {p_[0]}, point {p_[1]}); got {short(got[i], 160)}"
            break
        if bad is None and und is None and len(seen) != len(elements) * NQ:
            bad = f"{len(seen)} density evaluations for {len(elements) * NQ} quadrature points"
        ctx.decide(rule, None if und else bad is None, path_scope, None, construct=f"{path}:density-call",
                   detail="density(u, transformed grad u, q, x, dt) at every quadrature point",
                   bad_detail=f"{path}: {und or bad}")
        if bad or und:
            return
        want = Dual(0)
        for e in elements:
            for q in range(NQ):
                want = want + I.opaque("L", spec_dens(e, q, hv[e])) * W.w.get((e, q))
        ok = W.same(value, want)
        ctx.decide(rule, ok, path_scope, None, construct=f"{path}:weights",
                   detail="integral = sum over quadrature points of density * quadrature volume",
                   bad_detail=f"{path}: the result is not the sum of density values weighted by the quadrature volumes of the same points: {short(value, 200)}")

    for (bname, block, elements) in (("all", slice(None), list(range(NE))), ("ids", W.blocks["blockA"], BLOCKS["blockA"])):
        # energy path
        del hook_calls[:], dens_calls[:]
        t0 = len(I.taint)
        try:
            val = I.call(W.fn(FS, "integrate_over_block"), [W.fs, W.U, W.Q, W.dt, L, block], {"modify_element_gradient": H})
            if len(I.taint) > t0:
                raise EvalError(f"uninterpretable kernel: {I.taint[-1]}")
            check_roles(e_path, f"integrate_over_block[{bname}]", elements, list(hook_calls), list(dens_calls), val)
        except MappedSizeMismatch as ex:
            ctx.refuted(T9, e_path, None, construct=f"integrate_over_block[{bname}]:mapped-operand",
                        detail=f"integrate_over_block over an index block: jax.vmap of {ex.fname} receives per-element operands of lengths "
                               f"{sorted(set(ex.sizes.values()))}: an operand is not restricted by [block]")
            val = None
        except ERR as ex:
            ctx.undecided(rule, e_path, None, construct=f"integrate_over_block[{bname}]", detail=f"cannot interpret: {type(ex).__name__}: {ex}")
            val = None
        if bname != "all":
            continue
        # Hessian path: the element integral of the local field
        del hook_calls[:], dens_calls[:]
        t0 = len(I.taint)
        try:
            tot = Dual(0)
            for e in elements:
                u, x = spec_hook(e)[3], spec_hook(e)[4]
                tot = tot + I.num(I.call(W.fn(FS, "integrate_element_from_local_field"),
                                         [u, x, W.Q.index(e), W.dt, W.N.index(e), W.dN.index(e), W.w.index(e), L, H], {}))
            if len(I.taint) > t0:
                raise EvalError(f"uninterpretable kernel: {I.taint[-1]}")
            check_roles(h_path, "integrate_element_from_local_field", elements, list(hook_calls), list(dens_calls), tot)
            if val is not None:
                ctx.decide(rule, W.same(val, tot), h_path, None, construct="energy-path==hessian-path",
                           detail="integrate_over_block = sum over elements of integrate_element_from_local_field of the gathered nodal values",
                           bad_detail="integrate_over_block and the sum of integrate_element_from_local_field over the elements differ "
                                      f"(with the same density and gradient hook): {short(W.rat(val) - W.rat(tot), 240)}")
        except ERR as ex:
            ctx.undecided(rule, h_path, None, construct="integrate_element_from_local_field", detail=f"cannot interpret: {type(ex).__name__}: {ex}")


# ------------------------------------------------------------------ D2: what the stiffness closures differentiate

def stiffness_of(ctx, S, case, rule, scope):
    """(element functions, Ev) of the case's stiffness closure, or None after recording why not"""
    ev = case.ev(STIFF[case.kind])
    if ev.error:
        report_exc(ctx, rule, scope, case.label, ev, STIFF[case.kind], block_context=case.kind == "multi")
        return None, ev
    ef, why = element_functions(S, ev)
    if ef is None:
        ctx.undecided(rule, scope, None, construct=case.label, detail=f"{STIFF[case.kind]}: {why}")
        return None, ev
    return ef, ev


def d2_hess_wiring(ctx, S):
    rule = T5
    W, I = S.W, S.W.I
    n_done = 0
    for fac in FACTORIES:
        scope = S.scopes[fac]
        case = S.case(fac, "plane strain", None)
        if case.fns is None:
            ctx.undecided(rule, scope, None, construct=f"{fac}:factory", detail=f"cannot build the factory: {case.error or case.rejected}")
            continue
        ef, ev = stiffness_of(ctx, S, case, rule, scope)
        if ef is None:
            continue
        n_done += 1
        zero = [e for e in ef if ef[e] == "zero"]
        ctx.decide(rule, not zero, scope, None, construct=f"{fac}:every-element-has-a-hessian",
                   detail=f"{STIFF[case.kind]} returns, for each of the {NE} elements, a combination of jax.hessian results in their own layout",
                   bad_detail=f"{STIFF[case.kind]}: the blocks of elements {zero} are identically zero (no Hessian is stored for them)")
        bad_arg = bad_dep = bad_fn = und_arg = None
        for e in sorted(ef):
            if ef[e] == "zero":
                continue
            for k, c in ef[e]:
                r = I.hess[k]
                a0 = r["args"][r["argnum"]]
                want = Arr.from_nested([[W.U.get((CONNS[e][a], i)) for i in range(ND)] for a in range(NN)])
                if not isinstance(a0, Arr) or a0.size() != want.size():
                    und_arg = und_arg or (f"element {e}: jax.hessian differentiates w.r.t. argument {r['argnum']} of shape {getattr(a0, 'shape', None)}, "
                                          f"not the {NN}x{ND} nodal values of one element: layout of the stiffness block not recognised")
                    continue
                shift = [_A.norm(x.a - y.a) for x, y in zip(a0.data, want.data)]
                dep = set()
                for s_ in shift:
                    dep |= I.deps_of_rat(s_) & W.usyms
                if dep:
                    bad_arg = bad_arg or (f"element {e}: jax.hessian differentiates w.r.t. argument {r['argnum']} = {short(a0, 200)}; that is not U[conns[{e}],:] "
                                          f"(the dofs the assembler attributes to the block) plus a U-independent shift")
                others = set()
                for j, a in enumerate(r["args"]):
                    if j != r["argnum"]:
                        try:
                            others |= I.deps(a) & W.usyms
                        except ERR:
                            pass
                for a in r["kwargs"].values():
                    others |= I.deps(a) & W.usyms
                if others or (I.deps_of_rat(c) & W.usyms):
                    bad_dep = bad_dep or f"element {e}: an argument that is not differentiated (or the coefficient of the Hessian) depends on U ({sorted(others)[:4]}): that dependence is missing from the stiffness"
                val, err, _, _ = S.request(k)
                if err:
                    bad_fn = bad_fn or f"element {e}: {err}"
        if ev.tainted:        # a kernel could not be interpreted: differences are not reliable
            und_arg, bad_arg = und_arg or bad_arg, None
            bad_fn, bad_dep = bad_fn or bad_dep, None
        ctx.decide(rule, False if bad_arg else (None if und_arg else True), scope, None, construct=f"{fac}:differentiated-argument",
                   detail="the Hessian is taken w.r.t. the element's own nodal values U[conns[e],:] in (node, component) layout",
                   bad_detail=f"{STIFF[case.kind]}: {bad_arg or und_arg}")
        ctx.decide(rule, bad_dep is None, scope, None, construct=f"{fac}:other-arguments-independent-of-U",
                   detail="no other argument of the differentiated function depends on U",
                   bad_detail=f"{STIFF[case.kind]}: {bad_dep}")
        ctx.decide(rule, None if bad_fn else True, scope, None, construct=f"{fac}:scalar-element-function",
                   detail="the differentiated function evaluates to a scalar at the actual arguments",
                   bad_detail=f"{STIFF[case.kind]}: {bad_fn}")
    if n_done == 0:
        raise Incomplete("no stiffness closure could be read")


# ------------------------------------------------------------------ D2: energy vs differentiated function, per factory and option

def compare_energy(ctx, S, case, scope):
    """D = E - sum_e F_e and its diagnosis; None when something could not be evaluated (already recorded under T6F)"""
    W, I = S.W, S.W.I
    if case.rejected is not None:
        return "rejected"
    if case.fns is None:
        report_exc(ctx, T6F, scope, case.label, case, "factory")
        return None
    ee = case.ev(ENERGY[case.kind])
    if ee.error:
        report_exc(ctx, T6F, scope, case.label, ee, ENERGY[case.kind], block_context=case.kind == "multi")
        return None
    ef, ev = stiffness_of(ctx, S, case, T6F, scope)
    if ef is None:
        return None
    try:
        E = W.rat(ee.value)
    except ERR as ex:
        ctx.undecided(T6F, scope, None, construct=case.label, detail=f"{ENERGY[case.kind]} does not return a scalar: {ex}")
        return None
    F, err, flog, ftaint = element_sum(S, ef)
    if err:
        ctx.undecided(T6F, scope, None, construct=case.label, detail=err)
        return None
    D = _A.norm(E - F)
    bad = W.nonaffine(D)
    return {"E": E, "F": F, "D": D, "bad": bad, "tainted": ee.tainted or ev.tainted or ftaint, "ef": ef, "elog": ee.log, "flog": flog}


def nonaffine_part(W, r: Rat):
    """the monomials of r that are not affine in U, over r's own denominator"""
    I = W.I
    r = simplify(_A.norm(r))
    keep = {}
    for m, c in r.n.t.items():
        deg = 0
        for k, e in m:
            if k in W.usyms:
                deg += e
            elif I.atom_deps.get(k, frozenset()) & W.usyms:
                deg += 2
        if deg > 1:
            keep[m] = c
    return Rat(Poly(keep), r.d)


def diagnose(S, res):
    W, I = S.W, S.W.I
    E, F, bad = res["E"], res["F"], res["bad"]
    dE = I.deps_of_rat(nonaffine_part(W, E)) - W.usyms
    dF = I.deps_of_rat(nonaffine_part(W, F)) - W.usyms
    msgs = []
    onlyE, onlyF = groups(W, dE - dF), groups(W, dF - dE)
    if onlyE:
        msgs.append(f"only the energy's U-dependent part involves {', '.join(onlyE)}")
    if onlyF:
        msgs.append(f"only the differentiated function's U-dependent part involves {', '.join(onlyF)}")
    labels = sorted({I.atom_info[k.split('.')[0]][0] if k.split('.')[0] in I.atom_info else k for m in bad if m[0] != "denominator" for k in m[1]})
    if labels:
        nice = [("the strain energy density of material " + x[3:]) if x.startswith("SE:") else x for x in labels]
        msgs.append(f"{', '.join(nice)} is evaluated at different arguments (gradient / state / time step) on the two sides and does not cancel")
    elif bad and bad[0][0] != "denominator":
        msgs.append("the polynomial (inertia) parts differ by a term that is quadratic in U: " + short(Rat(Poly({m[0]: m[2] for m in bad[:2]})), 160))
    return "; ".join(msgs)


def d2_factories(ctx, S):
    rule = T6F
    W, I = S.W, S.W.I
    n_done = 0
    for fac in FACTORIES:
        scope = S.scopes[fac]
        for mode in MODES:
            for deg in DEGREES:
                case = S.case(fac, mode, deg)
                res = compare_energy(ctx, S, case, scope)
                if res == "rejected":
                    ctx.proved(rule, scope, None, construct=case.label, detail=f"option combination rejected explicitly ({case.rejected})")
                    continue
                if res is None:
                    continue
                n_done += 1
                if not res["bad"]:
                    ctx.proved(rule, scope, None, construct=case.label,
                               detail=f"{ENERGY[case.kind]}(U) - sum_e (function differentiated by {STIFF[case.kind]})(U) is affine in U")
                elif res["tainted"]:
                    ctx.undecided(rule, scope, None, construct=case.label,
                                  detail=f"energy and differentiated function differ, but a kernel could not be interpreted ({I.taint[-1][0]}: {I.taint[-1][1]})")
                else:
                    ctx.refuted(rule, scope, None, construct=case.label,
                                detail=f"{fac}(mode2D={mode!r}, pressureProjectionDegree={deg}): {STIFF[case.kind]} is not the Hessian of {ENERGY[case.kind]}: "
                                       f"{diagnose(S, res)}")
    if n_done == 0:
        raise Incomplete("no factory could be evaluated")
    # the adapter between material energy densities and Lagrangian densities
    ad = ctx.repo.find(f"{M}:strain_energy_density_to_lagrangian_density")
    if ad is not None:
        ctx.touch(ad)
        try:
            mat = W.material("A")
            Ld = I.call(W.fn(M, "strain_energy_density_to_lagrangian_density"), [mat.get("compute_energy_density")], {})
            u, g, q, x = I.sym_arr("au", (ND,)), I.sym_arr("ag", (3, 3)), I.sym_arr("aq", (NSTATE,)), I.sym_arr("ax", (ND,))
            got = I.call(Ld, [u, g, q, x, W.dt], {})
            want = I.opaque("SE:A", [g, q, W.dt])
            ctx.decide(rule, W.same(got, want), ad, None, construct="lagrangian-adapter",
                       detail="L(U, gradU, Q, X, dt) = density(gradU, Q, dt)",
                       bad_detail=f"the Lagrangian adapter does not forward (gradU, Q, dt) to the strain energy density: L(u, g, q, x, dt) = {short(got, 160)}")
        except ERR as ex:
            ctx.undecided(rule, ad, None, construct="lagrangian-adapter", detail=f"cannot interpret: {ex}")


def d2_newmark(ctx, S):
    rule = T6N
    W, I = S.W, S.W.I
    fac = "create_dynamics_functions"
    scope = S.scopes[fac]
    n_done = 0
    for mode in MODES:
        for deg in (None, 1):
            case = S.case(fac, mode, deg)
            if case.rejected is not None:
                continue
            if case.fns is None or case.ev(ENERGY["dyn"]).error or case.ev(STIFF["dyn"]).error:
                ctx.undecided(rule, scope, None, construct=case.label, detail="the dynamics factory could not be evaluated (see D2/T6-factory-energy-vs-stiffness)")
                continue
            ef, why = element_functions(S, case.ev(STIFF["dyn"]))
            if ef is None:
                ctx.undecided(rule, scope, None, construct=case.label, detail=why)
                continue
            F, err, _, ftaint = element_sum(S, ef)
            if err:
                ctx.undecided(rule, scope, None, construct=case.label, detail=err)
                continue
            n_done += 1
            E = W.rat(case.ev(ENERGY["dyn"]).value)
            D = _A.norm(E - F)
            bad = W.nonaffine(D)
            tainted = ftaint or case.ev(ENERGY["dyn"]).tainted or case.ev(STIFF["dyn"]).tainted
            strain_bad = [b for b in bad if b[0] != "denominator" and b[1]]
            kin_bad = [b for b in bad if b[0] == "denominator" or not b[1]]

            def where(r):
                """fields the material's arguments depend on"""
                out = set()
                for a in r.atoms():
                    base = a.split(".")[0]
                    if base in I.atom_info and I.atom_info[base][0].startswith("SE:"):
                        out |= {s.split("_")[0] for s in I.atom_info[base][2] if s.split("_")[0] in ("U", "UP")}
                return " and ".join(sorted({"U": "U", "UP": "UPredicted"}[x] for x in out)) or "no nodal field"
            ctx.decide(rule, (not strain_bad) if not (strain_bad and tainted) else None, scope, None, construct=f"{case.label}:term:strain",
                       detail="the strain-energy term of the energy and of the differentiated function is evaluated at the same nodal field",
                       bad_detail=f"strain energy term: the algorithmic energy evaluates the material at gradients of {where(E)}, the function differentiated by "
                                  f"compute_element_hessians at gradients of {where(F)}: the Hessian is linearised about a different point")
            ctx.decide(rule, (not kin_bad) if not (kin_bad and tainted) else None, scope, None, construct=f"{case.label}:term:kinetic",
                       detail="the inertia terms differ by at most an affine function of U (quadratic form: evaluation point irrelevant)",
                       bad_detail="inertia term: energy and differentiated function differ by a term quadratic in U: "
                                  + diagnose(S, {"E": E, "F": F, "D": D, "bad": kin_bad}))
    if n_done == 0:
        raise Incomplete("the dynamics factory could not be evaluated")
    # T7: the kinetic energy is a quadratic form in the velocity field
    case = S.case(fac, "plane strain", None)
    ke = case.ev("compute_output_kinetic_energy")
    if ke.error:
        ctx.undecided(T7, scope, None, construct="kinetic-energy", detail=f"compute_output_kinetic_energy: {ke.error}")
    else:
        vs = frozenset(a for x in S.V.data for a in x.a.n.atoms())
        r = W.rat(ke.value)
        deg_ok = not I.deps_of_rat(Rat(r.d)) & vs
        top = 0
        for m_, c in r.n.t.items():
            d_ = 0
            for k, e in m_:
                if k in vs:
                    d_ += e
                elif I.atom_deps.get(k, frozenset()) & vs:
                    d_ += 99
            top = max(top, d_)
        ctx.decide(T7, deg_ok and top == 2, scope, None, construct="kinetic_energy_density",
                   detail="the kinetic energy is a polynomial of degree 2 in the velocity field (constant Hessian)",
                   bad_detail=f"the kinetic energy is not a quadratic form of the velocity field (degree {top if top < 99 else 'non-polynomial'}): "
                              "the Newmark inertia term analysis is invalid")
    ked = ctx.repo.find(f"{M}:kinetic_energy_density")
    if ked is not None:
        ctx.touch(ked)


# ------------------------------------------------------------------ D2: one gradient transformation per factory

def kinematics(S, case, field):
    """{(e, q): key of the displacement gradient handed to the material} for one closure; None if it does not call the material.
    (error string on failure).  The locator (e, q) is read from the internal variables passed along."""
    W, I = S.W, S.W.I
    ev = case.ev(field)
    if ev.error:
        return ev.error, ev
    log = list(ev.log)
    if field == STIFF[case.kind]:
        ef, why = element_functions(S, ev)
        if ef is None:
            return why, ev
        _, err, lg, tn = element_sum(S, ef)
        if err:
            return err, ev
        log += lg
        ev.tainted = ev.tainted or tn
    out = {}
    for kind, mat, args in log:
        if len(args) < 2:
            continue
        loc = W.element_of_state(args[1])
        if len(loc) != 1:
            continue
        try:
            out.setdefault(next(iter(loc)), set()).add(S.canon(args[0]))
        except ERR:
            return "gradient argument of the material is not a value", ev
    return (out or None), ev


def d2_kinematics(ctx, S):
    rule = T6H
    W, I = S.W, S.W.I
    n_done = 0
    for fac in FACTORIES:
        scope = S.scopes[fac]
        kind = KIND[fac]
        for (mode, deg) in (("plane strain", 1),):
            case = S.case(fac, mode, deg)
            if case.fns is None:
                if isinstance(case.exc, InfiniteRecursion):
                    report_exc(ctx, rule, scope, case.label, case, "factory")
                else:
                    ctx.undecided(rule, scope, None, construct=case.label, detail=f"cannot build the factory: {case.error or case.rejected}")
                continue
            ref, rev = kinematics(S, case, ENERGY[kind])
            if not isinstance(ref, dict):
                if isinstance(rev.exc, InfiniteRecursion):
                    report_exc(ctx, rule, scope, case.label, rev, ENERGY[kind])
                else:
                    ctx.undecided(rule, scope, None, construct=f"{case.label}:{ENERGY[kind]}", detail=f"cannot read the kinematics of the energy closure: {ref}")
                continue
            full = len(ref) == NE * NQ and all(len(v) == 1 for v in ref.values())
            ctx.decide(rule, True if full else None, scope, None, construct=f"{fac}:{ENERGY[kind]}:gradient-transformation",
                       detail="reference: one displacement gradient per quadrature point reaches the material",
                       bad_detail=f"the energy closure evaluates the material at {len(ref)} of {NE * NQ} quadrature points")
            n_done += 1
            for field in case.fns.fields:
                if field == ENERGY[kind] or field not in FIELD_ARGS[kind] or case.fns.get(field) is None:
                    continue
                got, ev = kinematics(S, case, field)
                if got is None:
                    continue          # the closure does not evaluate the material model
                if not isinstance(got, dict):
                    if isinstance(ev.exc, (InfiniteRecursion, MappedSizeMismatch)):
                        report_exc(ctx, rule, scope, f"{fac}:{field}", ev, field, block_context=kind == "multi")
                    else:
                        ctx.undecided(rule, scope, None, construct=f"{fac}:{field}:gradient-transformation", detail=f"cannot interpret {field}: {got}")
                    continue
                diff = sorted(p for p in got if p not in ref or got[p] != ref[p])
                ok = not diff
                if not ok and (ev.tainted or rev.tainted):
                    ok = None
                ctx.decide(rule, ok, scope, None, construct=f"{fac}:{field}:gradient-transformation",
                           detail=f"{field} hands the material the same displacement gradients as {ENERGY[kind]} (with pressureProjectionDegree={deg})",
                           bad_detail=f"{fac}(mode2D={mode!r}, pressureProjectionDegree={deg}): {field} evaluates the material at displacement gradients that differ from those "
                                      f"of {ENERGY[kind]} at quadrature points {diff[:3]}: the closures of one factory use different gradient transformations "
                                      f"(energy, derivatives and state update would see different kinematics)")
    if n_done == 0:
        raise Incomplete("no factory could be evaluated with a pressure projection")


# ------------------------------------------------------------------ D2: the projection option (degree 0 is a value, None is 'off')

def d2_projection_guard(ctx, S):
    rule = T6G
    W, I = S.W, S.W.I
    mode = "plane strain"
    sigs = {}
    for fac in FACTORIES:
        for deg in DEGREES:
            case = S.case(fac, mode, deg)
            k, ev = (case.error or case.rejected, None) if case.fns is None else kinematics(S, case, ENERGY[KIND[fac]])
            sigs[(fac, deg)] = k if isinstance(k, dict) and not ev.tainted else None
    n_done = 0
    for fac in FACTORIES:
        scope = S.scopes[fac]
        off, d0, d1_ = sigs[(fac, None)], sigs[(fac, 0)], sigs[(fac, 1)]
        if off is None or d0 is None or d1_ is None:
            ctx.undecided(rule, scope, None, construct=f"guard:{fac}", detail="the factory could not be evaluated (or only with uninterpreted kernels) for pressureProjectionDegree in (None, 0, 1)")
            continue
        n_done += 1
        if d1_ == off:
            ctx.undecided(rule, scope, None, construct=f"guard:{fac}", detail="pressureProjectionDegree=1 has no effect on the kinematics: cannot tell the option's switch")
            continue
        ctx.decide(rule, d0 != off, scope, None, construct=f"guard:{fac}",
                   detail="pressureProjectionDegree=0 switches the projection on (like degree 1); only None switches it off",
                   bad_detail=f"{fac}: with pressureProjectionDegree=0 (piecewise-constant J, a valid degree) the material receives exactly the un-projected "
                              f"displacement gradients of pressureProjectionDegree=None, while degree 1 is projected: the option is tested for truthiness "
                              f"instead of `is not None`, degree 0 is silently ignored")
    ref = FACTORIES[0]
    for fac in FACTORIES[1:]:
        scope = S.scopes[fac]
        for deg in (0, 1):
            a, b = sigs[(ref, deg)], sigs[(fac, deg)]
            if a is None or b is None:
                continue
            ctx.decide(rule, a == b, scope, None, construct=f"siblings:{ref}~{fac}:degree={deg}",
                       detail=f"same kinematics as {ref} for pressureProjectionDegree={deg}",
                       bad_detail=f"with pressureProjectionDegree={deg} (mode2D={mode!r}) {fac} hands the material other displacement gradients than {ref}: "
                                  f"the sibling factories interpret the option differently")
    if n_done == 0:
        raise Incomplete("no factory could be evaluated for the projection option")


# ------------------------------------------------------------------ D2: mode2D

def d2_modes(ctx, S):
    rule = T14
    W, I = S.W, S.W.I

    def spec(mode, e, q):
        g = [[Dual(0)] * 3 for _ in range(3)]
        for i in range(ND):
            for j in range(ND):
                g[i][j] = sum((W.U.get((CONNS[e][a], i)) * W.dN.get((e, q, a, j)) for a in range(NN)), Dual(0))
        if mode == "axisymmetric":
            ur = sum((W.N.get((e, q, a)) * W.U.get((CONNS[e][a], 0)) for a in range(NN)), Dual(0))
            r = sum((W.N.get((e, q, a)) * W.X.get((CONNS[e][a], 0)) for a in range(NN)), Dual(0))
            g[2][2] = ur / r
        return S.canon(Arr.from_nested(g))
    n_done = 0
    for fac in FACTORIES:
        scope = S.scopes[fac]
        for mode in MODES:
            case = S.case(fac, mode, None)
            if case.rejected is not None:
                ctx.proved(rule, scope, None, construct=f"{fac}:{mode}", detail=f"mode rejected explicitly ({case.rejected})")
                continue
            if case.fns is None:
                ctx.undecided(rule, scope, None, construct=f"{fac}:{mode}", detail=f"cannot build the factory: {case.error}")
                continue
            got, ev = kinematics(S, case, ENERGY[KIND[fac]])
            if not isinstance(got, dict):
                ctx.undecided(rule, scope, None, construct=f"{fac}:{mode}", detail=f"cannot read the kinematics: {got}")
                continue
            n_done += 1
            bad = sorted(p for p in got if got[p] != {spec(mode, *p)})
            what = "[[grad u, 0], [0, u_r/r]] (hoop strain from the interpolated radial displacement and radius)" if mode == "axisymmetric" else "[[grad u, 0], [0, 0]]"
            ok = (not bad and len(got) == NE * NQ)
            if not ok and ev.tainted:
                ok = None
            ctx.decide(rule, ok, scope, None, construct=f"{fac}:{mode}",
                       detail=f"'{mode}': the material receives {what}",
                       bad_detail=f"{fac}: with mode2D='{mode}' the displacement gradient handed to the material is not {what} at quadrature points {bad[:3]}"
                                  + ("; the axisymmetric idealisation needs the hoop strain (volumes carry the 2 pi r weight)" if mode == "axisymmetric" else
                                     "; only the axisymmetric idealisation has an out-of-plane strain"))
    if n_done == 0:
        raise Incomplete("no factory could be evaluated")


# ------------------------------------------------------------------ D3: blocks

def element_part(W, r: Rat, elements):
    """the part of an integral that belongs to the given elements (monomials carrying a quadrature volume of those elements);
    None if a monomial carries no or several elements' volumes"""
    r = simplify(_A.norm(r))
    if any(a.startswith("w_") for a in r.d.atoms()):
        return None
    keep = {}
    for m, c in r.n.t.items():
        es = {int(a.split("_")[1]) for a, _ in m if a.startswith("w_")}
        if len(es) != 1:
            return None
        if next(iter(es)) in elements:
            keep[m] = c
    return Rat(Poly(keep), r.d)


def rows_equal(W, a, b, rows):
    a, b = W.I.num(a), W.I.num(b)
    if not isinstance(a, Arr) or not isinstance(b, Arr) or a.shape != b.shape:
        return False
    return all(W.same(a.index(e), b.index(e)) for e in rows)


def d3_blocks(ctx, S):
    rule = T9
    W, I = S.W, S.W.I
    mfac, sfac = "create_multi_block_mechanics_functions", "create_mechanics_functions"
    scope = S.scopes[mfac]
    mode = "plane strain"
    n_done = 0
    mats = ("A", "B")
    for deg in (None, 1):
        multi = S.case(mfac, mode, deg, mats)
        same = S.case(mfac, mode, deg, ("A", "A"))
        singles = {m: S.case(sfac, mode, deg, m) for m in mats}
        tag = f"degree={deg}"
        if multi.fns is None or any(c.fns is None for c in singles.values()):
            ctx.undecided(rule, scope, None, construct=f"factories:{tag}", detail=f"cannot build the factories: {multi.error or multi.rejected or [c.error for c in singles.values()]}")
            continue
        n_done += 1
        # ---- energy, block by block
        me = multi.ev("compute_strain_energy")
        if me.error:
            report_exc(ctx, rule, scope, f"energy:{tag}", me, "compute_strain_energy", block_context=True)
        else:
            for (b, els), m in zip(BLOCKS.items(), mats):
                se = singles[m].ev("compute_strain_energy")
                got = None if se.error else element_part(W, W.rat(me.value), els)
                want = None if se.error else element_part(W, W.rat(se.value), els)
                ok = None if got is None or want is None else W.is_zero(got - want)
                if ok is False and (me.tainted or se.tainted):
                    ok = None
                ctx.decide(rule, ok, scope, None, construct=f"energy:{b}:{tag}",
                           detail=f"the energy of {b} (elements {els}) is the single-block energy of its material over those elements",
                           bad_detail=f"multi-block strain energy, part of the elements {els} of {b}: it is not the energy of the block's own material model over the block's "
                                      f"own elements (operands not restricted by the block's element ids, or the model selected by another key): "
                                      f"{short(got - want if got is not None and want is not None else None, 200)}")
            # all elements covered exactly once
            tot = sum((len(v) for v in BLOCKS.values()))
            parts = [element_part(W, W.rat(me.value), [e]) for e in range(NE)]
            ctx.decide(rule, None if any(p is None for p in parts) else all(not W.is_zero(p) for p in parts), scope, None, construct=f"energy:coverage:{tag}",
                       detail=f"every one of the {tot} elements contributes to the multi-block energy",
                       bad_detail="an element of the mesh does not contribute to the multi-block strain energy")
        # ---- stiffness, element by element
        ef, mk = stiffness_of(ctx, S, multi, rule, scope)
        if ef is not None:
            for (b, els), m in zip(BLOCKS.items(), mats):
                se = singles[m].ev("compute_strain_energy")
                zero = [e for e in els if ef[e] == "zero"]
                F, err, _, ft = element_sum(S, ef, els)
                want = None if se.error else element_part(W, W.rat(se.value), els)
                if zero:
                    ok, why = False, f"the blocks of elements {zero} are never written (scattered with other ids)"
                elif err or want is None:
                    ok, why = None, err or "single-block energy not available"
                else:
                    bad = W.nonaffine(_A.norm(F - want))
                    ok = not bad
                    why = "the function differentiated for these elements is not the block material's energy of these elements"
                    if not ok and (ft or mk.tainted or se.tainted):
                        ok = None
                ctx.decide(rule, ok, scope, None, construct=f"stiffness:{b}:{tag}",
                           detail=f"the stiffness blocks of {b} (elements {els}) are Hessians of that block's energy, stored at those elements",
                           bad_detail=f"multi-block element stiffnesses of {b} (elements {els}): {why} (operand not restricted by the block's element ids, result "
                                      f"scattered with other ids, or model selected by another key)")
        # ---- state update, initial state, output fields: rows of the block = single-block result of the block's material
        for field, what in (("compute_updated_internal_variables", "state-update"), ("compute_initial_state", "initial-state"),
                            ("compute_output_energy_densities_and_stresses", "output")):
            mv = multi.ev(field)
            if mv.error:
                report_exc(ctx, rule, scope, f"{what}:{tag}", mv, field, block_context=True)
                continue
            for (b, els), m in zip(BLOCKS.items(), mats):
                sv = singles[m].ev(field)
                if sv.error:
                    ctx.undecided(rule, scope, None, construct=f"{what}:{b}:{tag}", detail=f"single-block {field}: {sv.error}")
                    continue
                try:
                    if isinstance(mv.value, tuple):
                        ok = isinstance(sv.value, tuple) and len(sv.value) == len(mv.value) and all(rows_equal(W, x, y, els) for x, y in zip(mv.value, sv.value))
                    else:
                        ok = rows_equal(W, mv.value, sv.value, els)
                except ERR as ex:
                    ok = None
                if ok is False and (mv.tainted or sv.tainted):
                    ok = None
                ctx.decide(rule, ok, scope, None, construct=f"{what}:{b}:{tag}",
                           detail=f"{field}: the rows of {b} (elements {els}) are the single-block result for that block's material",
                           bad_detail=f"multi-block {field}: the rows of the elements {els} of {b} differ from what the block's own material model gives for those "
                                      f"elements (operands restricted / results scattered with other ids than the block's, or another block's model)")
        # ---- the same material in every block: nothing changes
        sa = singles["A"]
        for field, what in (("compute_strain_energy", "energy"), ("compute_updated_internal_variables", "state-update"),
                            ("compute_output_energy_densities_and_stresses", "output")):
            a, b_ = same.ev(field), sa.ev(field)
            if a.error or b_.error:
                if a.error and isinstance(a.exc, MappedSizeMismatch):
                    continue        # already reported above
                ctx.undecided(rule, scope, None, construct=f"split:{what}:{tag}", detail=f"{field}: {a.error or b_.error}")
                continue
            try:
                if isinstance(a.value, tuple):
                    ok = all(W.same(x, y) for x, y in zip(a.value, b_.value)) and len(a.value) == len(b_.value)
                else:
                    ok = W.same(a.value, b_.value)
            except ERR:
                ok = None
            if ok is False and (a.tainted or b_.tainted):
                ok = None
            ctx.decide(rule, ok, scope, None, construct=f"split:{what}:{tag}",
                       detail=f"{field}: splitting the mesh into blocks with the same material changes nothing",
                       bad_detail=f"{field} of the multi-block factory with the same material in every block differs from the single-block factory's")
        sme = same.ev(STIFF["multi"])
        efs, _why = (None, None) if sme.error else element_functions(S, sme)
        sE = sa.ev("compute_strain_energy")
        if efs is not None and not sE.error:
            bad = und = None
            for e in range(NE):
                if efs[e] == "zero":
                    bad = bad or f"element {e} has no stiffness block"
                    continue
                Fa, ea, _, ta = element_sum(S, efs, [e])
                want = element_part(W, W.rat(sE.value), [e])
                if ea or want is None:
                    und = ea or "single-block energy is not a sum of element contributions"
                    break
                if W.nonaffine(_A.norm(Fa - want)):
                    if ta or sme.tainted or sE.tainted:
                        und = "a kernel could not be interpreted"
                        break
                    bad = bad or f"element {e}: the differentiated function is not the element's part of the single-block energy"
            ctx.decide(rule, None if und else bad is None, scope, None, construct=f"split:stiffness:{tag}",
                       detail="element stiffnesses: splitting the mesh into blocks with the same material changes nothing",
                       bad_detail=f"element stiffnesses of the multi-block factory with the same material in every block are not the Hessians of the single-block "
                                  f"factory's energy: {bad or und}")
    if n_done == 0:
        raise Incomplete("the multi-block factory could not be evaluated")
    # FunctionSpace.evaluate_on_block over an index block: rows are those of the whole-mesh evaluation
    evb = ctx.need(f"{FS}:evaluate_on_block")
    try:
        Ld = PyFunc("lagrangian_density", lambda it, a, k: it.opaque("L", list(a)))
        full = I.call(W.fn(FS, "evaluate_on_block"), [W.fs, W.U, W.Q, W.dt, Ld, slice(None)], {})
        for b, els in BLOCKS.items():
            part = I.call(W.fn(FS, "evaluate_on_block"), [W.fs, W.U, W.Q, W.dt, Ld, W.blocks[b]], {})
            ok = isinstance(part, Arr) and isinstance(full, Arr) and part.shape[0] == len(els) and all(W.same(part.index(i), full.index(e)) for i, e in enumerate(els))
            ctx.decide(rule, ok, evb, None, construct=f"evaluate_on_block:{b}",
                       detail=f"evaluate_on_block over the element ids {els} returns the rows {els} of the whole-mesh evaluation",
                       bad_detail=f"evaluate_on_block over the element ids {els} does not return the values of those elements: a per-element operand is not restricted by [block]")
    except MappedSizeMismatch as ex:
        ctx.refuted(rule, evb, None, construct="evaluate_on_block:mapped-operand",
                    detail=f"evaluate_on_block over an index block: jax.vmap of {ex.fname} receives per-element operands of lengths "
                           f"{sorted(set(ex.sizes.values()))} (positions {sorted(ex.sizes)}): an operand is not restricted by [block]")
    except ERR as ex:
        ctx.undecided(rule, evb, None, construct="evaluate_on_block", detail=f"cannot interpret: {type(ex).__name__}: {ex}")


# ------------------------------------------------------------------ selftest variants

def variants(repo):
    from optilint.selftest import Variant, sub, sub_in_func, alpha_rename, reformat, commute
    P = "optimism/Mechanics.py"
    F = "optimism/FunctionSpace.py"
    V = [
        Variant("projection helper gains a required parameter", P,
                sub("def volume_average_J_gradient_transformation(elemDispGrads, elemVols, pShapes):",
                    "def volume_average_J_gradient_transformation(elemDispGrads, elemVols, pShapes, elemShapes):"),
                "D1/T10-link"),
        Variant("projection helper renamed at one use", P,
                sub_in_func("define_pressure_projection_gradient_tranformation", "Interpolants.compute_shapes(masterJ, xigauss).values",
                            "Interpolants.compute_shapes_on_tri(masterJ, xigauss)"),
                "D1/T10-link"),
        Variant("hook with 4 parameters", P,
                sub("def plane_strain_gradient_transformation(elemDispGrads, elemShapes, elemVols, elemNodalDisps, elemNodalCoords):",
                    "def plane_strain_gradient_transformation(elemDispGrads, elemShapes, elemVols, elemNodalDisps):"),
                "D1/T10-link"),
        Variant("hessian w.r.t. coordinates", P,
                sub("element_hess_func = hessian(FunctionSpace.integrate_element_from_local_field)",
                    "element_hess_func = hessian(FunctionSpace.integrate_element_from_local_field, 1)"),
                "D2/T5-hessian-of-element-energy"),
        Variant("stiffness without hook", P,
                sub_in_func("create_mechanics_functions",
                            "_compute_element_stiffnesses(U, stateVariables, dt, fs, materialModel.compute_energy_density, modify_element_gradient)",
                            "_compute_element_stiffnesses(U, stateVariables, dt, fs, materialModel.compute_energy_density, grad_2D_to_3D)"),
                "D2/T6-factory-energy-vs-stiffness"),
        Variant("drop [elemIds] on one operand", P,
                sub("fs.shapes[elemIds], fs.shapeGrads[elemIds], fs.vols[elemIds],", "fs.shapes[elemIds], fs.shapeGrads[elemIds], fs.vols,"),
                "D3/T9-block-restricted"),
        Variant("scatter with wrong ids", P,
                sub("elementHessians = elementHessians.at[elemIds].set(blockHessians)",
                    "elementHessians = elementHessians.at[:elemIds.size].set(blockHessians)"),
                "D3/T9-block-restricted"),
        Variant("hook roles swapped in hessian path", F,
                sub("elemGrads = modify_element_gradient(elemGrads, elemShapes, elemVols, elemNodalField, elemNodalCoords)",
                    "elemGrads = modify_element_gradient(elemGrads, elemShapes, elemVols, elemNodalCoords, elemNodalField)"),
                "D2/T6-energy-vs-hessian-path"),
        Variant("strain hessian at U-UPredicted", P,
                sub_in_func("_compute_newmark_element_hessians", "return f(U,", "return f(U - UPredicted,"),
                "D2/T6-newmark-term-fields"),
        Variant("unrestricted vols in evaluate_on_block", F,
                sub("fs.shapeGrads[block], fs.vols[block],", "fs.shapeGrads[block], fs.vols,"),
                "D3/T9-block-restricted"),
        Variant("truthiness guard on projection degree", P,
                sub_in_func("create_multi_block_mechanics_functions", "if pressureProjectionDegree is not None:", "if pressureProjectionDegree:"),
                "D2/T6-projection-option-guard"),
        # ---- further breaking edits (each must be reported by the rule that owns the broken fact)
        Variant("multi-block energy always uses the first block's model", P,
                sub_in_func("_compute_strain_energy_multi_block", "materialModel = blockModels[blockKey]", "materialModel = blockModels[list(blockModels)[0]]"),
                "D3/T9-block-restricted"),
        Variant("element integral without quadrature volumes (hessian path)", F,
                sub_in_func("integrate_element_from_local_field", "return np.dot(fVals, elemVols)", "return np.sum(fVals)"),
                "D2/T6-energy-vs-hessian-path"),
        Variant("element hessians get gamma for beta", P,
                sub_in_func("create_dynamics_functions", "newmarkParameters.beta, materialModel.compute_energy_density, modify_element_gradient)",
                            "newmarkParameters.gamma, materialModel.compute_energy_density, modify_element_gradient)"),
                "D2/T6-newmark-term-fields"),
        Variant("state update with the unprojected transformation", P,
                sub_in_func("create_mechanics_functions", "materialModel.compute_state_new, modify_element_gradient)", "materialModel.compute_state_new, grad_2D_to_3D)"),
                "D2/T6-one-gradient-transformation"),
        Variant("density receives the field value as coordinates (energy path)", F,
                sub_in_func("evaluate_on_element", "(elemVals, elemGrads, elemStates, elemXs, dt, *params)", "(elemVals, elemGrads, elemStates, elemVals, dt, *params)"),
                "D2/T6-energy-vs-hessian-path"),
        Variant("multi-block state update reads the first rows instead of the block's", P,
                sub_in_func("_compute_updated_internal_variables_multi_block", "blockStates = states[elemIds]", "blockStates = states[:elemIds.size]"),
                "D3/T9-block-restricted"),
        Variant("hoop strain from the axial displacement", P,
                sub_in_func("axisymmetric_gradient", "disp[0]/coord[0]", "disp[1]/coord[0]"),
                "D2/T14-mode-dispatch"),
        Variant("truthiness guard in the shared projection helper", P,
                sub_in_func("define_pressure_projection_gradient_tranformation", "if pressureProjectionDegree is not None:", "if pressureProjectionDegree:"),
                "D2/T6-projection-option-guard"),
        Variant("element kernel gathers the field where the coordinates belong", P,
                sub_in_func("compute_element_stiffness_from_global_fields", "elCoords = coords[elConn,:]", "elCoords = U[elConn,:]"),
                "D2/T5-hessian-of-element-energy"),
        Variant("multi-block stiffness scattered to the first rows", P,
                sub_in_func("_compute_element_stiffnesses_multi_block", "elementHessians.at[elemIds].set(blockHessians)", "elementHessians.at[np.arange(elemIds.size)].set(blockHessians)"),
                "D3/T9-block-restricted"),
        Variant("hessian of the strain part only", P,
                sub_in_func("_compute_newmark_element_hessians", "kinetic_energy_density(W, density)/(newmarkBeta*dtime**2) + strain_energy_density(gradW, Q, dtime)",
                            "strain_energy_density(gradW, Q, dtime)"),
                "D2/T6-newmark-term-fields"),
        Variant("projection wrapper rebound to its own name (unbounded recursion)", P,
                sub_in_func("create_mechanics_functions", "            return grad_2D_to_3D(elemGrads, elemShapes, elemVols, elemNodalDisps, elemNodalCoords)",
                            "            return modify_element_gradient(elemGrads, elemShapes, elemVols, elemNodalDisps, elemNodalCoords)"),
                "D2/T6-one-gradient-transformation"),
        # ---- further preserving rewrites (must stay silent)
        Variant("multi-block energy as sum over items()", P,
                sub_in_func("_compute_strain_energy_multi_block",
                            """    energy = 0.0
    for blockKey in blockModels:
        materialModel = blockModels[blockKey]
        elemIds = functionSpace.mesh.blocks[blockKey]
        
        L = strain_energy_density_to_lagrangian_density(materialModel.compute_energy_density)
        
        blockEnergy = FunctionSpace.integrate_over_block(functionSpace, UField, stateField, dt, L,
                                                         elemIds, modify_element_gradient=modify_element_gradient)
        
        energy += blockEnergy
    return energy""",
                            """    def block_energy(key, model):
        density = strain_energy_density_to_lagrangian_density(model.compute_energy_density)
        return FunctionSpace.integrate_over_block(functionSpace, UField, stateField, dt, density, functionSpace.mesh.blocks[key],
                                                  modify_element_gradient=modify_element_gradient)
    return sum(block_energy(k, m) for k, m in blockModels.items())"""), None),
        Variant("element kernel: keyword call, inlined gathers, hessian as jacfwd(jacrev)", P,
                lambda src: (lambda a, b: b(a(src)) if a(src) else None)(
                    sub("element_hess_func = hessian(FunctionSpace.integrate_element_from_local_field)",
                        "element_hess_func = jacfwd(jacrev(FunctionSpace.integrate_element_from_local_field, argnums=0), argnums=0)"),
                    sub("""    elDisp = U[elConn,:]
    elCoords = coords[elConn,:]
    return element_hess_func(elDisp, elCoords, elInternals, dt, elShapes, elShapeGrads,
                             elVols, lagrangian_density, modify_element_gradient)""",
                        """    return element_hess_func(U[elConn], coords[elConn], elInternals, dt, elShapes, elShapeGrads, elVols,
                             func=lagrangian_density, modify_element_gradient=modify_element_gradient)""")), None),
        Variant("block integral as sum of products", F,
                sub_in_func("integrate_over_block", "return np.dot(vals.ravel(), functionSpace.vols[block].ravel())", "return np.sum(vals*functionSpace.vols[block])"), None),
        Variant("mode dispatch through a table, projection switch as a named flag, hook as lambda", P,
                sub_in_func("create_mechanics_functions",
                            """    if mode2D == 'plane strain':
        grad_2D_to_3D = plane_strain_gradient_transformation
    elif mode2D == 'axisymmetric':
        grad_2D_to_3D = axisymmetric_element_gradient_transformation
    else:
        raise

    modify_element_gradient = grad_2D_to_3D
    if pressureProjectionDegree is not None:
        masterJ = Interpolants.make_parent_element_2d(degree=pressureProjectionDegree)
        xigauss = functionSpace.quadratureRule.xigauss
        shapesJ = Interpolants.compute_shapes(masterJ, xigauss).values

        def modify_element_gradient(elemGrads, elemShapes, elemVols, elemNodalDisps, elemNodalCoords):
            elemGrads = volume_average_J_gradient_transformation(elemGrads, elemVols, shapesJ)
            return grad_2D_to_3D(elemGrads, elemShapes, elemVols, elemNodalDisps, elemNodalCoords)
""",
                            """    transformations = {'plane strain': plane_strain_gradient_transformation,
                       'axisymmetric': axisymmetric_element_gradient_transformation}
    if mode2D not in transformations:
        raise ValueError(mode2D)
    grad_2D_to_3D = transformations[mode2D]

    withoutProjection = pressureProjectionDegree is None
    if withoutProjection:
        modify_element_gradient = grad_2D_to_3D
    else:
        shapesJ = Interpolants.compute_shapes(Interpolants.make_parent_element_2d(degree=pressureProjectionDegree),
                                              functionSpace.quadratureRule.xigauss).values
        modify_element_gradient = lambda g, s, v, d, c: grad_2D_to_3D(volume_average_J_gradient_transformation(g, v, shapesJ), s, v, d, c)
"""), None),
        Variant("newmark hessian as strain hessian plus scaled mass hessian", P,
                sub_in_func("_compute_newmark_element_hessians",
                            """    def lagrangian_density(W, gradW, Q, X, dtime):
        return kinetic_energy_density(W, density)/(newmarkBeta*dtime**2) + strain_energy_density(gradW, Q, dtime)
    f =  vmap(compute_element_stiffness_from_global_fields,
              (None, None, 0, None, 0, 0, 0, 0, None, None))
    fs = functionSpace
    # The strain energy must be linearized about U. The kinetic term is quadratic in
    # U - UPredicted, so its Hessian does not depend on the evaluation point.
    return f(U, fs.mesh.coords, internals, dt, fs.mesh.conns, fs.shapes, fs.shapeGrads, fs.vols,
             lagrangian_density, modify_element_gradient)""",
                            """    def kinetic(W, gradW, Q, X, dtime):
        return kinetic_energy_density(W, density)
    strain = strain_energy_density_to_lagrangian_density(strain_energy_density)
    f = vmap(compute_element_stiffness_from_global_fields, in_axes=(None, None, 0, None, 0, 0, 0, 0, None, None))
    fs = functionSpace
    geometry = (fs.mesh.conns, fs.shapes, fs.shapeGrads, fs.vols)
    stiffness = f(U, fs.mesh.coords, internals, dt, *geometry, strain, modify_element_gradient)
    mass = f(U - UPredicted, fs.mesh.coords, internals, dt, *geometry, kinetic, modify_element_gradient)
    return stiffness + mass/(newmarkBeta*dt**2)"""), None),
        Variant("multi-block stiffness: guard clause, enumerate, partial", P,
                sub_in_func("_compute_element_stiffnesses_multi_block",
                            """    for blockKey in blockModels:
        materialModel = blockModels[blockKey]
        L = strain_energy_density_to_lagrangian_density(materialModel.compute_energy_density)
        elemIds = functionSpace.mesh.blocks[blockKey]
        f =  vmap(compute_element_stiffness_from_global_fields,
                  (None, None, 0, None, 0, 0, 0, 0, None, None))
        blockHessians = f(U, fs.mesh.coords, stateVariables[elemIds], dt, fs.mesh.conns[elemIds],
                          fs.shapes[elemIds], fs.shapeGrads[elemIds], fs.vols[elemIds],
                          L, modify_element_gradient)
        elementHessians = elementHessians.at[elemIds].set(blockHessians)
    return elementHessians""",
                            """    restrict = lambda ids: tuple(a[ids] for a in (stateVariables, fs.mesh.conns, fs.shapes, fs.shapeGrads, fs.vols))
    for n, (name, model) in enumerate(blockModels.items()):
        ids = fs.mesh.blocks[name]
        if ids.size == 0:
            continue
        q, conns, shapes, shapeGrads, vols = restrict(ids)
        kernel = partial(compute_element_stiffness_from_global_fields,
                         lagrangian_density=strain_energy_density_to_lagrangian_density(model.compute_energy_density),
                         modify_element_gradient=modify_element_gradient)
        hessians = vmap(lambda s, c, N, dN, w: kernel(U, fs.mesh.coords, s, dt, c, N, dN, w))(q, conns, shapes, shapeGrads, vols)
        elementHessians = elementHessians.at[ids].set(hessians)
    return elementHessians"""), None),
        Variant("projection right-hand side by einsum", P, sub("rhs = np.dot(elemVols*Js, pShapes)", "rhs = np.einsum('q,qn->n', elemVols*Js, pShapes)"), None),
        Variant("FunctionSpace: shared gradient helper, matrix products instead of vmapped interpolation, einsum gradient", F,
                lambda src: (lambda a, b, c: (lambda s1: (lambda s2: c(s2) if s2 else None)(b(s1)) if s1 else None)(a(src)))(
                    sub("""    elemVals = jax.vmap(interpolate_to_point, (None,0))(elemNodalField, elemShapes)
    elemGrads = jax.vmap(compute_quadrature_point_field_gradient, (None,0))(elemNodalField, elemShapeGrads)
    elemGrads = modify_element_gradient(elemGrads, elemShapes, elemVols, elemNodalField, elemNodalCoords)
    elemPoints = jax.vmap(interpolate_to_point, (None,0))(elemNodalCoords, elemShapes)
    fVals = jax.vmap(func, (0, 0, 0, 0, None))(elemVals, elemGrads, elemStates, elemPoints, dt)
    return np.dot(fVals, elemVols)""",
                        """    gradients = _transformed_gradients(elemNodalField, elemNodalCoords, elemShapes, elemShapeGrads, elemVols, modify_element_gradient)
    values, points = elemShapes@elemNodalField, elemShapes@elemNodalCoords
    integrand = jax.vmap(func, in_axes=(0, 0, 0, 0, None))(values, gradients, elemStates, points, dt)
    return elemVols@integrand"""),
                    sub("""    elemNodalDisps = U[elemConnectivity]
    elemGrads = jax.vmap(compute_quadrature_point_field_gradient, (None, 0))(elemNodalDisps, elemShapeGrads)
    elemNodalCoords = coords[elemConnectivity]
    elemGrads = modify_element_gradient(elemGrads, elemShapes, elemVols, elemNodalDisps, elemNodalCoords)
    return elemGrads""",
                        """    return _transformed_gradients(U[elemConnectivity], coords[elemConnectivity], elemShapes, elemShapeGrads, elemVols, modify_element_gradient)


def _transformed_gradients(nodalValues, nodalCoords, shapes, shapeGrads, vols, transform):
    raw = np.einsum('ai,qaj->qij', nodalValues, shapeGrads)
    return transform(raw, shapes, vols, nodalValues, nodalCoords)"""),
                    sub("""    dg = np.tensordot(u, shapeGrad, axes=[0,0])
    return dg""", """    return u.T@shapeGrad""")), None),
        Variant("reformat Mechanics", P, reformat(), None),
        Variant("reformat FunctionSpace", F, reformat(), None),
        Variant("alpha-rename _compute_element_stiffnesses_multi_block", P,
                alpha_rename("_compute_element_stiffnesses_multi_block"), None),
        Variant("alpha-rename _compute_newmark_element_hessians", P,
                alpha_rename("_compute_newmark_element_hessians"), None),
    ]
    return V
